/-
Every step of the snapshotter model preserves the snapshot invariant
(Lemmas/SnapshotInv.lean); hence so do whole runs and the shutdown.

Technique: the record updates `{ s with … }` of the model are named (`setClock`, …),
their projections are proved once by `rfl`, the model's functions are rewritten
into these names (`…_eq` lemmas, by `rfl`), and then the names are made irreducible,
so that no later proof ever unifies two whole `Snap` records.
-/
import SerfProofs.Lemmas.SnapshotInv
namespace SerfProofs.Snapshot
open SerfModel SerfModel.Snapshot

/-- member names without newline, addresses without space/newline, uint64 event times -/
def WFEv : Ev → Prop
  | .join ms _ => ∀ p ∈ ms, WFName p.1 ∧ WFAddr p.2
  | .gone ns _ => ∀ n ∈ ns, WFName n
  | .user lt => lt < U64
  | .query lt => lt < U64
  | _ => True

instance (e : Ev) : Decidable (WFEv e) := by
  cases e <;> unfold WFEv U64 <;> infer_instance

theorem lastSeenOf_lt (clk : Nat) : lastSeenOf clk < U64 := by
  unfold lastSeenOf U64
  exact Nat.mod_lt _ (Nat.zero_lt_succ _)

-- never let the unifier look inside `lastSeenOf` (it would evaluate `% 2^64` in unary)
attribute [local irreducible] lastSeenOf

theorem pair_proj {α β : Type} (a : α) (b : β) : (a, b).1 = a ∧ (a, b).2 = b := ⟨rfl, rfl⟩

/-! ### named record updates -/

def setClock (s : Snap) (x : Nat) : Snap := { s with lastClock := x }
def setEventClock (s : Snap) (x : Nat) : Snap := { s with lastEventClock := x }
def setQueryClock (s : Snap) (x : Nat) : Snap := { s with lastQueryClock := x }
def setAlive (s : Snap) (a : AMap) : Snap := { s with alive := a }
def setLeave (s : Snap) : Snap := { s with leaving := true, alive := if s.rejoin then s.alive else [] }
def clearBuf (s : Snap) : Snap := { s with buf := [] }

structure Proj (s s1 : Snap) (a : AMap) (c e q : Nat) (lv : Bool) : Prop where
  buf : s1.buf = s.buf
  rejoin : s1.rejoin = s.rejoin
  leaving : s1.leaving = lv
  alive : s1.alive = a
  hc : s1.lastClock = c
  he : s1.lastEventClock = e
  hq : s1.lastQueryClock = q
  mem : s1.mem = { alive := a, clock := c, eventClock := e, queryClock := q }

theorem setClock_proj (s : Snap) (x : Nat) :
    Proj s (setClock s x) s.alive x s.lastEventClock s.lastQueryClock s.leaving := ⟨rfl, rfl, rfl, rfl, rfl, rfl, rfl, rfl⟩
theorem setEventClock_proj (s : Snap) (x : Nat) :
    Proj s (setEventClock s x) s.alive s.lastClock x s.lastQueryClock s.leaving := ⟨rfl, rfl, rfl, rfl, rfl, rfl, rfl, rfl⟩
theorem setQueryClock_proj (s : Snap) (x : Nat) :
    Proj s (setQueryClock s x) s.alive s.lastClock s.lastEventClock x s.leaving := ⟨rfl, rfl, rfl, rfl, rfl, rfl, rfl, rfl⟩
theorem setAlive_proj (s : Snap) (a : AMap) :
    Proj s (setAlive s a) a s.lastClock s.lastEventClock s.lastQueryClock s.leaving := ⟨rfl, rfl, rfl, rfl, rfl, rfl, rfl, rfl⟩
theorem setLeave_proj (s : Snap) :
    Proj s (setLeave s) (if s.rejoin then s.alive else []) s.lastClock s.lastEventClock s.lastQueryClock true :=
  ⟨rfl, rfl, rfl, rfl, rfl, rfl, rfl, rfl⟩

theorem clearBuf_buf (s : Snap) : (clearBuf s).buf = [] := rfl
theorem clearBuf_rejoin (s : Snap) : (clearBuf s).rejoin = s.rejoin := rfl
theorem clearBuf_leaving (s : Snap) : (clearBuf s).leaving = s.leaving := rfl
theorem clearBuf_alive (s : Snap) : (clearBuf s).alive = s.alive := rfl
theorem clearBuf_mem (s : Snap) : (clearBuf s).mem = s.mem := rfl

/-! ### the model's functions in terms of the named updates -/

theorem updateClock_pos (ord : Order) (s : Snap) (clk : Nat) (h : lastSeenOf clk > s.lastClock) :
    updateClock ord s clk = appendLine ord (setClock s (lastSeenOf clk)) (printLine (.clock (lastSeenOf clk))) := by
  simp only [updateClock, h, ↓reduceIte]; rfl

theorem updateClock_neg (ord : Order) (s : Snap) (clk : Nat) (h : ¬ lastSeenOf clk > s.lastClock) :
    updateClock ord s clk = (s, []) := by
  simp only [updateClock, h, ↓reduceIte]

theorem joinMembers_cons (ord : Order) (s : Snap) (n : Name) (a : Addr) (ms : List (Name × Addr)) :
    joinMembers ord s ((n, a) :: ms) =
      ((joinMembers ord (appendLine ord (setAlive s (ainsert s.alive n a)) (printLine (.alive n a))).1 ms).1,
       (appendLine ord (setAlive s (ainsert s.alive n a)) (printLine (.alive n a))).2 ++
       (joinMembers ord (appendLine ord (setAlive s (ainsert s.alive n a)) (printLine (.alive n a))).1 ms).2) := rfl

theorem goneMembers_cons (ord : Order) (s : Snap) (n : Name) (ns : List Name) :
    goneMembers ord s (n :: ns) =
      ((goneMembers ord (appendLine ord (setAlive s (aerase s.alive n)) (printLine (.notAlive n))).1 ns).1,
       (appendLine ord (setAlive s (aerase s.alive n)) (printLine (.notAlive n))).2 ++
       (goneMembers ord (appendLine ord (setAlive s (aerase s.alive n)) (printLine (.notAlive n))).1 ns).2) := rfl

theorem step_join (ord : Order) (s : Snap) (ms : List (Name × Addr)) (clk : Nat) :
    step ord s (.join ms clk) = if s.leaving then (s, []) else
      ((updateClock ord (joinMembers ord s ms).1 clk).1, (joinMembers ord s ms).2 ++ (updateClock ord (joinMembers ord s ms).1 clk).2) := rfl

theorem step_gone (ord : Order) (s : Snap) (ns : List Name) (clk : Nat) :
    step ord s (.gone ns clk) = if s.leaving then (s, []) else
      ((updateClock ord (goneMembers ord s ns).1 clk).1, (goneMembers ord s ns).2 ++ (updateClock ord (goneMembers ord s ns).1 clk).2) := rfl

theorem step_memberOther (ord : Order) (s : Snap) (clk : Nat) :
    step ord s (.memberOther clk) = if s.leaving then (s, []) else updateClock ord s clk := rfl

theorem step_user (ord : Order) (s : Snap) (lt : Nat) :
    step ord s (.user lt) = if s.leaving then (s, []) else if lt ≤ s.lastEventClock then (s, [])
      else appendLine ord (setEventClock s lt) (printLine (.eventClock lt)) := rfl

theorem step_query (ord : Order) (s : Snap) (lt : Nat) :
    step ord s (.query lt) = if s.leaving then (s, []) else if lt ≤ s.lastQueryClock then (s, [])
      else appendLine ord (setQueryClock s lt) (printLine (.queryClock lt)) := rfl

theorem step_clockTick (ord : Order) (s : Snap) (clk : Nat) : step ord s (.clockTick clk) = updateClock ord s clk := rfl

theorem step_leave (ord : Order) (s : Snap) :
    step ord s .leave =
      (clearBuf (appendLine ord (setLeave s) (printLine .leave)).1,
       (appendLine ord (setLeave s) (printLine .leave)).2 ++
         flushOps .main (appendLine ord (setLeave s) (printLine .leave)).1.buf ++ [.sync .main]) := rfl

theorem step_timePasses_fst_mem (ord : Order) (s : Snap) :
    (step ord s .timePasses).2 = [] ∧ (step ord s .timePasses).1.mem = s.mem ∧
      (step ord s .timePasses).1.rejoin = s.rejoin ∧ (step ord s .timePasses).1.leaving = s.leaving ∧
      (step ord s .timePasses).1.buf = s.buf := ⟨rfl, rfl, rfl, rfl, rfl⟩

theorem step_forceCompact (ord : Order) (s : Snap) : step ord s .forceCompact = compact ord s := rfl

theorem shutdown_eq (ord : Order) (s : Snap) (clk : Nat) :
    shutdown ord s clk =
      (clearBuf (updateClock ord s clk).1,
       (updateClock ord s clk).2 ++ flushOps .main (updateClock ord s clk).1.buf ++ [.sync .main, .close .main]) := rfl

theorem step_join_neg (ord : Order) (s : Snap) (ms : List (Name × Addr)) (clk : Nat) (h : ¬ s.leaving = true) :
    (step ord s (.join ms clk)).1 = (updateClock ord (joinMembers ord s ms).1 clk).1 ∧
    (step ord s (.join ms clk)).2 = (joinMembers ord s ms).2 ++ (updateClock ord (joinMembers ord s ms).1 clk).2 := by
  rw [step_join, if_neg h]; exact pair_proj _ _

theorem step_gone_neg (ord : Order) (s : Snap) (ns : List Name) (clk : Nat) (h : ¬ s.leaving = true) :
    (step ord s (.gone ns clk)).1 = (updateClock ord (goneMembers ord s ns).1 clk).1 ∧
    (step ord s (.gone ns clk)).2 = (goneMembers ord s ns).2 ++ (updateClock ord (goneMembers ord s ns).1 clk).2 := by
  rw [step_gone, if_neg h]; exact pair_proj _ _

theorem step_leave_fst (ord : Order) (s : Snap) :
    (step ord s .leave).1 = clearBuf (appendLine ord (setLeave s) (printLine .leave)).1 := rfl
theorem step_leave_snd (ord : Order) (s : Snap) :
    (step ord s .leave).2 = (appendLine ord (setLeave s) (printLine .leave)).2 ++
         (flushOps .main (appendLine ord (setLeave s) (printLine .leave)).1.buf ++ [.sync .main]) := by
  rw [step_leave]; exact List.append_assoc _ _ _

theorem shutdown_fst (ord : Order) (s : Snap) (clk : Nat) :
    (shutdown ord s clk).1 = clearBuf (updateClock ord s clk).1 := rfl
theorem shutdown_snd (ord : Order) (s : Snap) (clk : Nat) :
    (shutdown ord s clk).2 = (updateClock ord s clk).2 ++
      (flushOps .main (updateClock ord s clk).1.buf ++ [.sync .main, .close .main]) := by
  rw [shutdown_eq]; exact List.append_assoc _ _ _

theorem flush_inv' (s : Snap) (fs : FS) (h : Inv s fs) (tail : List FsOp)
    (htail : ∀ g : FS, g.applyAll tail = g) :
    Inv (clearBuf s) (fs.applyAll (flushOps .main s.buf ++ tail)) := flush_inv s fs h tail htail

attribute [irreducible] setClock setEventClock setQueryClock setAlive setLeave clearBuf

/-! ### the steps -/

def ClocksAre (r : RecState) (c e q : Nat) : Prop := r.clock = c ∧ r.eventClock = e ∧ r.queryClock = q

theorem WFRec_mk (m : RecState) (a : AMap) (c e q : Nat)
    (hm : m = { alive := a, clock := c, eventClock := e, queryClock := q })
    (h1 : (akeys a).Nodup) (h2 : ∀ p ∈ a, WFName p.1 ∧ WFAddr p.2) (h3 : c < U64) (h4 : e < U64) (h5 : q < U64) :
    WFRec m := by subst hm; exact ⟨h1, h2, h3, h4, h5⟩

theorem WFRec_parts (s : Snap) (h : WFRec s.mem) :
    (akeys s.alive).Nodup ∧ (∀ p ∈ s.alive, WFName p.1 ∧ WFAddr p.2) ∧ s.lastClock < U64 ∧
      s.lastEventClock < U64 ∧ s.lastQueryClock < U64 := h

theorem Inv_wf {s : Snap} {fs : FS} (h : Inv s fs) : WFRec s.mem := by
  obtain ⟨d, _, _, hwf, _, _⟩ := h; exact hwf

/-- what a step keeps -/
structure Keeps (s s' : Snap) : Prop where
  rejoin : s'.rejoin = s.rejoin
  leaving : s'.leaving = s.leaving
  alive : s'.alive = s.alive

theorem Keeps.refl (s : Snap) : Keeps s s := ⟨rfl, rfl, rfl⟩

/-- change the in-memory state (to `s1`, described by its projections), then append
the line that records the change -/
theorem update_append_inv (ord : Order) (hord : PermOrder ord) (s s1 : Snap) (fs : FS) (ln : Line)
    (a : AMap) (c e q : Nat) (lv : Bool)
    (h : Inv s fs) (hp : Proj s s1 a c e q lv)
    (h1 : (akeys a).Nodup) (h2 : ∀ p ∈ a, WFName p.1 ∧ WFAddr p.2) (h3 : c < U64) (h4 : e < U64) (h5 : q < U64)
    (hln : WFLine ln)
    (hA : ∀ r : RecState, MapEq r.alive s.alive → MapEq (applyLine s.rejoin r ln).alive a)
    (hC : ∀ r : RecState, (lv = false ∨ s.rejoin = true) →
      ((s.leaving = false ∨ s.rejoin = true) → ClocksAre r s.lastClock s.lastEventClock s.lastQueryClock) →
      ClocksAre (applyLine s.rejoin r ln) c e q) :
    Inv (appendLine ord s1 (printLine ln)).1 (fs.applyAll (appendLine ord s1 (printLine ln)).2) ∧
      (appendLine ord s1 (printLine ln)).1.rejoin = s.rejoin ∧
      (appendLine ord s1 (printLine ln)).1.leaving = lv ∧
      (appendLine ord s1 (printLine ln)).1.alive = a := by
  obtain ⟨d, hd, hnl, _, hA0, hC0⟩ := h
  have hwf : WFRec s1.mem := WFRec_mk _ a c e q hp.mem h1 h2 h3 h4 h5
  have key := appendLine_inv ord hord s1 fs d ln hd (by rw [hp.buf]; exact hnl) hwf hln
    (by
      rw [hp.buf, hp.rejoin, hp.mem]
      exact hA _ hA0)
    (by
      intro hj
      rw [hp.buf, hp.rejoin, hp.mem]
      have hj' : lv = false ∨ s.rejoin = true := by
        rcases hj with hj | hj
        · left; rw [← hp.leaving]; exact hj
        · right; rw [← hp.rejoin]; exact hj
      exact hC _ hj' hC0)
  refine ⟨key.1, key.2.2.1.trans hp.rejoin, key.2.2.2.trans hp.leaving, ?_⟩
  have := congrArg RecState.alive key.2.1
  rw [hp.mem] at this
  exact this

theorem clock_append_inv (ord : Order) (hord : PermOrder ord) (s : Snap) (fs : FS) (x : Nat) (h : Inv s fs)
    (hlt : x < U64) :
    Inv (appendLine ord (setClock s x) (printLine (.clock x))).1
        (fs.applyAll (appendLine ord (setClock s x) (printLine (.clock x))).2) ∧
      Keeps s (appendLine ord (setClock s x) (printLine (.clock x))).1 := by
  obtain ⟨w1, w2, w3, w4, w5⟩ := WFRec_parts s (Inv_wf h)
  have := update_append_inv ord hord s (setClock s x) fs (.clock x)
    s.alive x s.lastEventClock s.lastQueryClock s.leaving h (setClock_proj s x)
    w1 w2 hlt w4 w5 hlt
    (fun r hr => by exact hr)
    (fun r hj hc => by
      have := hc hj
      exact ⟨rfl, this.2.1, this.2.2⟩)
  exact ⟨this.1, ⟨this.2.1, this.2.2.1, this.2.2.2⟩⟩

theorem updateClock_inv (ord : Order) (hord : PermOrder ord) (s : Snap) (fs : FS) (clk : Nat) (h : Inv s fs) :
    Inv (updateClock ord s clk).1 (fs.applyAll (updateClock ord s clk).2) ∧ Keeps s (updateClock ord s clk).1 := by
  by_cases hcond : lastSeenOf clk > s.lastClock
  · rw [updateClock_pos ord s clk hcond]
    exact clock_append_inv ord hord s fs (lastSeenOf clk) h (lastSeenOf_lt clk)
  · rw [updateClock_neg ord s clk hcond]
    exact ⟨h, Keeps.refl s⟩

theorem joinMembers_inv (ord : Order) (hord : PermOrder ord) (ms : List (Name × Addr)) :
    ∀ (s : Snap) (fs : FS), Inv s fs → (∀ p ∈ ms, WFName p.1 ∧ WFAddr p.2) →
      Inv (joinMembers ord s ms).1 (fs.applyAll (joinMembers ord s ms).2) ∧
        (joinMembers ord s ms).1.rejoin = s.rejoin ∧ (joinMembers ord s ms).1.leaving = s.leaving := by
  induction ms with
  | nil => intro s fs h _; exact ⟨h, rfl, rfl⟩
  | cons p ms ih =>
    intro s fs h hw
    obtain ⟨n, a⟩ := p
    have hp := hw (n, a) List.mem_cons_self
    obtain ⟨w1, w2, w3, w4, w5⟩ := WFRec_parts s (Inv_wf h)
    have h1 := update_append_inv ord hord s (setAlive s (ainsert s.alive n a)) fs (.alive n a)
      (ainsert s.alive n a) s.lastClock s.lastEventClock s.lastQueryClock s.leaving h (setAlive_proj s _)
      (akeys_ainsert_nodup _ _ _ w1)
      (fun q hq => by
        rcases mem_ainsert hq with rfl | hq
        · exact hp
        · exact w2 q hq) w3 w4 w5 hp
      (fun r hr => by exact MapEq.ainsert hr n a)
      (fun r hj hc => by exact hc hj)
    rw [joinMembers_cons, applyAll_append]
    have h2 := ih _ _ h1.1 (fun q hq => hw q (List.mem_cons_of_mem _ hq))
    exact ⟨h2.1, h2.2.1.trans h1.2.1, h2.2.2.trans h1.2.2.1⟩

theorem goneMembers_inv (ord : Order) (hord : PermOrder ord) (ns : List Name) :
    ∀ (s : Snap) (fs : FS), Inv s fs → (∀ n ∈ ns, WFName n) →
      Inv (goneMembers ord s ns).1 (fs.applyAll (goneMembers ord s ns).2) ∧
        (goneMembers ord s ns).1.rejoin = s.rejoin ∧ (goneMembers ord s ns).1.leaving = s.leaving := by
  induction ns with
  | nil => intro s fs h _; exact ⟨h, rfl, rfl⟩
  | cons n ns ih =>
    intro s fs h hw
    have hp := hw n List.mem_cons_self
    obtain ⟨w1, w2, w3, w4, w5⟩ := WFRec_parts s (Inv_wf h)
    have h1 := update_append_inv ord hord s (setAlive s (aerase s.alive n)) fs (.notAlive n)
      (aerase s.alive n) s.lastClock s.lastEventClock s.lastQueryClock s.leaving h (setAlive_proj s _)
      (akeys_aerase_nodup _ _ w1) (fun q hq => w2 q (mem_aerase hq)) w3 w4 w5 hp
      (fun r hr => by exact MapEq.aerase hr n)
      (fun r hj hc => by exact hc hj)
    rw [goneMembers_cons, applyAll_append]
    have h2 := ih _ _ h1.1 (fun q hq => hw q (List.mem_cons_of_mem _ hq))
    exact ⟨h2.1, h2.2.1.trans h1.2.1, h2.2.2.trans h1.2.2.1⟩

/-- what a step does to the flags and the alive map, besides preserving the invariant -/
theorem step_inv (ord : Order) (hord : PermOrder ord) (s : Snap) (fs : FS) (ev : Ev) (hev : WFEv ev)
    (h : Inv s fs) :
    Inv (step ord s ev).1 (fs.applyAll (step ord s ev).2) ∧ (step ord s ev).1.rejoin = s.rejoin ∧
      (ev ≠ .leave → (step ord s ev).1.leaving = s.leaving) ∧
      (s.leaving = true → (step ord s ev).1.leaving = true ∧
        ((step ord s ev).1.alive = s.alive ∨ ((step ord s ev).1.alive = [] ∧ s.rejoin = false))) ∧
      (ev = .leave → (step ord s ev).1.leaving = true ∧
        (step ord s ev).1.alive = if s.rejoin then s.alive else []) := by
  obtain ⟨w1, w2, w3, w4, w5⟩ := WFRec_parts s (Inv_wf h)
  cases ev with
  | join ms clk =>
    by_cases hl : s.leaving = true
    · have e : step ord s (.join ms clk) = (s, []) := by rw [step_join, if_pos hl]
      rw [e]
      exact ⟨h, rfl, fun _ => rfl, fun _ => ⟨hl, Or.inl rfl⟩, fun e => by cases e⟩
    · obtain ⟨e1, e2⟩ := step_join_neg ord s ms clk hl
      have h1 := joinMembers_inv ord hord ms s fs h hev
      have h2 := updateClock_inv ord hord _ _ clk h1.1
      rw [← applyAll_append] at h2
      rw [e1, e2]
      exact ⟨h2.1, h2.2.rejoin.trans h1.2.1, fun _ => h2.2.leaving.trans h1.2.2,
        fun hh => absurd hh hl, fun e => by cases e⟩
  | gone ns clk =>
    by_cases hl : s.leaving = true
    · have e : step ord s (.gone ns clk) = (s, []) := by rw [step_gone, if_pos hl]
      rw [e]
      exact ⟨h, rfl, fun _ => rfl, fun _ => ⟨hl, Or.inl rfl⟩, fun e => by cases e⟩
    · obtain ⟨e1, e2⟩ := step_gone_neg ord s ns clk hl
      have h1 := goneMembers_inv ord hord ns s fs h hev
      have h2 := updateClock_inv ord hord _ _ clk h1.1
      rw [← applyAll_append] at h2
      rw [e1, e2]
      exact ⟨h2.1, h2.2.rejoin.trans h1.2.1, fun _ => h2.2.leaving.trans h1.2.2,
        fun hh => absurd hh hl, fun e => by cases e⟩
  | memberOther clk =>
    rw [step_memberOther]
    by_cases hl : s.leaving = true
    · rw [if_pos hl]
      exact ⟨h, rfl, fun _ => rfl, fun _ => ⟨hl, Or.inl rfl⟩, fun e => by cases e⟩
    · rw [if_neg hl]
      have h2 := updateClock_inv ord hord s fs clk h
      exact ⟨h2.1, h2.2.rejoin, fun _ => h2.2.leaving, fun hh => absurd hh hl, fun e => by cases e⟩
  | user lt =>
    rw [step_user]
    by_cases hl : s.leaving = true
    · rw [if_pos hl]
      exact ⟨h, rfl, fun _ => rfl, fun _ => ⟨hl, Or.inl rfl⟩, fun e => by cases e⟩
    · rw [if_neg hl]
      by_cases hle : lt ≤ s.lastEventClock
      · rw [if_pos hle]
        exact ⟨h, rfl, fun _ => rfl, fun hh => absurd hh hl, fun e => by cases e⟩
      · rw [if_neg hle]
        have := update_append_inv ord hord s (setEventClock s lt) fs (.eventClock lt)
          s.alive s.lastClock lt s.lastQueryClock s.leaving h (setEventClock_proj s _)
          w1 w2 w3 hev w5 hev
          (fun r hr => by exact hr)
          (fun r hj hc => by have := hc hj; exact ⟨this.1, rfl, this.2.2⟩)
        exact ⟨this.1, this.2.1, fun _ => this.2.2.1, fun hh => absurd hh hl, fun e => by cases e⟩
  | query lt =>
    rw [step_query]
    by_cases hl : s.leaving = true
    · rw [if_pos hl]
      exact ⟨h, rfl, fun _ => rfl, fun _ => ⟨hl, Or.inl rfl⟩, fun e => by cases e⟩
    · rw [if_neg hl]
      by_cases hle : lt ≤ s.lastQueryClock
      · rw [if_pos hle]
        exact ⟨h, rfl, fun _ => rfl, fun hh => absurd hh hl, fun e => by cases e⟩
      · rw [if_neg hle]
        have := update_append_inv ord hord s (setQueryClock s lt) fs (.queryClock lt)
          s.alive s.lastClock s.lastEventClock lt s.leaving h (setQueryClock_proj s _)
          w1 w2 w3 w4 hev hev
          (fun r hr => by exact hr)
          (fun r hj hc => by have := hc hj; exact ⟨this.1, this.2.1, rfl⟩)
        exact ⟨this.1, this.2.1, fun _ => this.2.2.1, fun hh => absurd hh hl, fun e => by cases e⟩
  | clockTick clk =>
    rw [step_clockTick]
    have h2 := updateClock_inv ord hord s fs clk h
    exact ⟨h2.1, h2.2.rejoin, fun _ => h2.2.leaving,
      fun hh => ⟨h2.2.leaving.trans hh, Or.inl h2.2.alive⟩, fun e => by cases e⟩
  | leave =>
    have h1 := update_append_inv ord hord s (setLeave s) fs .leave
      (if s.rejoin then s.alive else []) s.lastClock s.lastEventClock s.lastQueryClock true h (setLeave_proj s)
      (by
        cases s.rejoin
        · simp [akeys]
        · simpa using w1)
      (by
        cases s.rejoin
        · simp
        · simpa using w2) w3 w4 w5 trivial
      (fun r hr => by
        cases hrj : s.rejoin
        · intro k; simp [applyLine]
        · simpa [applyLine] using hr)
      (fun r hj hc => by
        have hrj : s.rejoin = true := by
          rcases hj with hj | hj
          · cases hj
          · exact hj
        simp only [applyLine, hrj, ↓reduceIte]
        exact hc (Or.inr hrj))
    have := flush_inv' _ _ h1.1 [.sync .main] (fun g => rfl)
    rw [step_leave_fst, step_leave_snd, applyAll_append]
    have hlv : (clearBuf (appendLine ord (setLeave s) (printLine .leave)).1).leaving = true := by
      rw [clearBuf_leaving]; exact h1.2.2.1
    have hal : (clearBuf (appendLine ord (setLeave s) (printLine .leave)).1).alive = if s.rejoin then s.alive else [] := by
      rw [clearBuf_alive]; exact h1.2.2.2
    refine ⟨this, by rw [clearBuf_rejoin]; exact h1.2.1, fun hne => absurd rfl hne, fun _ => ⟨hlv, ?_⟩, fun _ => ⟨hlv, hal⟩⟩
    cases hrj : s.rejoin
    · right; rw [hal, hrj]; exact ⟨rfl, rfl⟩
    · left; rw [hal, hrj]; rfl
  | timePasses =>
    obtain ⟨e1, e2, e3, e4, e5⟩ := step_timePasses_fst_mem ord s
    obtain ⟨d, hd, hc⟩ := h
    refine ⟨⟨d, by rw [e1]; exact hd, ?_⟩, e3, fun _ => e4, fun hh => ⟨e4.trans hh, Or.inl (congrArg RecState.alive e2)⟩,
      fun e => by cases e⟩
    unfold Judged
    rw [e2, e3, e4, e5]
    exact hc
  | forceCompact =>
    rw [step_forceCompact]
    obtain ⟨d, hd, _, hwf, _⟩ := h
    have := compact_inv ord hord s fs d hd hwf
    exact ⟨this.1, this.2.2.1, fun _ => this.2.2.2,
      fun hh => ⟨this.2.2.2.trans hh, Or.inl (congrArg RecState.alive this.2.1)⟩, fun e => by cases e⟩

theorem shutdown_inv (ord : Order) (hord : PermOrder ord) (s : Snap) (fs : FS) (clk : Nat) (h : Inv s fs) :
    Inv (shutdown ord s clk).1 (fs.applyAll (shutdown ord s clk).2) ∧ (shutdown ord s clk).1.buf = [] ∧
      Keeps s (shutdown ord s clk).1 := by
  have h1 := updateClock_inv ord hord s fs clk h
  have := flush_inv' _ _ h1.1 [.sync .main, .close .main] (fun g => rfl)
  rw [shutdown_fst, shutdown_snd, applyAll_append]
  exact ⟨this, clearBuf_buf _,
    ⟨(clearBuf_rejoin _).trans h1.2.rejoin, (clearBuf_leaving _).trans h1.2.leaving, (clearBuf_alive _).trans h1.2.alive⟩⟩

theorem init_inv (rj : Bool) (mc : Nat) :
    Inv (Snap.init rj mc).1 (({} : FS).applyAll (Snap.init rj mc).2) := by
  refine ⟨[], rfl, rfl, ?_, ?_, ?_⟩
  · exact WFRec_mk _ [] 0 0 0 rfl (by simp [akeys]) (by simp) (by decide) (by decide) (by decide)
  · intro k; rfl
  · intro _; exact ⟨rfl, rfl, rfl⟩

end SerfProofs.Snapshot
