/-
Lemmas about the memberlist keyring model (C22): on rings without duplicates
`installKeys` keeps the order, the three operations preserve `RingOK`, and
`NewKeyring(keys, keys[0])` rebuilds a well-formed key list exactly.
-/
import SerfModel.Model.Keyring
namespace SerfProofs.Keyring
open SerfModel.Keyring

theorem filter_ne_self (l : List Key) (p : Key) (h : p ∉ l) :
    l.filter (fun k => !(k == p)) = l := by
  rw [List.filter_eq_self]
  intro a ha
  have : a ≠ p := fun e => h (e ▸ ha)
  simp [this]

/-- re-installing the current primary changes nothing -/
theorem installKeys_self (p : Key) (rest : List Key) (h : (p :: rest).Nodup) :
    installKeys (p :: rest) p = p :: rest := by
  simp only [List.nodup_cons] at h
  unfold installKeys
  simp [List.filter_cons, filter_ne_self rest p h.1]

theorem validKey_ne_nil {k : Key} (h : validKey k = true) : k ≠ [] := by
  intro e; subst e; simp [validKey] at h

theorem contains_eq_false_of_not_mem {l : List Key} {k : Key} (h : k ∉ l) : l.contains k = false := by
  simpa using h

/-- adding a new valid key appends it -/
theorem addKey_new (r : Ring) (k : Key) (hr : r ≠ []) (hnd : (r ++ [k]).Nodup) (hv : validKey k = true) :
    addKey r k = .ok (r ++ [k]) := by
  have hk : k ∉ r := by
    intro hmem
    have := List.nodup_append.mp hnd
    exact this.2.2 k hmem k (by simp) rfl
  unfold addKey
  simp only [hv, Bool.not_true, Bool.false_eq_true, ↓reduceIte, contains_eq_false_of_not_mem hk]
  cases r with
  | nil => exact absurd rfl hr
  | cons p rest =>
    simp only
    have := installKeys_self p (rest ++ [k]) (by simpa using hnd)
    simpa using this

theorem addKey_existing (r : Ring) (k : Key) (hv : validKey k = true) (hk : k ∈ r) : addKey r k = .ok r := by
  unfold addKey
  simp [hv, hk]

theorem addKey_invalid (r : Ring) (k : Key) (hv : validKey k = false) : addKey r k = .error .badlen := by
  unfold addKey; simp [hv]

theorem RingOK_append (r : Ring) (k : Key) (h : RingOK r) (hk : k ∉ r) (hv : validKey k = true) :
    RingOK (r ++ [k]) := by
  refine ⟨by simp, ?_, ?_⟩
  · rw [List.nodup_append]
    refine ⟨h.2.1, by simp, ?_⟩
    intro a ha b hb
    simp only [List.mem_singleton] at hb
    subst hb
    exact fun e => hk (e ▸ ha)
  · intro x hx
    rcases List.mem_append.mp hx with hx | hx
    · exact h.2.2 x hx
    · simp only [List.mem_singleton] at hx; subst hx; exact hv

theorem RingOK_installKeys_use (r : Ring) (k : Key) (h : RingOK r) (hk : k ∈ r) : RingOK (installKeys r k) := by
  unfold installKeys
  refine ⟨by simp, ?_, ?_⟩
  · rw [List.nodup_cons]
    refine ⟨by simp [List.mem_filter], h.2.1.sublist List.filter_sublist |> fun x => x⟩
  · intro x hx
    rcases List.mem_cons.mp hx with hx | hx
    · subst hx; exact h.2.2 _ hk
    · exact h.2.2 x (List.mem_filter.mp hx).1

theorem removeKey_ok (p : Key) (rest : List Key) (k : Key) (h : RingOK (p :: rest)) (hne : k ≠ p) :
    removeKey (p :: rest) k = .ok (p :: rest.erase k) := by
  unfold removeKey
  have hkp : (k == p) = false := by simp [hne]
  simp only [hkp, Bool.false_eq_true, ↓reduceIte]
  by_cases hk : k ∈ rest
  · have hc : (p :: rest).contains k = true := by simp [hk]
    have he : (p :: rest).erase k = p :: rest.erase k := by
      rw [List.erase_cons]
      have : (p == k) = false := by simp [Ne.symm hne]
      simp [this]
    simp only [hc, ↓reduceIte, he]
    have hnd : (p :: rest.erase k).Nodup := by
      have := h.2.1
      simp only [List.nodup_cons] at this ⊢
      exact ⟨fun hm => this.1 (List.mem_of_mem_erase hm), this.2.sublist List.erase_sublist⟩
    rw [installKeys_self p _ hnd]
  · have hc : (p :: rest).contains k = false := by simp [hk, hne]
    simp only [hc, Bool.false_eq_true, ↓reduceIte]
    rw [List.erase_of_not_mem hk]

theorem RingOK_remove (p : Key) (rest : List Key) (k : Key) (h : RingOK (p :: rest)) : RingOK (p :: rest.erase k) := by
  refine ⟨by simp, ?_, ?_⟩
  · have := h.2.1
    simp only [List.nodup_cons] at this ⊢
    exact ⟨fun hm => this.1 (List.mem_of_mem_erase hm), this.2.sublist List.erase_sublist⟩
  · intro x hx
    rcases List.mem_cons.mp hx with hx | hx
    · subst hx; exact h.2.2 _ (by simp)
    · exact h.2.2 x (List.mem_cons_of_mem _ (List.mem_of_mem_erase hx))

/-- the fold of `NewKeyring` over fresh valid keys appends them in order -/
theorem foldlM_addKey (l : List Key) (acc : Ring) (hacc : acc ≠ []) (hnd : (acc ++ l).Nodup)
    (hv : ∀ k ∈ l, validKey k = true) :
    l.foldlM addKey? acc = some (acc ++ l) := by
  induction l generalizing acc with
  | nil => simp
  | cons k rest ih =>
    have hnd1 : (acc ++ [k]).Nodup := by
      have : (acc ++ [k] ++ rest).Nodup := by simpa using hnd
      exact (List.nodup_append.mp this).1
    have hstep : addKey? acc k = some (acc ++ [k]) := by
      unfold addKey?
      rw [addKey_new acc k hacc hnd1 (hv k (by simp))]
      rfl
    rw [List.foldlM_cons, hstep]
    simp only [Option.bind_eq_bind, Option.bind_some]
    have := ih (acc ++ [k]) (by simp) (by simpa using hnd) (fun x hx => hv x (List.mem_cons_of_mem _ hx))
    simpa using this

end SerfProofs.Keyring
