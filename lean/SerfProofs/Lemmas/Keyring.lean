/-
Lemmas about the memberlist keyring model (C22): on rings without duplicates
`installKeys` keeps the order, the three operations preserve `RingOK`, and
`NewKeyring(keys, keys[0])` rebuilds a well-formed key list exactly.
-/
import SerfModel.Model.Keyring
namespace SerfProofs.Keyring
open SerfModel.Keyring

theorem filter_ne_self (l : List Key) (p : Key) (h : p ∉ l) :
    l.filter (fun k => !(k == p)) = l := by
  rw [List.filter_eq_self]
  intro a ha
  have : a ≠ p := fun e => h (e ▸ ha)
  simp [this]

/-- re-installing the current primary changes nothing -/
theorem installKeys_self (p : Key) (rest : List Key) (h : (p :: rest).Nodup) :
    installKeys (p :: rest) p = p :: rest := by
  simp only [List.nodup_cons] at h
  unfold installKeys
  simp [List.filter_cons, filter_ne_self rest p h.1]

theorem validKey_ne_nil {k : Key} (h : validKey k = true) : k ≠ [] := by
  intro e; subst e; exact absurd h (by decide)

theorem contains_eq_false_of_not_mem {l : List Key} {k : Key} (h : k ∉ l) : l.contains k = false := by
  simpa using h

/-- adding a new valid key appends it -/
theorem addKey_new (r : Ring) (k : Key) (hr : r ≠ []) (hnd : (r ++ [k]).Nodup) (hv : validKey k = true) :
    addKey r k = .ok (r ++ [k]) := by
  have hk : k ∉ r := by
    intro hmem
    have := List.nodup_append.mp hnd
    exact this.2.2 k hmem k (by simp) rfl
  unfold addKey
  simp only [hv, Bool.not_true, Bool.false_eq_true, ↓reduceIte, contains_eq_false_of_not_mem hk]
  cases r with
  | nil => exact absurd rfl hr
  | cons p rest =>
    simp only
    have := installKeys_self p (rest ++ [k]) (by simpa using hnd)
    simpa using this

theorem addKey_existing (r : Ring) (k : Key) (hv : validKey k = true) (hk : k ∈ r) : addKey r k = .ok r := by
  unfold addKey
  simp [hv, hk]

theorem addKey_invalid (r : Ring) (k : Key) (hv : validKey k = false) : addKey r k = .error .badlen := by
  unfold addKey; simp [hv]

theorem RingOK_append (r : Ring) (k : Key) (h : RingOK r) (hk : k ∉ r) (hv : validKey k = true) :
    RingOK (r ++ [k]) := by
  refine ⟨by simp, ?_, ?_⟩
  · rw [List.nodup_append]
    refine ⟨h.2.1, by simp, ?_⟩
    intro a ha b hb
    simp only [List.mem_singleton] at hb
    subst hb
    exact fun e => hk (e ▸ ha)
  · intro x hx
    rcases List.mem_append.mp hx with hx | hx
    · exact h.2.2 x hx
    · simp only [List.mem_singleton] at hx; subst hx; exact hv

theorem RingOK_installKeys_use (r : Ring) (k : Key) (h : RingOK r) (hk : k ∈ r) : RingOK (installKeys r k) := by
  unfold installKeys
  refine ⟨by simp, ?_, ?_⟩
  · rw [List.nodup_cons]
    refine ⟨by simp [List.mem_filter], h.2.1.sublist List.filter_sublist |> fun x => x⟩
  · intro x hx
    rcases List.mem_cons.mp hx with hx | hx
    · subst hx; exact h.2.2 _ hk
    · exact h.2.2 x (List.mem_filter.mp hx).1

theorem removeKey_ok (p : Key) (rest : List Key) (k : Key) (h : RingOK (p :: rest)) (hne : k ≠ p) :
    removeKey (p :: rest) k = .ok (p :: rest.erase k) := by
  unfold removeKey
  have hkp : (k == p) = false := by simp [hne]
  simp only [hkp, Bool.false_eq_true, ↓reduceIte]
  by_cases hk : k ∈ rest
  · have hc : (p :: rest).contains k = true := by simp [hk]
    have he : (p :: rest).erase k = p :: rest.erase k := by
      rw [List.erase_cons]
      have : (p == k) = false := by simp [Ne.symm hne]
      simp [this]
    simp only [hc, ↓reduceIte, he]
    have hnd : (p :: rest.erase k).Nodup := by
      have := h.2.1
      simp only [List.nodup_cons] at this ⊢
      exact ⟨fun hm => this.1 (List.mem_of_mem_erase hm), this.2.sublist List.erase_sublist⟩
    rw [installKeys_self p _ hnd]
  · have hc : (p :: rest).contains k = false := by simp [hk, hne]
    simp only [hc, Bool.false_eq_true, ↓reduceIte]
    rw [List.erase_of_not_mem hk]

theorem RingOK_remove (p : Key) (rest : List Key) (k : Key) (h : RingOK (p :: rest)) : RingOK (p :: rest.erase k) := by
  refine ⟨by simp, ?_, ?_⟩
  · have := h.2.1
    simp only [List.nodup_cons] at this ⊢
    exact ⟨fun hm => this.1 (List.mem_of_mem_erase hm), this.2.sublist List.erase_sublist⟩
  · intro x hx
    rcases List.mem_cons.mp hx with hx | hx
    · subst hx; exact h.2.2 _ (by simp)
    · exact h.2.2 x (List.mem_cons_of_mem _ (List.mem_of_mem_erase hx))

/-- the fold of `NewKeyring` over fresh valid keys appends them in order -/
theorem foldlM_addKey (l : List Key) (acc : Ring) (hacc : acc ≠ []) (hnd : (acc ++ l).Nodup)
    (hv : ∀ k ∈ l, validKey k = true) :
    l.foldlM addKey? acc = some (acc ++ l) := by
  induction l generalizing acc with
  | nil => simp
  | cons k rest ih =>
    have hnd1 : (acc ++ [k]).Nodup := by
      have : (acc ++ [k] ++ rest).Nodup := by simpa using hnd
      exact (List.nodup_append.mp this).1
    have hstep : addKey? acc k = some (acc ++ [k]) := by
      unfold addKey?
      rw [addKey_new acc k hacc hnd1 (hv k (by simp))]
      rfl
    rw [List.foldlM_cons, hstep]
    simp only [Option.bind_eq_bind, Option.bind_some]
    have := ih (acc ++ [k]) (by simp) (by simpa using hnd) (fun x hx => hv x (List.mem_cons_of_mem _ hx))
    simpa using this

/-- whatever `AddKey` returns is a well-formed ring (from the empty ring or a well-formed one) -/
theorem addKey_ok_RingOK (acc : Ring) (k : Key) (r : Ring) (hacc : acc = [] ∨ RingOK acc)
    (h : addKey acc k = .ok r) : RingOK r := by
  by_cases hv : validKey k = true
  · rcases hacc with hnil | hok
    · subst hnil
      have : addKey [] k = .ok [k] := by unfold addKey; simp [hv, installKeys]
      rw [this] at h
      injection h with h
      subst h
      exact ⟨by simp, by simp, fun x hx => by simp at hx; subst hx; exact hv⟩
    · by_cases hk : k ∈ acc
      · rw [addKey_existing acc k hv hk] at h
        injection h with h
        subst h
        exact hok
      · have hok' := RingOK_append acc k hok hk hv
        rw [addKey_new acc k hok.1 hok'.2.1 hv] at h
        injection h with h
        subst h
        exact hok'
  · have hv' : validKey k = false := by simpa using hv
    rw [addKey_invalid acc k hv'] at h
    cases h

theorem addKey?_some_RingOK (acc : Ring) (k : Key) (r : Ring) (hacc : acc = [] ∨ RingOK acc)
    (h : addKey? acc k = some r) : RingOK r := by
  unfold addKey? at h
  cases hr : addKey acc k with
  | error e => rw [hr] at h; simp [Except.toOption] at h
  | ok r' =>
    rw [hr] at h
    simp only [Except.toOption, Option.some.injEq] at h
    subst h
    exact addKey_ok_RingOK acc k r' hacc hr

theorem foldlM_addKey?_RingOK (l : List Key) (acc r : Ring) (hacc : RingOK acc)
    (h : l.foldlM addKey? acc = some r) : RingOK r := by
  induction l generalizing acc with
  | nil => simp at h; subst h; exact hacc
  | cons k rest ih =>
    rw [List.foldlM_cons] at h
    cases ha : addKey? acc k with
    | none => rw [ha] at h; simp at h
    | some a =>
      rw [ha] at h
      simp only [Option.bind_eq_bind, Option.bind_some] at h
      exact ih a (addKey?_some_RingOK acc k a (Or.inr hacc) ha) h

/-- **Whatever the agent's loader accepts is a well-formed ring**: non-empty, without
duplicates, every key 16, 24 or 32 bytes long — for every file content. -/
theorem load_RingOK (f : List Key) (r : Ring) (h : load f = some r) : RingOK r := by
  cases f with
  | nil => simp [load] at h
  | cons p rest =>
    unfold load newKeyring at h
    simp only [List.isEmpty_cons, Bool.false_and, Bool.false_eq_true, ↓reduceIte] at h
    split at h
    · cases h
    · rw [List.foldlM_cons] at h
      cases ha : addKey? [] p with
      | none => rw [ha] at h; simp at h
      | some a =>
        rw [ha] at h
        simp only [Option.bind_eq_bind, Option.bind_some] at h
        exact foldlM_addKey?_RingOK _ a r (addKey?_some_RingOK [] p a (Or.inl rfl) ha) h

theorem mem_installKeys (keys : List Key) (p x : Key) : x ∈ installKeys keys p ↔ x = p ∨ x ∈ keys := by
  unfold installKeys
  simp only [List.mem_cons, List.mem_filter, Bool.not_eq_eq_eq_not, Bool.not_true, beq_eq_false_iff_ne, ne_eq]
  by_cases h : x = p
  · simp [h]
  · simp [h]

/-- `AddKey` never loses a key, and the added key is on the ring afterwards -/
theorem addKey_ok_mem (acc : Ring) (k : Key) (r : Ring) (h : addKey acc k = .ok r) :
    (∀ x ∈ acc, x ∈ r) ∧ k ∈ r := by
  unfold addKey at h
  by_cases hv : validKey k = true
  · by_cases hc : acc.contains k = true
    · simp only [hv, Bool.not_true, Bool.false_eq_true, ↓reduceIte, hc, Except.ok.injEq] at h
      subst h
      exact ⟨fun x hx => hx, by simpa using hc⟩
    · simp only [hv, Bool.not_true, Bool.false_eq_true, ↓reduceIte, hc, Except.ok.injEq] at h
      subst h
      constructor
      · intro x hx
        rw [mem_installKeys]; right; exact List.mem_append_left _ hx
      · rw [mem_installKeys]; right; simp
  · simp [hv] at h

end SerfProofs.Keyring
