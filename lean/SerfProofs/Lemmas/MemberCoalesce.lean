import SerfModel.Model.MemberCoalesce
import SerfProofs.Lemmas.Assoc
namespace SerfProofs.MemberCoalesce
open SerfModel SerfModel.MemberCoalesce

/-- The latest event received for member `n` in a list of events. -/
def lastFor (q : List MEv) (n : String) : Option MEv := (q.filter (·.name == n)).getLast?

theorem lastFor_nil (n : String) : lastFor [] n = none := rfl

theorem lastFor_append (a b : List MEv) (n : String) :
    lastFor (a ++ b) n = (lastFor b n <|> lastFor a n) := by
  unfold lastFor
  rw [List.filter_append, List.getLast?_append]
  cases (List.filter (fun x => x.name == n) b).getLast? <;> simp

theorem lastFor_concat (q : List MEv) (e : MEv) (n : String) :
    lastFor (q ++ [e]) n = if e.name == n then some e else lastFor q n := by
  rw [lastFor_append]
  unfold lastFor
  by_cases h : e.name == n <;> simp [h]

theorem lastFor_name {q : List MEv} {n : String} {e : MEv} (h : lastFor q n = some e) : e.name = n := by
  unfold lastFor at h
  have := List.mem_of_getLast? h
  simp at this
  exact this.2

theorem lastFor_mem {q : List MEv} {n : String} {e : MEv} (h : lastFor q n = some e) : e ∈ q := by
  unfold lastFor at h
  have := List.mem_of_getLast? h
  exact (List.mem_filter.mp this).1

theorem lastFor_none_iff (q : List MEv) (n : String) : lastFor q n = none ↔ n ∉ q.map (·.name) := by
  unfold lastFor
  rw [List.getLast?_eq_none_iff, List.filter_eq_nil_iff]
  simp

/-- Invariant of `latestEvents`: keyed by the event's own name, no duplicate keys. -/
def LatestOK (l : List (String × MEv)) : Prop := (akeys l).Nodup ∧ ∀ p ∈ l, p.1 = p.2.name

theorem LatestOK.nil : LatestOK [] := ⟨by simp [akeys], by simp⟩

theorem LatestOK.insert {l : List (String × MEv)} (h : LatestOK l) (e : MEv) : LatestOK (ainsert l e.name e) := by
  refine ⟨akeys_ainsert_nodup l e.name e h.1, ?_⟩
  intro p hp
  unfold ainsert at hp
  split at hp
  · simp only [List.mem_map] at hp
    obtain ⟨q, hq, rfl⟩ := hp
    by_cases hk : q.1 == e.name
    · simp [hk]
    · simp [hk]; exact h.2 q hq
  · simp only [List.mem_append, List.mem_singleton] at hp
    rcases hp with hp | rfl
    · exact h.2 p hp
    · rfl

theorem fold_coalesce_latest (q : List MEv) : ∀ (c : MC), LatestOK c.latest →
    LatestOK (q.foldl coalesce c).latest ∧ (q.foldl coalesce c).lastEvents = c.lastEvents ∧
    ∀ n, alookup (q.foldl coalesce c).latest n = (lastFor q n <|> alookup c.latest n) := by
  induction q with
  | nil => intro c h; exact ⟨h, rfl, fun n => by simp [lastFor_nil]⟩
  | cons e q ih =>
    intro c h
    have hc : LatestOK (coalesce c e).latest := h.insert e
    obtain ⟨h1, h2, h3⟩ := ih (coalesce c e) hc
    simp only [List.foldl_cons]
    refine ⟨h1, h2, ?_⟩
    intro n
    rw [h3]
    have hcons : lastFor (e :: q) n = (lastFor q n <|> lastFor [e] n) := by
      have := lastFor_append [e] q n
      simpa using this
    rw [hcons]
    simp only [coalesce, alookup_ainsert]
    have h1e : lastFor [e] n = if e.name == n then some e else none := by
      unfold lastFor; by_cases hh : e.name == n <;> simp [hh]
    rw [h1e]
    by_cases hn : e.name == n
    · have : n == e.name := by rw [beq_iff_eq] at hn ⊢; exact hn.symm
      simp only [hn, this, ↓reduceIte]
      cases lastFor q n <;> simp
    · have : ¬ (n == e.name) := by rw [beq_iff_eq] at hn ⊢; exact fun e' => hn e'.symm
      simp only [hn, this, Bool.false_eq_true, ↓reduceIte]
      cases lastFor q n <;> simp

theorem suppressed_congr (l1 l2 : List (String × Kind)) (e : MEv) (h : alookup l1 e.name = alookup l2 e.name) :
    suppressed l1 e = suppressed l2 e := by
  simp [suppressed, h]

theorem flushLoop_out (l : List (String × MEv)) : ∀ (last : List (String × Kind)) (out : List MEv), LatestOK l →
    (flushLoop l last out).2 = out.reverse ++ (l.map (·.2)).filter (fun e => !suppressed last e) := by
  induction l with
  | nil => intro last out _; simp [flushLoop]
  | cons p rest ih =>
    intro last out h
    obtain ⟨n, e⟩ := p
    have hrest : LatestOK rest := ⟨(List.nodup_cons.mp (by simpa [akeys] using h.1)).2, fun p hp => h.2 p (List.mem_cons_of_mem _ hp)⟩
    have hn : n = e.name := h.2 (n, e) (List.mem_cons_self)
    have hnotin : n ∉ akeys rest := (List.nodup_cons.mp (by simpa [akeys] using h.1)).1
    simp only [flushLoop]
    by_cases hs : suppressed last e
    · simp [hs, ih last out hrest]
    · simp only [hs, Bool.false_eq_true, ↓reduceIte, List.map_cons, List.filter_cons, Bool.not_false]
      rw [ih _ _ hrest]
      simp only [List.reverse_cons, List.append_assoc, List.singleton_append]
      congr 2
      apply List.filter_congr
      intro r hr
      congr 1
      apply suppressed_congr
      apply alookup_ainsert_ne
      intro heq
      apply hnotin
      obtain ⟨p, hp, rfl⟩ := List.mem_map.mp hr
      have := hrest.2 p hp
      simp only [akeys, List.mem_map]
      exact ⟨p, hp, by rw [hn, ← heq, this]⟩

theorem flushLoop_last (l : List (String × MEv)) : ∀ (last : List (String × Kind)) (out : List MEv), LatestOK l →
    ∀ n, alookup (flushLoop l last out).1 n =
      match alookup l n with
      | some e => if suppressed last e then alookup last n else some e.kind
      | none => alookup last n := by
  induction l with
  | nil => intro last out _ n; simp [flushLoop]
  | cons p rest ih =>
    intro last out h n
    obtain ⟨k, e⟩ := p
    have hrest : LatestOK rest := ⟨(List.nodup_cons.mp (by simpa [akeys] using h.1)).2, fun p hp => h.2 p (List.mem_cons_of_mem _ hp)⟩
    have hk : k = e.name := h.2 (k, e) (List.mem_cons_self)
    have hnotin : k ∉ akeys rest := (List.nodup_cons.mp (by simpa [akeys] using h.1)).1
    simp only [flushLoop, alookup_cons]
    by_cases hkn : k == n
    · have hkn' : k = n := eq_of_beq hkn
      have hnone : alookup rest n = none := by rw [alookup_eq_none_iff]; rw [← hkn']; exact hnotin
      by_cases hs : suppressed last e
      · simp only [hs, ↓reduceIte, hkn]
        rw [ih last out hrest n, hnone]
      · simp only [hs, Bool.false_eq_true, ↓reduceIte, hkn]
        rw [ih _ _ hrest n, hnone]
        simp only
        rw [← hk, hkn', alookup_ainsert_self]
    · have hkn' : k ≠ n := fun e' => hkn (by simp [e'])
      simp only [hkn, Bool.false_eq_true, ↓reduceIte]
      by_cases hs : suppressed last e
      · simp only [hs, ↓reduceIte]
        exact ih last out hrest n
      · simp only [hs, Bool.false_eq_true, ↓reduceIte]
        rw [ih _ _ hrest n]
        have hne : n ≠ e.name := by rw [← hk]; exact fun e' => hkn' e'.symm
        cases hl : alookup rest n with
        | none => simp only; exact alookup_ainsert_ne _ _ _ _ hne
        | some r =>
          simp only
          have hrn : r.name = n := by
            have hm := mem_of_alookup hl
            have := hrest.2 _ hm
            simpa using this.symm
          have hsup : suppressed (ainsert last e.name e.kind) r = suppressed last r := by
            apply suppressed_congr; rw [hrn]; exact alookup_ainsert_ne _ _ _ _ hne
          rw [hsup, alookup_ainsert_ne _ _ _ _ hne]

end SerfProofs.MemberCoalesce
