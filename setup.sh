#!/bin/sh
# Builds the framework from files on disk only (offline): Lean project (models, proofs,
# driver), and warms the Go build cache for the extractor and the harness.
set -e
cd "$(dirname "$0")"
export GOFLAGS=-mod=mod GOPROXY=off
(cd lean && lake build)
(cd extract && go build -o /dev/null .)
(cd harness && go build -tags verif -o /dev/null .)
(cd overlaygen && go build -o /dev/null .)
echo "setup ok"
