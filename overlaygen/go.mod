module verifoverlaygen

go 1.23
