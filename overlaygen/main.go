// verifoverlaygen writes a `go build -overlay` description that routes the file
// operations of serf/snapshot.go through a recording / faulting shim, without
// touching the tree:
//
//	overlaygen -repo /repo -out DIR   →   DIR/overlay.json, DIR/snapshot.go, DIR/zz_verif_fs.go
//
// The rewrite is purely mechanical (four textual substitutions, each of which must
// occur): os.OpenFile( → verifOpenFile(, os.Remove( → verifRemove(,
// os.Rename( → verifRename(, *os.File → *verifFile.  The shim (zz_verif_fs.go,
// added to package serf only in this overlay build) performs every operation for
// real and calls a hook before it, so the harness can log the operation sequence,
// copy the directory at every crash point and make one operation fail.
package main

import (
	"encoding/json"
	"flag"
	"fmt"
	"os"
	"path/filepath"
	"strings"
)

const shim = `//go:build verif

package serf

import (
	"errors"
	"io/fs"
	"os"
)

// VerifFSOp describes one file-system operation the snapshotter is about to perform.
type VerifFSOp struct {
	Op   string // open write sync close remove rename stat seek truncate
	Path string
	Arg  string // open: flags; rename: new path
	N    int    // write: number of bytes
	Data []byte // write: the bytes
}

// VerifFSHook is called before every operation; returning a non-nil error makes the
// operation fail with it WITHOUT being performed.
type VerifFSHook func(op VerifFSOp) error

var verifFSHook VerifFSHook

// VerifSetFSHook installs (or clears) the hook.
func VerifSetFSHook(h VerifFSHook) { verifFSHook = h }

// VerifErrInjected is the error returned for injected faults.
var VerifErrInjected = errors.New("verif: injected I/O fault")

func verifCall(op VerifFSOp) error {
	if verifFSHook != nil {
		return verifFSHook(op)
	}
	return nil
}

type verifFile struct {
	f    *os.File
	path string
}

func verifOpenFile(name string, flag int, perm os.FileMode) (*verifFile, error) {
	arg := "append"
	if flag&os.O_TRUNC != 0 {
		arg = "trunc"
	}
	if err := verifCall(VerifFSOp{Op: "open", Path: name, Arg: arg}); err != nil {
		return nil, err
	}
	f, err := os.OpenFile(name, flag, perm)
	if err != nil {
		return nil, err
	}
	return &verifFile{f: f, path: name}, nil
}

func verifRemove(name string) error {
	if err := verifCall(VerifFSOp{Op: "remove", Path: name}); err != nil {
		return err
	}
	return os.Remove(name)
}

func verifRename(oldpath, newpath string) error {
	if err := verifCall(VerifFSOp{Op: "rename", Path: oldpath, Arg: newpath}); err != nil {
		return err
	}
	return os.Rename(oldpath, newpath)
}

func (v *verifFile) Write(p []byte) (int, error) {
	if err := verifCall(VerifFSOp{Op: "write", Path: v.path, N: len(p), Data: append([]byte(nil), p...)}); err != nil {
		return 0, err
	}
	return v.f.Write(p)
}

func (v *verifFile) Read(p []byte) (int, error) { return v.f.Read(p) }

func (v *verifFile) Stat() (fs.FileInfo, error) {
	if err := verifCall(VerifFSOp{Op: "stat", Path: v.path}); err != nil {
		return nil, err
	}
	return v.f.Stat()
}

func (v *verifFile) Seek(offset int64, whence int) (int64, error) {
	if err := verifCall(VerifFSOp{Op: "seek", Path: v.path}); err != nil {
		return 0, err
	}
	return v.f.Seek(offset, whence)
}

func (v *verifFile) Truncate(size int64) error {
	if err := verifCall(VerifFSOp{Op: "truncate", Path: v.path, N: int(size)}); err != nil {
		return err
	}
	return v.f.Truncate(size)
}

func (v *verifFile) Sync() error {
	if err := verifCall(VerifFSOp{Op: "sync", Path: v.path}); err != nil {
		return err
	}
	return v.f.Sync()
}

// Close on a nil *verifFile mirrors (*os.File)(nil).Close(): an error, not a panic.
func (v *verifFile) Close() error {
	if v == nil {
		return os.ErrInvalid
	}
	if err := verifCall(VerifFSOp{Op: "close", Path: v.path}); err != nil {
		_ = v.f.Close() // a failed close still releases the descriptor
		return err
	}
	return v.f.Close()
}
`

func main() {
	repo := flag.String("repo", "/repo", "repository root")
	out := flag.String("out", "", "output directory")
	flag.Parse()
	if *out == "" {
		fmt.Fprintln(os.Stderr, "overlaygen: -out required")
		os.Exit(2)
	}
	if err := os.MkdirAll(*out, 0o755); err != nil {
		fmt.Fprintln(os.Stderr, err)
		os.Exit(2)
	}
	srcPath := filepath.Join(*repo, "serf", "snapshot.go")
	b, err := os.ReadFile(srcPath)
	if err != nil {
		fmt.Fprintln(os.Stderr, err)
		os.Exit(1)
	}
	src := string(b)
	for _, r := range [][2]string{
		{"os.OpenFile(", "verifOpenFile("},
		{"os.Remove(", "verifRemove("},
		{"os.Rename(", "verifRename("},
		{"*os.File", "*verifFile"},
	} {
		if !strings.Contains(src, r[0]) {
			fmt.Fprintf(os.Stderr, "overlaygen: %s no longer contains %q: the file-operation shape changed\n", srcPath, r[0])
			os.Exit(1)
		}
		src = strings.ReplaceAll(src, r[0], r[1])
	}
	// anything else from package os that touches files would bypass the shim
	for _, bad := range []string{"os.Create(", "os.WriteFile(", "os.ReadFile(", "os.Open(", "os.Truncate(", "ioutil."} {
		if strings.Contains(src, bad) {
			fmt.Fprintf(os.Stderr, "overlaygen: %s uses %s which the shim does not cover\n", srcPath, bad)
			os.Exit(1)
		}
	}
	rew := filepath.Join(*out, "snapshot.go")
	shimPath := filepath.Join(*out, "zz_verif_fs.go")
	if err := os.WriteFile(rew, []byte(src), 0o644); err != nil {
		fmt.Fprintln(os.Stderr, err)
		os.Exit(1)
	}
	if err := os.WriteFile(shimPath, []byte(shim), 0o644); err != nil {
		fmt.Fprintln(os.Stderr, err)
		os.Exit(1)
	}
	ov := map[string]map[string]string{"Replace": {
		srcPath: rew,
		filepath.Join(*repo, "serf", "zz_verif_fs.go"): shimPath,
	}}
	j, _ := json.MarshalIndent(ov, "", " ")
	if err := os.WriteFile(filepath.Join(*out, "overlay.json"), j, 0o644); err != nil {
		fmt.Fprintln(os.Stderr, err)
		os.Exit(1)
	}
}
