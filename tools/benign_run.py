#!/usr/bin/env python3
"""tools/benign_run.py [ids…]: apply each behaviour-preserving refactoring under /verif/benign/<id>/patch.diff to a scratch
worktree of /repo, run the checks of every property anchored in a touched file, undo, and record in
benign/<id>/result.json whether a check stayed quiet, reported a broken obligation without a failing input
(`no-failing-input-found`, expected for pinned statement text) or produced a concrete replay (a false alarm: must be fixed)."""
import json, os, subprocess, sys, time
V = os.path.dirname(os.path.dirname(os.path.abspath(__file__)))
def sh(cmd, cwd=None, timeout=3600, env=None):
    p = subprocess.run(cmd, cwd=cwd, stdout=subprocess.PIPE, stderr=subprocess.STDOUT, text=True, timeout=timeout, env=env)
    return p.returncode, p.stdout
props = [json.loads(l) for l in open(f"{V}/properties.jsonl")]
def props_for(files):
    out = []
    for p in props:
        if any(f in p["anchors"]["files"] for f in files):
            out.append(p["id"])
    return out
scratch = "/tmp/verif-benign-repo"
sh(["git", "worktree", "remove", "--force", scratch], cwd="/repo")
assert sh(["git", "worktree", "add", "-q", "--detach", scratch, "HEAD"], cwd="/repo")[0] == 0
env = dict(os.environ, VERIF_REPO=scratch)
ids = sys.argv[1:] or sorted(os.listdir(f"{V}/benign"))
try:
    for rid in ids:
        d = f"{V}/benign/{rid}"
        meta = json.load(open(f"{d}/meta.json"))
        ps = props_for(meta["files"])
        rc, out = sh(["git", "apply", "--whitespace=nowarn", f"{d}/patch.diff"], cwd=scratch)
        if rc != 0:
            print(rid, "patch does not apply", out[:200]); continue
        res = {}
        try:
            for p in ps:
                evp = f"{V}/evidence/{p}.json"
                keep = open(evp, "rb").read() if os.path.exists(evp) else None
                t0 = time.time()
                rc, out = sh([f"{V}/check", p], cwd=V, env=env)
                if keep is not None:
                    open(evp, "wb").write(keep)
                viol = [l for l in out.split("\n") if l.startswith("VIOLATION")]
                kind = "quiet" if rc == 0 and not viol else ("obligation-only" if viol and all("no-failing-input-found" in l for l in viol) else "CONCRETE")
                detail = ""
                for l in viol:
                    try:
                        j = json.load(open(l.split("replay=")[1].split()[0]))
                        detail = str(j.get("no_longer_checks") or j.get("detail") or "")[:400]
                    except Exception:
                        pass
                res[p] = {"exit": rc, "kind": kind, "violations": viol, "detail": detail, "wall_s": round(time.time() - t0, 1)}
                print(f"{rid} {meta['kind']:8} {p}: {kind}", flush=True)
        finally:
            sh(["git", "checkout", "--", "."], cwd=scratch); sh(["git", "clean", "-fdq"], cwd=scratch)
        json.dump({"id": rid, "meta": meta, "results": res}, open(f"{d}/result.json", "w"), indent=1)
finally:
    sh(["git", "worktree", "remove", "--force", scratch], cwd="/repo")
