#!/usr/bin/env python3
"""Regenerates the tables of DESIGN.md section 12.6 / 12.7 (between the AUTOGEN markers) from props.d,
evidence/, known_findings.json and seeded/*/result.json."""
import glob, json, os, re
V = "/verif"
props = [json.loads(l) for l in open(f"{V}/properties.jsonl")]
kf = json.load(open(f"{V}/known_findings.json"))
rows = ["| id | title | obligations (theorems + Gen ties) | regenerated Gen files | quick correspondence (cases / lines / non-trivial) | open findings |", "|---|---|---|---|---|---|"]
for p in props:
    pid = p["id"]
    cf = f"{V}/props.d/{pid}.json"
    if not os.path.exists(cf):
        rows.append(f"| {pid} | {p['title']} | not claimed yet | | | |"); continue
    c = json.load(open(cf))
    ev = {}
    try: ev = json.load(open(f"{V}/evidence/{pid}.json"))["coverage"]
    except Exception: pass
    fnd = ", ".join(f"`{f['key']}`" for f in kf["findings"] if f["property"] == pid)
    rows.append(f"| {pid} | {p['title']} | {ev.get('discharged','?')}/{ev.get('obligations','?')} | {', '.join(c.get('gen', [])) or '—'} | "
                f"{ev.get('traces_validated_against_impl','?')} / {ev.get('trace_lines_compared','?')} / {ev.get('distinct_nontrivial','?')} | {fnd or '—'} |")
t1 = "\n".join(rows)
rows = ["| seeded change | property | what it does | needs | check result | how caught |", "|---|---|---|---|---|---|"]
for d in sorted(glob.glob(f"{V}/seeded/*/")):
    sid = os.path.basename(d.rstrip("/"))
    try:
        m = json.load(open(d + "meta.json")); r = json.load(open(d + "result.json"))
    except Exception:
        continue
    for pid, res in r["results"].items():
        keys = ", ".join(sorted({str(x.get("key")) for x in res.get("replays", []) if x.get("key")})) or ("obligation only" if res["caught"] else "—")
        verdict = "caught, concrete replay" if res["caught"] and res["concrete_input"] else ("caught (no-failing-input-found)" if res["caught"] else "MISSED")
        rows.append(f"| {sid} | {pid} | {str(m.get('summary',''))[:160].replace('|','/')} | {str(m.get('needs',''))[:120].replace('|','/')} | {verdict} | {keys} |")
t2 = "\n".join(rows)
s = open(f"{V}/DESIGN.md").read()
def put(s, name, body):
    a, b = f"<!-- AUTOGEN:{name}:BEGIN -->", f"<!-- AUTOGEN:{name}:END -->"
    if a not in s:
        return s
    return s[:s.index(a) + len(a)] + "\n" + body + "\n" + s[s.index(b):]
t3 = "\n".join("* " + x[len("fixed: "):] for x in kf.get("fixed", []))
t4 = "\n".join(f"* **{f['property']} `{f['key']}`** — {f['what']}" + (f" (Lean: `{f['lean']}`)" if f.get("lean") else "") for f in kf["findings"])
rows = ["| id | kind | change | properties checked | quiet | obligation-only (no failing input) | concrete replay |", "|---|---|---|---|---|---|---|"]
nq = no = nc = 0
for d in sorted(glob.glob(f"{V}/benign/*/")):
    try:
        r = json.load(open(d + "result.json"))
    except Exception:
        continue
    m = r["meta"]
    q = [p for p, v in r["results"].items() if v["kind"] == "quiet"]
    o = [p for p, v in r["results"].items() if v["kind"] == "obligation-only"]
    c = [p for p, v in r["results"].items() if v["kind"] == "CONCRETE"]
    nq += len(q); no += len(o); nc += len(c)
    rows.append(f"| {r['id']} | {m['kind']} | `{', '.join(m['files'])}`: {m['summary'][:120].replace('|', '/')} | {len(r['results'])} | {len(q)} | {', '.join(o) or '–'} | {', '.join(c) or '–'} |")
rows.append(f"| **total** | | | {nq + no + nc} | {nq} | {no} | {nc} |")
t5 = "\n".join(rows)
s = put(s, "PROPS", t1); s = put(s, "SEEDED", t2); s = put(s, "FIXED", t3); s = put(s, "OPEN", t4); s = put(s, "BENIGN", t5)
open(f"{V}/DESIGN.md", "w").write(s)
print("tables regenerated")
