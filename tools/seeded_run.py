#!/usr/bin/env python3
"""tools/seeded_run.py [id …] [--tier quick|thorough]

Runs the registered checks against the seeded breaking changes kept under /verif/seeded/<id>/
(patch.diff, demo, meta.json): applies the patch to /repo, runs `./check <property>` for every
property named in meta.json ("property" or "properties"), undoes the patch straight afterwards
(git checkout -- . ; untracked files created by the patch are removed), and records the outcome in
seeded/<id>/result.json.  Nothing is ever committed to /repo."""
import json, os, subprocess, sys, time
V = os.path.dirname(os.path.dirname(os.path.abspath(__file__))); R = "/repo"

def sh(cmd, cwd=None, timeout=None):
    p = subprocess.run(cmd, cwd=cwd, stdout=subprocess.PIPE, stderr=subprocess.STDOUT, text=True, timeout=timeout)
    return p.returncode, p.stdout

def clean():
    return sh(["git", "status", "--porcelain"], cwd=R)[1].strip() == ""

def main():
    global R
    scratch = None
    if "--scratch" in sys.argv:
        # run against a scratch worktree of /repo's HEAD instead of /repo itself (e.g. while a background sweep uses /repo)
        import tempfile
        scratch = tempfile.mkdtemp(prefix="seedrun-", dir="/tmp"); os.rmdir(scratch)
        assert sh(["git", "worktree", "add", "-q", "--detach", scratch, "HEAD"], cwd="/repo")[0] == 0
        R = scratch
        os.environ["VERIF_REPO"] = scratch
    try:
        return main2()
    finally:
        if scratch:
            sh(["git", "worktree", "remove", "--force", scratch], cwd="/repo")

def main2():
    unknown = [a for a in sys.argv[1:] if a.startswith("--") and a not in ("--scratch", "--tier")]
    if unknown:
        print(__doc__); return 2
    args = [a for a in sys.argv[1:] if not a.startswith("--")]
    tier = "quick"
    if "--tier" in sys.argv:
        tier = sys.argv[sys.argv.index("--tier") + 1]
        args = [a for a in args if a != tier]
    ids = args or sorted(d for d in os.listdir(os.path.join(V, "seeded")) if os.path.isdir(os.path.join(V, "seeded", d)))
    if not clean():
        print("refusing: /repo has uncommitted changes"); return 2
    summary = []
    for sid in ids:
        d = os.path.join(V, "seeded", sid)
        meta = json.load(open(os.path.join(d, "meta.json")))
        props = meta.get("properties") or [meta["property"]]
        rc, out = sh(["git", "apply", "--whitespace=nowarn", os.path.join(d, "patch.diff")], cwd=R)
        if rc != 0:
            print(f"{sid}: patch does not apply: {out.strip()[:200]}")
            summary.append((sid, "patch-does-not-apply")); sh(["git", "checkout", "--", "."], cwd=R); continue
        results = {}
        try:
            for p in props:
                t0 = time.time()
                # the evidence file describes the unchanged tree: keep it (a run against a seeded change must not replace it)
                evp = os.path.join(V, "evidence", p + ".json")
                keep = open(evp, "rb").read() if os.path.exists(evp) else None
                rc, out = sh([os.path.join(V, "check"), p, "--tier", tier], cwd=V, timeout=3600)
                if keep is not None:
                    open(evp, "wb").write(keep)
                viol = [l for l in out.split("\n") if l.startswith("VIOLATION")]
                replays = []
                for l in viol:
                    rp = l.split("replay=")[1].split()[0]
                    try:
                        j = json.load(open(rp))
                        replays.append({"key": j.get("key"), "kind": j.get("kind"), "detail": str(j.get("detail") or j.get("no_longer_checks"))[:300],
                                        "ops": [str(o)[:200] for o in (j.get("ops_with_impl_output") or [])[:12]]})
                    except Exception:
                        pass
                results[p] = {"tier": tier, "exit": rc, "violation_lines": viol, "replays": replays, "wall_s": round(time.time() - t0, 1),
                              "caught": rc == 1 and bool(viol), "concrete_input": any("no-failing-input-found" not in l for l in viol)}
        finally:
            sh(["git", "checkout", "--", "."], cwd=R)
            sh(["git", "clean", "-fdq"], cwd=R)
        assert clean(), "/repo not clean after undo"
        json.dump({"seeded": sid, "results": results, "at": time.strftime("%Y-%m-%dT%H:%M:%SZ", time.gmtime())},
                  open(os.path.join(d, "result.json"), "w"), indent=1)
        for p, r in results.items():
            print(f"{sid}: check {p} exit={r['exit']} caught={r['caught']} concrete={r['concrete_input']} ({r['wall_s']}s)")
            summary.append((sid, p, r["caught"], r["concrete_input"]))
    return 0

if __name__ == "__main__":
    sys.exit(main())
