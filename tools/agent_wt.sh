#!/bin/bash
# tools/agent_wt.sh <tag>: (re)create the scratch worktrees of sub-agent <tag> at the current main of /verif and /repo
# (/tmp/w/<tag> on branch wt-<tag>, /tmp/r/<tag> on branch wt-<tag>), with the Lean build directory copied.
set -e
t=$1
for base in /verif:/tmp/w /repo:/tmp/r; do
  src=${base%%:*}; dst=${base##*:}/$t
  if [ -d "$dst" ]; then git -C $src worktree remove --force $dst; fi
  git -C $src worktree prune
  git -C $src branch -f wt-$t main >/dev/null
  mkdir -p ${base##*:}
  git -C $src worktree add -q $dst wt-$t
done
cp -r /verif/lean/.lake /tmp/w/$t/lean/.lake
echo "worktrees of $t at $(git -C /verif rev-parse --short main) / $(git -C /repo rev-parse --short main)"
