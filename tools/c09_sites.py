#!/usr/bin/env python3
"""Regenerates lean/SerfProofs/Props/C09Sites.lean (one theorem per generated panic site) from the committed
lean/SerfModel/Gen/PanicSites.lean.  Most sites are `intros; omega`; the few that need a lemma are listed in MANUAL.
Run after the extractor's output for the unchanged tree changed (new walked functions, new site classes)."""
import os, re
V = os.path.dirname(os.path.dirname(os.path.abspath(__file__)))
src = open(os.path.join(V, "lean/SerfModel/Gen/PanicSites.lean")).read()
names = re.findall(r'^def (site_\S+)', src, re.M)
MOD = "  intros; subst_vars; exact Nat.mod_lt _ (by assumption)"
MANUAL = {
    "site_Serf_handleUserEvent_index_s_eventBuffer_idx": MOD,
    "site_Serf_handleUserEvent_index_s_eventBuffer_idx_2": MOD,
    "site_Serf_handleQuery_index_s_queryBuffer_idx": MOD,
    "site_Serf_handleQuery_index_s_queryBuffer_idx_2": MOD,
    "site_Client_updateAdjustment_inv_exit_2":
        "  intro a b c d e i i1 w dim _ hinv hw hi\n  have hm : (i + 1) % w < w := Nat.mod_lt _ (by omega)\n"
        "  refine ⟨hinv.1, hinv.2.1, hinv.2.2.1, hinv.2.2.2.1, hinv.2.2.2.2.1, ?_⟩\n  intro _; omega",
}
out = '''import SerfModel.Gen.PanicSites
/-!
C09, part 1: one theorem per generated panic site (`SerfModel.Gen.PanicSites`, regenerated from
/repo/serf and /repo/coordinate on every run).  A site is `∀ lengths/indices, path condition → the
index/slice/division/dereference/map write/channel send/type assertion/contract call is safe`.  If a
guard disappears from the source the regenerated proposition loses its hypothesis and the theorem
below no longer builds; if a new panic-capable expression appears in any function reachable from the
memberlist delegates, `allSites` gains a conjunct and `C09_all_sites` no longer builds.
(File produced by tools/c09_sites.py from the committed Gen file.)
-/
namespace SerfProofs.C09
open SerfModel.Gen.PanicSites

/-- the generic discharge: introduce the path condition, linear arithmetic. -/
macro "site_omega" : tactic => `(tactic| (intros; omega))

'''
for n in names:
    if n in MANUAL:
        out += f"theorem C09_{n} : {n} := by\n  unfold {n}\n{MANUAL[n]}\n\n"
    else:
        out += f"theorem C09_{n} : {n} := by\n  unfold {n}; site_omega\n\n"
out += "/-- every panic site the extractor lists is safe under its path condition -/\ntheorem C09_all_sites : allSites :=\n  ⟨" + ",\n   ".join("C09_" + n for n in names) + "⟩\n\nend SerfProofs.C09\n"
open(os.path.join(V, "lean/SerfProofs/Props/C09Sites.lean"), "w").write(out)
print(len(names), "site theorems")
