#!/bin/bash
# usage: sweep.sh tier seeds...
tier=$1; shift
cd /verif
for seed in "$@"; do
  for i in $(seq -w 1 36); do
    out=$(VERIF_SEED=$seed ./check C$i --tier $tier 2>&1); rc=$?
    echo "seed=$seed C$i rc=$rc $(echo "$out" | grep -c '^VIOLATION') $(echo "$out" | tail -1)"
    if [ $rc -ne 0 ]; then echo "$out" | grep -E "VIOLATION|DIFF|MONITOR" | head -5; fi
  done
done
