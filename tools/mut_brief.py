#!/usr/bin/env python3
"""tools/mut_brief.py <WT> <suffix> <prop> [<prop> …]: print the prompt for a mutation sub-agent (property text and
summaries of the earlier seeded mutations only; nothing else from /verif)."""
import json, sys, glob, os
V = os.path.dirname(os.path.dirname(os.path.abspath(__file__)))
wt, suf, props = sys.argv[1], sys.argv[2], sys.argv[3:]
P = {json.loads(l)["id"]: json.loads(l) for l in open(f"{V}/properties.jsonl")}
print(f"Read the brief at /verif/.agents/mutator.md (read only that one file under /verif; nothing else there) and follow it with WT = {wt}, with ONE change to the brief: produce ONE mutation per property, in directory out/<PROPERTY>-{suf} (note the suffix -{suf}), and it must use a DIFFERENT mechanism from the earlier mutation(s) summarised below for that property.\n")
for p in props:
    d = P[p]
    earlier = []
    for m in sorted(glob.glob(f"{V}/seeded/{p}-*/meta.json")):
        earlier.append(json.load(open(m))["summary"][:400])
    print(f'Property {p} — "{d["title"]}": {d["statement"]} (Anchored in {", ".join(d["anchors"]["files"])}.)')
    print("Earlier mutation(s), do NOT repeat: " + (" || ".join(earlier) if earlier else "none") + "\n")
