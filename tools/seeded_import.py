#!/usr/bin/env python3
"""tools/seeded_import.py <source-dir> <seeded-id>

Validates a breaking change produced by an independent sub-agent and, if it holds up, keeps it as
/verif/seeded/<seeded-id>/ (patch.diff, demo/, meta.json with what was run).  In a scratch worktree of
/repo (removed afterwards) it confirms: the patch applies and compiles; the demonstration PASSES without
the patch and FAILS with it; the existing test suite still passes with the patch (a test that fails in the
full run is re-run alone up to 3 times — the sandbox is loaded and some tests are timing-sensitive;
TestSyslogFilter always fails here)."""
import json, os, re, shutil, subprocess, sys, tempfile, time
R = "/repo"; V = "/verif"
ENV = dict(os.environ, GOFLAGS="-mod=mod", GOPROXY="off")
ENV.pop("GOSUMDB", None); ENV.pop("GOTOOLCHAIN", None)

def sh(cmd, cwd, timeout=1800):
    p = subprocess.run(cmd, cwd=cwd, env=ENV, shell=isinstance(cmd, str), stdout=subprocess.PIPE, stderr=subprocess.STDOUT, text=True, timeout=timeout)
    return p.returncode, p.stdout

def main():
    src, sid = sys.argv[1], sys.argv[2]
    meta = json.load(open(os.path.join(src, "meta.json")))
    wt = tempfile.mkdtemp(prefix="seedval-", dir="/tmp")
    os.rmdir(wt)
    rc, out = sh(["git", "worktree", "add", "-q", "--detach", wt, "HEAD"], R)
    assert rc == 0, out
    rec = {"validated_at": time.strftime("%Y-%m-%dT%H:%M:%SZ", time.gmtime()), "repo_head": sh(["git", "rev-parse", "--short", "HEAD"], R)[1].strip()}
    ok = False
    try:
        demo_cmd = meta.get("demo_cmd") or open(os.path.join(src, "demo", "RUN.txt")).read().strip()
        shutil.copytree(os.path.join(src, "demo"), os.path.join(wt, "demo"), dirs_exist_ok=True)
        # some demonstrations address their files as out/<id>/demo/… (the layout they were written in)
        shutil.copytree(os.path.join(src, "demo"), os.path.join(wt, "out", os.path.basename(os.path.normpath(src)), "demo"), dirs_exist_ok=True)
        rc0, out0 = sh(demo_cmd, wt, 900)
        rec["demo_without_patch"] = {"exit": rc0, "tail": out0[-400:]}
        rc, out = sh(["git", "apply", "--whitespace=nowarn", os.path.join(src, "patch.diff")], wt)
        rec["patch_applies"] = rc == 0
        if rc != 0:
            print("patch does not apply:", out); return 1
        rc, out = sh(["go", "build", "./..."], wt)
        rec["builds"] = rc == 0
        rc1, out1 = sh(demo_cmd, wt, 900)
        rec["demo_with_patch"] = {"exit": rc1, "tail": out1[-600:]}
        # remove the demo test file(s) the demo command copied into packages before running the suite
        sh("git status --porcelain | grep '^??' | awk '{print $2}' | grep -v '^demo' | grep -v '^out' | xargs -r rm -rf", wt)
        pkgs = sh("go list ./... | grep -v /demo | grep -v /out/", wt)[1].split()
        rc2, out2 = sh(["go", "test", "-vet=off", "-count=1", "-timeout", "25m"] + pkgs, wt, 2400)
        failed = sorted(set(re.findall(r"^--- FAIL: (\S+)", out2, re.M)))
        still = []
        for t in failed:
            if t == "TestSyslogFilter" or "/" in t:
                continue
            good = False
            for _ in range(3):
                r, o = sh(["go", "test", "-vet=off", "-count=1", "-run", f"^{t}$"] + pkgs, wt, 900)
                if r == 0 or not re.search(r"^--- FAIL", o, re.M):
                    good = True; break
            if not good:
                still.append(t)
        # a test that keeps failing alone is excused only if it fails the same way WITHOUT the patch
        # under the current machine load (timing-sensitive tests of the baseline)
        excused = []
        if still:
            sh(["git", "apply", "-R", "--whitespace=nowarn", os.path.join(src, "patch.diff")], wt)
            for t in list(still):
                bad_clean = True
                for _ in range(2):
                    r, o = sh(["go", "test", "-vet=off", "-count=1", "-run", f"^{t}$"] + pkgs, wt, 900)
                    if r == 0 or not re.search(r"^--- FAIL", o, re.M):
                        bad_clean = False; break
                if bad_clean:
                    excused.append(t); still.remove(t)
            sh(["git", "apply", "--whitespace=nowarn", os.path.join(src, "patch.diff")], wt)
        rec["suite_with_patch"] = {"failed_in_full_run": failed, "still_failing_alone": still,
                                   "also_failing_without_patch_under_load": excused}
        ok = rec["builds"] and rc0 == 0 and rc1 != 0 and not still
        rec["kept"] = ok
    finally:
        sh(["git", "worktree", "remove", "--force", wt], R)
        shutil.rmtree(wt, ignore_errors=True)
    print(json.dumps(rec, indent=1)[:1500])
    if ok:
        dst = os.path.join(V, "seeded", sid)
        if os.path.exists(dst):
            shutil.rmtree(dst)
        os.makedirs(dst)
        shutil.copy(os.path.join(src, "patch.diff"), dst)
        shutil.copytree(os.path.join(src, "demo"), os.path.join(dst, "demo"))
        meta["validation"] = rec
        meta.setdefault("property", sid.split("-")[0])
        json.dump(meta, open(os.path.join(dst, "meta.json"), "w"), indent=1)
        print("KEPT", dst)
        return 0
    print("REJECTED", sid)
    return 1

if __name__ == "__main__":
    sys.exit(main())
