import sys
root=sys.argv[1]
def rep(path, old, new):
    p=root+'/'+path; s=open(p).read(); assert old in s, (path, old[:40]); open(p,'w').write(s.replace(old,new,1))
which=sys.argv[2:]
if 'E1' in which:  # user Coalesce: renamed locals, if/else instead of early return, flipped test, one-statement store
    rep('serf/coalesce_user.go','''	user := e.(UserEvent)
	latest, ok := c.events[user.Name]

	// Create a new entry if there are none, or
	// if this message has the newest LTime
	if !ok || latest.LTime < user.LTime {
		latest = &latestUserEvents{
			LTime:  user.LTime,
			Events: []Event{e},
		}
		c.events[user.Name] = latest
		return
	}

	// If the the same age, save it
	if latest.LTime == user.LTime {
		latest.Events = append(latest.Events, e)
	}
}''','''	u := e.(UserEvent)
	cur, found := c.events[u.Name]
	if found && cur.LTime >= u.LTime {
		// same age: keep it as well; older: drop it
		if cur.LTime == u.LTime {
			cur.Events = append(cur.Events, e)
		}
	} else {
		// first of its name, or newer than everything stored
		c.events[u.Name] = &latestUserEvents{LTime: u.LTime, Events: []Event{e}}
	}
}''')
if 'E2' in which:  # member Flush loop: flipped guard without continue, renamed locals
    rep('serf/coalesce_member.go','''	for name, cevent := range c.latestEvents {
		previous, ok := c.lastEvents[name]

		// If we sent the same event before, then ignore
		// unless it is a MemberUpdate
		if ok && previous == cevent.Type && cevent.Type != EventMemberUpdate {
			continue
		}

		// Update our last event
		c.lastEvents[name] = cevent.Type

		// Add it to our event
		newEvent, ok := events[cevent.Type]
		if !ok {
			newEvent = &MemberEvent{Type: cevent.Type}
			events[cevent.Type] = newEvent
		}
		newEvent.Members = append(newEvent.Members, *cevent.Member)
	}''','''	for who, pending := range c.latestEvents {
		sent, seen := c.lastEvents[who]
		// report unless the same kind was reported last (updates are always reported)
		if !(seen && sent == pending.Type && pending.Type != EventMemberUpdate) {
			c.lastEvents[who] = pending.Type
			group, have := events[pending.Type]
			if !have {
				group = &MemberEvent{Type: pending.Type}
				events[pending.Type] = group
			}
			group.Members = append(group.Members, *pending.Member)
		}
	}''')
if 'E3' in which:  # member Coalesce: index form of the range, renamed parameter
    rep('serf/coalesce_member.go','''func (c *memberEventCoalescer) Coalesce(raw Event) {
	e := raw.(MemberEvent)
	for _, m := range e.Members {
		c.latestEvents[m.Name] = coalesceEvent{
			Type:   e.Type,
			Member: &m,
		}
	}
}''','''func (c *memberEventCoalescer) Coalesce(in Event) {
	me := in.(MemberEvent)
	for i := range me.Members {
		mem := me.Members[i]
		c.latestEvents[mem.Name] = coalesceEvent{Type: me.Type, Member: &mem}
	}
}''')
if 'E4' in which:  # user Handle via comma-ok type assertion
    rep('serf/coalesce_user.go','''	// Only handle EventUser messages
	if e.EventType() != EventUser {
		return false
	}

	// Check if coalescing is enabled
	user := e.(UserEvent)
	return user.Coalesce''','''	if e.EventType() == EventUser {
		if u, isUser := e.(UserEvent); isUser {
			return u.Coalesce
		}
	}
	return false''')
if 'E5' in which:  # coalesceLoop: event case as if/else, renamed parameters and locals
    rep('serf/coalesce.go','''			// Ignore any non handled events
			if !c.Handle(e) {
				outCh <- e
				continue
			}

			// Start a new quantum if we need to
			// and restart the quiescent timer
			if quantum == nil {
				quantum = time.After(coalescePeriod)
			}
			quiescent = time.After(quiescentPeriod)

			// Coalesce the event
			c.Coalesce(e)
''','''			if c.Handle(e) {
				if quantum == nil {
					quantum = time.After(coalescePeriod)
				}
				quiescent = time.After(quiescentPeriod)
				c.Coalesce(e)
			} else {
				// not ours: pass it on untouched
				outCh <- e
			}
''')
