#!/bin/bash
# scratch: regenerate PanicSites from $1 (default /tmp/r/panic) and check the committed site proofs against it
export GOFLAGS=-mod=mod GOPROXY=off
cd /tmp/w/panic/extract && go build -o /tmp/w/panic/.extract . || exit 1
/tmp/w/panic/.extract -repo ${1:-/tmp/r/panic} -out /tmp/w/panic/.genout >/dev/null; grep PanicSites /tmp/w/panic/.genout/extract.json
cd /tmp/w/panic/.genout && python3 - <<'PY'
import re
s=open('PanicSites.lean').read()
names=re.findall(r'^def (site_\S+)',s,re.M)
out="import PS\nopen SerfModel.Gen.PanicSites\n"
for n in names:
    out+=f"theorem T_{n} : {n} := by unfold {n}; intros; omega\n"
open('T.lean','w').write(out)
print(len(names),"sites")
PY
cp PanicSites.lean PS.lean; lean -o PS.olean PS.lean 2>&1 | head
LEAN_PATH=. lean T.lean 2>&1 | grep -E "^T.lean:[0-9]+:[0-9]+: error" | while IFS=: read f l rest; do echo "$(sed -n "${l}p" T.lean | awk '{print $4}') $rest" | cut -c1-150; done
diff <(grep "^def site_" /tmp/w/panic/lean/SerfModel/Gen/PanicSites.lean | awk '{print $2}') <(grep "^def site_" PanicSites.lean | awk '{print $2}') | head -20
