package main

import (
	"fmt"
	"go/ast"
	"go/token"
	"strconv"
)

// Normalisation shared by the translators: the names of parameters and locals carry no
// meaning, so before a function body is matched its identifiers are renamed to the canonical
// names the matcher is written in (roles are discovered from how a variable is DEFINED); string
// constants (function-local or package level) are replaced by their values.

// renameIdents renames identifiers (not selector fields, not struct-literal keys) in place.
func renameIdents(n ast.Node, m map[string]string) {
	var walk func(n ast.Node)
	walk = func(n ast.Node) {
		ast.Inspect(n, func(x ast.Node) bool {
			switch y := x.(type) {
			case *ast.SelectorExpr:
				walk(y.X)
				return false
			case *ast.KeyValueExpr:
				walk(y.Value)
				return false
			case *ast.Ident:
				if to, ok := m[y.Name]; ok {
					y.Name = to
				}
			}
			return true
		})
	}
	walk(n)
}

// checkRename refuses a renaming that would merge two different variables or capture a name
// already used in the function.
func checkRename(fn *ast.FuncDecl, m map[string]string) error {
	used := map[string]bool{}
	ast.Inspect(fn, func(x ast.Node) bool {
		if sel, ok := x.(*ast.SelectorExpr); ok {
			ast.Inspect(sel.X, func(y ast.Node) bool {
				if id, ok := y.(*ast.Ident); ok {
					used[id.Name] = true
				}
				return true
			})
			return false
		}
		if id, ok := x.(*ast.Ident); ok {
			used[id.Name] = true
		}
		return true
	})
	for from, to := range m {
		if from == to {
			continue
		}
		if _, renamed := m[to]; used[to] && !renamed {
			return fmt.Errorf("%s: cannot normalise names: %s would capture %s", fn.Name.Name, from, to)
		}
	}
	return nil
}

// stringConsts collects the string constants of a file (package level) and of a function body.
func localStringConsts(f *ast.File, fn *ast.FuncDecl) map[string]string {
	out := map[string]string{}
	add := func(gd *ast.GenDecl) {
		if gd.Tok != token.CONST {
			return
		}
		for _, sp := range gd.Specs {
			vs := sp.(*ast.ValueSpec)
			for i, n := range vs.Names {
				if i < len(vs.Values) {
					if bl, ok := vs.Values[i].(*ast.BasicLit); ok && bl.Kind == token.STRING {
						if s, err := strconv.Unquote(bl.Value); err == nil {
							out[n.Name] = s
						}
					}
				}
			}
		}
	}
	for _, d := range f.Decls {
		if gd, ok := d.(*ast.GenDecl); ok {
			add(gd)
		}
	}
	if fn != nil {
		ast.Inspect(fn.Body, func(x ast.Node) bool {
			if ds, ok := x.(*ast.DeclStmt); ok {
				if gd, ok := ds.Decl.(*ast.GenDecl); ok {
					add(gd)
				}
			}
			return true
		})
	}
	return out
}

// inlineConsts replaces, in call arguments and binary expressions of fn's body, identifiers that
// name a string constant by the literal, and drops the function-local const declarations.
func inlineConsts(f *ast.File, fn *ast.FuncDecl) {
	consts := localStringConsts(f, fn)
	if len(consts) == 0 {
		return
	}
	lit := func(e ast.Expr) ast.Expr {
		if id, ok := e.(*ast.Ident); ok {
			if s, ok := consts[id.Name]; ok {
				return &ast.BasicLit{Kind: token.STRING, Value: strconv.Quote(s)}
			}
		}
		return e
	}
	ast.Inspect(fn.Body, func(x ast.Node) bool {
		switch y := x.(type) {
		case *ast.CallExpr:
			for i := range y.Args {
				y.Args[i] = lit(y.Args[i])
			}
		case *ast.BinaryExpr:
			y.X, y.Y = lit(y.X), lit(y.Y)
		case *ast.BlockStmt:
			var keep []ast.Stmt
			for _, st := range y.List {
				if ds, ok := st.(*ast.DeclStmt); ok {
					if gd, ok := ds.Decl.(*ast.GenDecl); ok && gd.Tok == token.CONST {
						continue
					}
				}
				keep = append(keep, st)
			}
			y.List = keep
		}
		return true
	})
}

// paramNames returns the names of fn's parameters in order.
func paramNames(fn *ast.FuncDecl) []string {
	var out []string
	for _, p := range fn.Type.Params.List {
		for _, n := range p.Names {
			out = append(out, n.Name)
		}
	}
	return out
}

// defineRoles walks fn's body and maps the left-hand sides of `:=` / `var` / range definitions
// whose right-hand side is recognised by `role` to canonical names. role gets the i-th LHS index
// and the RHS expression text (after earlier renamings are NOT applied: it sees source names, so
// it should look at structure: callee, selector) and returns the canonical name or "".
func defineRoles(fn *ast.FuncDecl, role func(rhs ast.Expr, i int) string, m map[string]string) error {
	set := func(from, to string) error {
		if from == "_" || to == "" {
			return nil
		}
		if old, ok := m[from]; ok && old != to {
			return fmt.Errorf("%s: variable %s plays two roles (%s, %s)", fn.Name.Name, from, old, to)
		}
		m[from] = to
		return nil
	}
	var err error
	ast.Inspect(fn.Body, func(x ast.Node) bool {
		if err != nil {
			return false
		}
		switch y := x.(type) {
		case *ast.AssignStmt:
			if y.Tok == token.DEFINE && len(y.Rhs) == 1 {
				for i, l := range y.Lhs {
					if id, ok := l.(*ast.Ident); ok {
						if e := set(id.Name, role(y.Rhs[0], i)); e != nil {
							err = e
						}
					}
				}
			}
		case *ast.IfStmt:
			// handled through the AssignStmt of Init by ast.Inspect
		}
		return true
	})
	return err
}
