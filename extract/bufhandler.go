package main

import (
	"fmt"
	"go/ast"
	"go/token"
	"strings"
)

// BufHandler: the bodies of Serf.handleUserEvent and Serf.handleQuery
// (serf/serf.go) translated statement by statement into the IR of
// lean/SerfModel/Model/BufHandlerIR.lean: guard expressions, the definition of
// curTime, the slot index, the same-time test, the duplicate test, the fresh
// record and its store, the append, the delivery, the return values, and their
// order. Lock calls, log lines and metrics calls are skipped (Gen/BufLocks
// covers the lock region). Every other statement shape is an error.
//
// The translation goes by MEANING, not by spelling, and ends in a canonical form,
// so that behaviour-preserving edits give the same output:
//   - locals, the receiver and the parameter may have any names (roles are found
//     from how a variable is defined and used: the buffer index, the record read
//     from the buffer, the item, the clock-dependent local, the re-broadcast flag);
//   - other scalar locals (`n := LamportTime(len(s.eventBuffer))`) are inlined;
//   - a boolean helper method of Serf with a straight-line body is inlined;
//   - comparisons are oriented (`a > b` = `b < a`), negations pushed inwards,
//     operands of == / != ordered; `if A || B { return false }` is two guards;
//   - the same-time test may be written either way round (`if same {dup} else
//     {fresh}` or `if !same {fresh} else {dup}`);
//   - the duplicate loop may range by value or by index, Equals either way round;
//   - the pure definitions of curTime and idx are hoisted to just after the
//     witness (they read nothing the guards change);
//   - `defer Unlock()` or explicit unlocks before the returns are both skipped.

// ---------------------------------------------------------------- IR

type irE struct {
	op   string // ltime minTime cur clockTime lenN seenLTime lit sub add mod
	a, b *irE
	n    uint64
}

func (e *irE) String() string {
	switch e.op {
	case "lit":
		return fmt.Sprintf("(.lit %d)", e.n)
	case "sub", "add", "mod":
		return fmt.Sprintf("(.%s %s %s)", e.op, e.a, e.b)
	}
	return "." + e.op
}

func (e *irE) mentions(op string) bool {
	if e == nil {
		return false
	}
	return e.op == op || e.a.mentions(op) || e.b.mentions(op)
}

type irC struct {
	op     string // lt le eq ne seenNotNil seenNil and or not
	ea, eb *irE
	ca, cb *irC
}

func (c *irC) String() string {
	switch c.op {
	case "seenNotNil", "seenNil":
		return "." + c.op
	case "and", "or":
		return fmt.Sprintf("(.%s %s %s)", c.op, c.ca, c.cb)
	case "not":
		return fmt.Sprintf("(.not %s)", c.ca)
	}
	return fmt.Sprintf("(.%s %s %s)", c.op, c.ea, c.eb)
}

func (c *irC) mentions(op string) bool {
	if c == nil {
		return false
	}
	return c.ea.mentions(op) || c.eb.mentions(op) || c.ca.mentions(op) || c.cb.mentions(op)
}

// negC / normC: canonical form of conditions (no gt/ge, no not, ordered == operands).
func negC(c *irC) *irC {
	switch c.op {
	case "lt":
		return &irC{op: "le", ea: c.eb, eb: c.ea}
	case "le":
		return &irC{op: "lt", ea: c.eb, eb: c.ea}
	case "eq":
		return &irC{op: "ne", ea: c.ea, eb: c.eb}
	case "ne":
		return &irC{op: "eq", ea: c.ea, eb: c.eb}
	case "seenNotNil":
		return &irC{op: "seenNil"}
	case "seenNil":
		return &irC{op: "seenNotNil"}
	case "and":
		return &irC{op: "or", ca: negC(c.ca), cb: negC(c.cb)}
	case "or":
		return &irC{op: "and", ca: negC(c.ca), cb: negC(c.cb)}
	case "not":
		return c.ca
	}
	return &irC{op: "not", ca: c}
}

func normC(c *irC) *irC {
	switch c.op {
	case "gt":
		return &irC{op: "lt", ea: c.eb, eb: c.ea}
	case "ge":
		return &irC{op: "le", ea: c.eb, eb: c.ea}
	case "eq", "ne":
		if c.ea.String() > c.eb.String() {
			return &irC{op: c.op, ea: c.eb, eb: c.ea}
		}
		return c
	case "and", "or":
		return &irC{op: c.op, ca: normC(c.ca), cb: normC(c.cb)}
	case "not":
		return normC(negC(normC(c.ca)))
	}
	return c
}

// ---------------------------------------------------------------- context

type bhCtx struct {
	file   *ast.File
	recv   string // receiver name
	msg    string // parameter name
	clock  string // "eventClock" / "queryClock"
	minT   string // "eventMinTime" / "queryMinTime"
	buffer string // "eventBuffer" / "queryBuffer"
	lock   string // "eventLock" / "queryLock"
	items  string // "Events" / "QueryIDs"
	isUE   bool

	curVar, idxVar, seenVar, itemVar, rbVar string
	env                                     map[string]*irE // inlined pure scalar locals
	depth                                   int
}

func (c *bhCtx) expr(e ast.Expr) (*irE, error) {
	src := exprString(e)
	switch {
	case src == c.msg+".LTime":
		return &irE{op: "ltime"}, nil
	case src == c.recv+"."+c.minT:
		return &irE{op: "minTime"}, nil
	case src == c.recv+"."+c.clock+".Time()":
		return &irE{op: "clockTime"}, nil
	case src == "LamportTime(len("+c.recv+"."+c.buffer+"))":
		return &irE{op: "lenN"}, nil
	case c.seenVar != "" && src == c.seenVar+".LTime":
		return &irE{op: "seenLTime"}, nil
	}
	switch x := e.(type) {
	case *ast.Ident:
		if x.Name == c.curVar && c.curVar != "" {
			return &irE{op: "cur"}, nil
		}
		if v, ok := c.env[x.Name]; ok {
			return v, nil
		}
	case *ast.ParenExpr:
		return c.expr(x.X)
	case *ast.BasicLit:
		if x.Kind == token.INT {
			var n uint64
			if _, err := fmt.Sscan(x.Value, &n); err == nil {
				return &irE{op: "lit", n: n}, nil
			}
		}
	case *ast.CallExpr:
		if exprString(x.Fun) == "LamportTime" && len(x.Args) == 1 { // a conversion
			return c.expr(x.Args[0])
		}
	case *ast.BinaryExpr:
		op := map[token.Token]string{token.SUB: "sub", token.ADD: "add", token.REM: "mod"}[x.Op]
		if op != "" {
			a, err := c.expr(x.X)
			if err != nil {
				return nil, err
			}
			b, err := c.expr(x.Y)
			if err != nil {
				return nil, err
			}
			return &irE{op: op, a: a, b: b}, nil
		}
	}
	return nil, fmt.Errorf("unsupported expression %q", src)
}

func (c *bhCtx) cond(e ast.Expr) (*irC, error) {
	src := exprString(e)
	if c.seenVar != "" {
		switch src {
		case c.seenVar + " != nil", "nil != " + c.seenVar:
			return &irC{op: "seenNotNil"}, nil
		case c.seenVar + " == nil", "nil == " + c.seenVar:
			return &irC{op: "seenNil"}, nil
		}
	}
	switch x := e.(type) {
	case *ast.ParenExpr:
		return c.cond(x.X)
	case *ast.UnaryExpr:
		if x.Op == token.NOT {
			a, err := c.cond(x.X)
			if err != nil {
				return nil, err
			}
			return &irC{op: "not", ca: a}, nil
		}
	case *ast.CallExpr:
		return c.inlineHelper(x)
	case *ast.BinaryExpr:
		if x.Op == token.LAND || x.Op == token.LOR {
			a, err := c.cond(x.X)
			if err != nil {
				return nil, err
			}
			b, err := c.cond(x.Y)
			if err != nil {
				return nil, err
			}
			return &irC{op: map[token.Token]string{token.LAND: "and", token.LOR: "or"}[x.Op], ca: a, cb: b}, nil
		}
		op := map[token.Token]string{token.LSS: "lt", token.LEQ: "le", token.GTR: "gt", token.GEQ: "ge", token.EQL: "eq", token.NEQ: "ne"}[x.Op]
		if op != "" {
			a, err := c.expr(x.X)
			if err != nil {
				return nil, err
			}
			b, err := c.expr(x.Y)
			if err != nil {
				return nil, err
			}
			return &irC{op: op, ea: a, eb: b}, nil
		}
	}
	return nil, fmt.Errorf("unsupported condition %q", src)
}

// inlineHelper: a call `recv.helper(args…)` of a boolean method of Serf whose body is
// scalar definitions followed by one `return <condition>` is replaced by that condition.
func (c *bhCtx) inlineHelper(call *ast.CallExpr) (*irC, error) {
	sel, ok := call.Fun.(*ast.SelectorExpr)
	if !ok || exprString(sel.X) != c.recv || c.depth > 0 {
		return nil, fmt.Errorf("unsupported condition %q", exprString(call))
	}
	fd := findFunc(c.file, "Serf", sel.Sel.Name)
	if fd == nil || fd.Body == nil || fd.Recv == nil || len(fd.Recv.List[0].Names) != 1 {
		return nil, fmt.Errorf("unsupported condition %q (no such helper)", exprString(call))
	}
	var params []string
	for _, p := range fd.Type.Params.List {
		for _, n := range p.Names {
			params = append(params, n.Name)
		}
	}
	if len(params) != len(call.Args) {
		return nil, fmt.Errorf("helper %s: %d parameters, %d arguments", sel.Sel.Name, len(params), len(call.Args))
	}
	saved := *c
	defer func() { *c = saved }()
	env := map[string]*irE{}
	msg := "\x00none"
	for i, a := range call.Args {
		if exprString(a) == saved.msg {
			msg = params[i]
			continue
		}
		v, err := saved.expr(a)
		if err != nil {
			return nil, fmt.Errorf("helper %s: argument %q: %v", sel.Sel.Name, exprString(a), err)
		}
		env[params[i]] = v
	}
	c.recv, c.msg, c.env, c.curVar, c.depth = fd.Recv.List[0].Names[0].Name, msg, env, "", 1
	n := len(fd.Body.List)
	for _, st := range fd.Body.List[:n-1] {
		as, ok := st.(*ast.AssignStmt)
		if !ok || as.Tok != token.DEFINE || len(as.Lhs) != 1 || len(as.Rhs) != 1 {
			return nil, fmt.Errorf("helper %s: unsupported statement %q", sel.Sel.Name, exprString(st))
		}
		v, err := c.expr(as.Rhs[0])
		if err != nil {
			return nil, fmt.Errorf("helper %s: %v", sel.Sel.Name, err)
		}
		c.env[exprString(as.Lhs[0])] = v
	}
	ret, ok := fd.Body.List[n-1].(*ast.ReturnStmt)
	if !ok || len(ret.Results) != 1 {
		return nil, fmt.Errorf("helper %s: does not end in a return", sel.Sel.Name)
	}
	return c.cond(ret.Results[0])
}

// isNoise: statements without effect on the modelled state (log lines, metrics,
// lock calls — the lock region is Gen/BufLocks' subject).
func (c *bhCtx) isNoise(st ast.Stmt) bool {
	if d, ok := st.(*ast.DeferStmt); ok {
		return exprString(d.Call) == c.recv+"."+c.lock+".Unlock()"
	}
	es, ok := st.(*ast.ExprStmt)
	if !ok {
		return false
	}
	src := exprString(es.X)
	return strings.HasPrefix(src, c.recv+".logger.Printf(") || strings.HasPrefix(src, "metrics.") ||
		src == c.recv+"."+c.lock+".Lock()" || src == c.recv+"."+c.lock+".Unlock()"
}

func isReturn(st ast.Stmt, what string) bool {
	r, ok := st.(*ast.ReturnStmt)
	return ok && what != "" && len(r.Results) == 1 && exprString(r.Results[0]) == what
}

// bodyReturns: the block consists of noise and ends with `return <what>`.
func (c *bhCtx) bodyReturns(b *ast.BlockStmt, what string) bool {
	if b == nil || len(b.List) == 0 || !isReturn(b.List[len(b.List)-1], what) {
		return false
	}
	for _, st := range b.List[:len(b.List)-1] {
		if !c.isNoise(st) {
			return false
		}
	}
	return true
}

// dupTest recognises the duplicate test of the same-time branch.
func (c *bhCtx) dupTest(b *ast.BlockStmt) (string, error) {
	if b == nil || len(b.List) != 1 {
		return "", fmt.Errorf("same-time branch is not one statement")
	}
	items := c.seenVar + "." + c.items
	item := c.itemVar
	if !c.isUE {
		item = c.msg + ".ID"
	}
	oneIf := func(body *ast.BlockStmt) *ast.IfStmt {
		if len(body.List) != 1 {
			return nil
		}
		in, ok := body.List[0].(*ast.IfStmt)
		if !ok || in.Else != nil || in.Init != nil || !c.bodyReturns(in.Body, "false") {
			return nil
		}
		return in
	}
	switch st := b.List[0].(type) {
	case *ast.RangeStmt:
		if exprString(st.X) != items {
			return "", fmt.Errorf("duplicate loop ranges over %q", exprString(st.X))
		}
		in := oneIf(st.Body)
		if in == nil {
			return "", fmt.Errorf("unsupported duplicate loop body %q", exprString(st.Body))
		}
		elem := ""
		switch {
		case st.Value != nil:
			elem = exprString(st.Value)
		case st.Key != nil:
			elem = items + "[" + exprString(st.Key) + "]"
		}
		cs := exprString(in.Cond)
		if c.isUE && item != "" && (cs == elem+".Equals(&"+item+")" || cs == item+".Equals(&"+elem+")") {
			return ".equalsLoop", nil
		}
		if !c.isUE && (cs == elem+" == "+item || cs == item+" == "+elem) {
			return ".containsItem", nil
		}
		return "", fmt.Errorf("unsupported duplicate test %q", cs)
	case *ast.IfStmt:
		if st.Else == nil && st.Init == nil && !c.isUE && exprString(st.Cond) == "slices.Contains("+items+", "+item+")" && c.bodyReturns(st.Body, "false") {
			return ".containsItem", nil
		}
		return "", fmt.Errorf("unsupported duplicate test %q", exprString(st.Cond))
	}
	return "", fmt.Errorf("unsupported duplicate test %q", exprString(b.List[0]))
}

// freshBranch recognises `seen = &T{LTime: e}; buf[idx] = seen`.
func (c *bhCtx) freshBranch(b *ast.BlockStmt) (newSeen string, store string, err error) {
	newSeen, store = "none", "false"
	if b == nil {
		return "", "", fmt.Errorf("missing fresh-record branch")
	}
	for _, es := range b.List {
		as, ok := es.(*ast.AssignStmt)
		if !ok || as.Tok != token.ASSIGN || len(as.Lhs) != 1 || len(as.Rhs) != 1 {
			return "", "", fmt.Errorf("unsupported statement in the fresh-record branch %q", exprString(es))
		}
		l := exprString(as.Lhs[0])
		switch {
		case l == c.seenVar && store == "false" && newSeen == "none":
			var lte ast.Expr
			if u, ok := as.Rhs[0].(*ast.UnaryExpr); ok && u.Op == token.AND {
				if cl, ok := u.X.(*ast.CompositeLit); ok && len(cl.Elts) == 1 {
					if kv, ok := cl.Elts[0].(*ast.KeyValueExpr); ok && exprString(kv.Key) == "LTime" {
						lte = kv.Value
					}
				}
			}
			if lte == nil {
				return "", "", fmt.Errorf("unsupported fresh record %q", exprString(es))
			}
			e, err := c.expr(lte)
			if err != nil {
				return "", "", err
			}
			newSeen = "(some " + e.String() + ")"
		case l == c.recv+"."+c.buffer+"["+c.idxVar+"]" && exprString(as.Rhs[0]) == c.seenVar && store == "false":
			store = "true"
		default:
			return "", "", fmt.Errorf("unsupported statement in the fresh-record branch %q", exprString(es))
		}
	}
	return newSeen, store, nil
}

// compositeFields returns the key → value sources of a (possibly &-prefixed) composite literal.
func compositeFields(e ast.Expr) (string, map[string]string) {
	if u, ok := e.(*ast.UnaryExpr); ok && u.Op == token.AND {
		e = u.X
	}
	cl, ok := e.(*ast.CompositeLit)
	if !ok {
		return "", nil
	}
	m := map[string]string{}
	for _, el := range cl.Elts {
		if kv, ok := el.(*ast.KeyValueExpr); ok {
			m[exprString(kv.Key)] = exprString(kv.Value)
		}
	}
	return exprString(cl.Type), m
}

type bhStmt struct {
	kind string // witness retFalseIf setCur setIdx other
	text string // for kind other
	e    *irE   // witness / setCur / setIdx
	c    *irC   // retFalseIf
}

func (s bhStmt) usesCur() bool { return s.e.mentions("cur") || s.c.mentions("cur") }

func (s bhStmt) render() string {
	switch s.kind {
	case "witness", "setCur", "setIdx":
		return "." + s.kind + " " + s.e.String()
	case "retFalseIf":
		return ".retFalseIf " + s.c.String()
	}
	return s.text
}

// substE / substC replace the atom `from` by the atom `to`.
func substE(e *irE, from, to string) *irE {
	if e == nil {
		return nil
	}
	if e.op == from {
		return &irE{op: to}
	}
	return &irE{op: e.op, a: substE(e.a, from, to), b: substE(e.b, from, to), n: e.n}
}

func substC(c *irC, from, to string) *irC {
	if c == nil {
		return nil
	}
	return &irC{op: c.op, ea: substE(c.ea, from, to), eb: substE(c.eb, from, to), ca: substC(c.ca, from, to), cb: substC(c.cb, from, to)}
}

// splitOr: `if A || B { return false }` is `if A { return false }; if B { return false }`.
func splitOr(c *irC) []*irC {
	if c.op == "or" {
		return append(splitOr(c.ca), splitOr(c.cb)...)
	}
	return []*irC{c}
}

func (c *bhCtx) translate(fd *ast.FuncDecl) ([]string, error) {
	// the buffer index variable: the identifier the buffer is indexed with
	ast.Inspect(fd.Body, func(n ast.Node) bool {
		if ix, ok := n.(*ast.IndexExpr); ok && exprString(ix.X) == c.recv+"."+c.buffer {
			if id, ok := ix.Index.(*ast.Ident); ok && c.idxVar == "" {
				c.idxVar = id.Name
			}
		}
		return true
	})
	if c.idxVar == "" {
		return nil, fmt.Errorf("the buffer is never indexed with a local variable")
	}
	var out []bhStmt
	emit := func(kind, text string) { out = append(out, bhStmt{kind: kind, text: text}) }
	for _, st := range fd.Body.List {
		if c.isNoise(st) {
			continue
		}
		src := exprString(st)
		switch x := st.(type) {
		case *ast.ExprStmt:
			call, ok := x.X.(*ast.CallExpr)
			if ok && exprString(call.Fun) == c.recv+"."+c.clock+".Witness" && len(call.Args) == 1 {
				e, err := c.expr(call.Args[0])
				if err != nil {
					return nil, err
				}
				out = append(out, bhStmt{kind: "witness", e: e})
				continue
			}
			return nil, fmt.Errorf("unsupported statement %q", src)
		case *ast.AssignStmt:
			if len(x.Lhs) != 1 || len(x.Rhs) != 1 {
				return nil, fmt.Errorf("unsupported assignment %q", src)
			}
			lhs, rhs := exprString(x.Lhs[0]), exprString(x.Rhs[0])
			typ, fields := compositeFields(x.Rhs[0])
			switch {
			case x.Tok == token.DEFINE && rhs == c.recv+"."+c.buffer+"["+c.idxVar+"]":
				if c.seenVar != "" {
					return nil, fmt.Errorf("the buffer slot is read twice")
				}
				c.seenVar = lhs
				emit("other", ".loadSeen")
			case x.Tok == token.DEFINE && c.isUE && typ == "userEvent":
				if len(fields) != 2 || fields["Name"] != c.msg+".Name" || fields["Payload"] != c.msg+".Payload" || c.itemVar != "" {
					return nil, fmt.Errorf("unsupported item construction %q", src)
				}
				c.itemVar = lhs
			case x.Tok == token.DEFINE && !c.isUE && (rhs == "!"+c.msg+".NoBroadcast()" || rhs == c.msg+".NoBroadcast()"):
				if c.rbVar != "" {
					return nil, fmt.Errorf("two re-broadcast flags")
				}
				c.rbVar = lhs
				emit("other", ".setRebroadcast "+leanBool(strings.HasPrefix(rhs, "!")))
			case x.Tok == token.DEFINE:
				e, err := c.expr(x.Rhs[0])
				if err != nil {
					return nil, err
				}
				switch {
				case lhs == c.idxVar:
					out = append(out, bhStmt{kind: "setIdx", e: e})
				case e.mentions("clockTime") || e.mentions("cur") || e.mentions("seenLTime"):
					if c.curVar != "" {
						return nil, fmt.Errorf("a second clock-dependent local %q", lhs)
					}
					c.curVar = lhs
					out = append(out, bhStmt{kind: "setCur", e: e})
				default:
					c.env[lhs] = e // a pure local: inlined
				}
			case x.Tok == token.ASSIGN && c.seenVar != "" && lhs == c.seenVar+"."+c.items:
				item := c.itemVar
				if !c.isUE {
					item = c.msg + ".ID"
				}
				if item == "" || rhs != "append("+c.seenVar+"."+c.items+", "+item+")" {
					return nil, fmt.Errorf("unsupported append %q", src)
				}
				emit("other", ".append")
			default:
				return nil, fmt.Errorf("unsupported assignment %q", src)
			}
		case *ast.IfStmt:
			if x.Init != nil {
				return nil, fmt.Errorf("unsupported if with init %q", exprString(x.Cond))
			}
			cs := exprString(x.Cond)
			switch {
			case x.Else != nil:
				if c.seenVar == "" {
					return nil, fmt.Errorf("if/else before the buffer slot is read")
				}
				raw, err := c.cond(x.Cond)
				if err != nil {
					return nil, err
				}
				els, ok := x.Else.(*ast.BlockStmt)
				if !ok {
					return nil, fmt.Errorf("unsupported else-if after %q", cs)
				}
				var same *irC
				dup, derr := c.dupTest(x.Body)
				newSeen, store, ferr := c.freshBranch(els)
				if derr == nil && ferr == nil {
					same = normC(raw)
				} else {
					// the other way round: if !same { fresh } else { duplicate test }
					dup2, derr2 := c.dupTest(els)
					newSeen2, store2, ferr2 := c.freshBranch(x.Body)
					if derr2 != nil || ferr2 != nil {
						if derr != nil {
							return nil, derr
						}
						return nil, ferr
					}
					dup, newSeen, store = dup2, newSeen2, store2
					same = normC(&irC{op: "not", ca: raw})
				}
				emit("other", fmt.Sprintf(".lookup %s %s %s %s", same, dup, newSeen, store))
			case cs == c.recv+".config.EventCh != nil" || cs == "nil != "+c.recv+".config.EventCh":
				if len(x.Body.List) != 1 {
					return nil, fmt.Errorf("unsupported delivery block")
				}
				snd, ok := x.Body.List[0].(*ast.SendStmt)
				if !ok || exprString(snd.Chan) != c.recv+".config.EventCh" {
					return nil, fmt.Errorf("unsupported delivery %q", exprString(x.Body.List[0]))
				}
				typ, f := compositeFields(snd.Value)
				want := map[string]string{"LTime": c.msg + ".LTime", "Name": c.msg + ".Name", "Payload": c.msg + ".Payload"}
				wantTyp := "UserEvent"
				if !c.isUE {
					wantTyp = "Query"
					want["id"] = c.msg + ".ID"
				}
				if typ != wantTyp {
					return nil, fmt.Errorf("delivery of a %q", typ)
				}
				for k, v := range want {
					if f[k] != v {
						return nil, fmt.Errorf("delivered field %s is %q, not %q", k, f[k], v)
					}
				}
				emit("other", ".deliver")
			case !c.isUE && cs == "!"+c.recv+".shouldProcessQuery("+c.msg+".Filters)":
				if !c.bodyReturns(x.Body, c.rbVar) {
					return nil, fmt.Errorf("unsupported unselected branch")
				}
				emit("other", ".retRebroadcastIfNotSelected")
			case !c.isUE && cs == c.msg+".Ack()":
				body := exprString(x.Body)
				if !strings.Contains(body, c.recv+".memberlist.SendToAddress(") || !strings.Contains(body, "Flags: queryFlagAck") ||
					!strings.Contains(body, "LTime: "+c.msg+".LTime") || !strings.Contains(body, "ID: "+c.msg+".ID") ||
					!strings.Contains(body, "From: "+c.recv+".config.NodeName") || strings.Contains(body, "return") {
					return nil, fmt.Errorf("unsupported ack block")
				}
				emit("other", ".ackIf")
			case c.bodyReturns(x.Body, "false"):
				cd, err := c.cond(x.Cond)
				if err != nil {
					return nil, err
				}
				for _, part := range splitOr(normC(cd)) {
					out = append(out, bhStmt{kind: "retFalseIf", c: part})
				}
			default:
				return nil, fmt.Errorf("unsupported if %q", cs)
			}
		case *ast.ReturnStmt:
			switch {
			case isReturn(st, "true"):
				emit("other", ".ret true")
			case isReturn(st, "false"):
				emit("other", ".ret false")
			case !c.isUE && isReturn(st, c.rbVar):
				emit("other", ".retRebroadcast")
			default:
				return nil, fmt.Errorf("unsupported return %q", src)
			}
		default:
			return nil, fmt.Errorf("unsupported statement %q", src)
		}
	}
	// canonical form, step 1: the clock is read once. When every witness precedes every
	// read of the clock, `clock.Time()` in a guard or in the index is the same value as a
	// local defined as `clock.Time()` right after the last witness: introduce that local
	// (if the source has none) and use it everywhere.
	lastWitness, firstRead, hasPlainCur := -1, -1, false
	for i, st := range out {
		switch {
		case st.kind == "witness":
			lastWitness = i
		case st.kind == "setCur":
			if st.e.String() == ".clockTime" {
				hasPlainCur = true
			}
			if firstRead < 0 {
				firstRead = i
			}
		case st.e.mentions("clockTime") || st.c.mentions("clockTime"):
			if firstRead < 0 {
				firstRead = i
			}
		}
	}
	if firstRead > lastWitness && (hasPlainCur || c.curVar == "") {
		var o2 []bhStmt
		for i, st := range out {
			if st.kind == "setCur" && st.e.String() == ".clockTime" {
				continue
			}
			if st.kind != "setCur" {
				st.e, st.c = substE(st.e, "clockTime", "cur"), substC(st.c, "clockTime", "cur")
			}
			o2 = append(o2, st)
			if i == lastWitness {
				o2 = append(o2, bhStmt{kind: "setCur", e: &irE{op: "clockTime"}})
			}
		}
		if lastWitness < 0 {
			o2 = append([]bhStmt{{kind: "setCur", e: &irE{op: "clockTime"}}}, o2...)
		}
		out = o2
	}
	// step 2: the pure definitions of curTime / idx move up past the guards (which change
	// nothing) to just after the witness; curTime before idx.
	for i := range out {
		if out[i].kind != "setCur" && out[i].kind != "setIdx" {
			continue
		}
		for j := i; j > 0; j-- {
			p := out[j-1]
			up := p.kind == "retFalseIf" && !(out[j].kind == "setCur" && p.usesCur())
			if out[j].kind == "setCur" && p.kind == "setIdx" && !p.usesCur() {
				up = true
			}
			if !up {
				break
			}
			out[j-1], out[j] = out[j], out[j-1]
		}
	}
	var txt []string
	for _, s := range out {
		txt = append(txt, s.render())
	}
	return txt, nil
}

func genBufHandler(repo string) (string, error) {
	_, f, err := parseFile(repo + "/serf/serf.go")
	if err != nil {
		return "", err
	}
	var b strings.Builder
	b.WriteString("-- GENERATED by /verif/extract from /repo/serf/serf.go (handleUserEvent, handleQuery bodies) — do not edit.\n")
	b.WriteString("-- Canonical form: see extract/bufhandler.go (names by role, oriented comparisons, hoisted pure definitions).\n")
	b.WriteString("import SerfModel.Model.BufHandlerIR\nnamespace SerfModel.Gen.BufHandler\nopen SerfModel.BufHandlerIR\n\n")
	for _, c := range []*bhCtx{
		{clock: "eventClock", minT: "eventMinTime", buffer: "eventBuffer", lock: "eventLock", items: "Events", isUE: true},
		{clock: "queryClock", minT: "queryMinTime", buffer: "queryBuffer", lock: "queryLock", items: "QueryIDs"},
	} {
		name := "handleQuery"
		if c.isUE {
			name = "handleUserEvent"
		}
		fd := findFunc(f, "Serf", name)
		if fd == nil || fd.Body == nil || fd.Recv == nil || len(fd.Recv.List[0].Names) != 1 ||
			len(fd.Type.Params.List) != 1 || len(fd.Type.Params.List[0].Names) != 1 {
			return "", fmt.Errorf("%s: function not found or unexpected signature", name)
		}
		c.file = f
		c.env = map[string]*irE{}
		c.recv = fd.Recv.List[0].Names[0].Name
		c.msg = fd.Type.Params.List[0].Names[0].Name
		stmts, err := c.translate(fd)
		if err != nil {
			return "", fmt.Errorf("%s: %v", name, err)
		}
		fmt.Fprintf(&b, "def %s : Body := [\n  %s]\n\n", name, strings.Join(stmts, ",\n  "))
	}
	b.WriteString("end SerfModel.Gen.BufHandler\n")
	return b.String(), nil
}

func init() { addGen("BufHandler", genBufHandler) }
