package main

import (
	"fmt"
	"go/ast"
	"go/token"
	"strings"
)

// BufHandler: the bodies of Serf.handleUserEvent and Serf.handleQuery
// (serf/serf.go) translated statement by statement into the IR of
// lean/SerfModel/Model/BufHandlerIR.lean: guard expressions, the definition of
// curTime, the slot index, the same-time test, the duplicate test, the else
// branch, the append, the delivery, the return values, and their order.
// Lock calls, log lines and metrics calls are skipped (Gen/BufLocks covers the
// lock region). Every other statement shape is an error.

type bhCtx struct {
	recv   string // receiver name ("s")
	msg    string // parameter name ("eventMsg" / "query")
	clock  string // "eventClock" / "queryClock"
	minT   string // "eventMinTime" / "queryMinTime"
	buffer string // "eventBuffer" / "queryBuffer"
	lock   string // "eventLock" / "queryLock"
	items  string // "Events" / "QueryIDs"
	isUE   bool
}

func (c *bhCtx) expr(e ast.Expr) (string, error) {
	src := exprString(e)
	switch src {
	case c.msg + ".LTime":
		return ".ltime", nil
	case c.recv + "." + c.minT:
		return ".minTime", nil
	case "curTime":
		return ".cur", nil
	case c.recv + "." + c.clock + ".Time()":
		return ".clockTime", nil
	case "LamportTime(len(" + c.recv + "." + c.buffer + "))":
		return ".lenN", nil
	case "seen.LTime":
		return ".seenLTime", nil
	}
	switch x := e.(type) {
	case *ast.ParenExpr:
		return c.expr(x.X)
	case *ast.BasicLit:
		if x.Kind == token.INT {
			var n uint64
			if _, err := fmt.Sscan(x.Value, &n); err == nil {
				return fmt.Sprintf("(.lit %d)", n), nil
			}
		}
	case *ast.BinaryExpr:
		op := map[token.Token]string{token.SUB: "sub", token.ADD: "add", token.REM: "mod"}[x.Op]
		if op != "" {
			a, err := c.expr(x.X)
			if err != nil {
				return "", err
			}
			b, err := c.expr(x.Y)
			if err != nil {
				return "", err
			}
			return fmt.Sprintf("(.%s %s %s)", op, a, b), nil
		}
	}
	return "", fmt.Errorf("unsupported expression %q", src)
}

func (c *bhCtx) cond(e ast.Expr) (string, error) {
	src := exprString(e)
	switch src {
	case "seen != nil":
		return ".seenNotNil", nil
	case "seen == nil":
		return ".seenNil", nil
	}
	switch x := e.(type) {
	case *ast.ParenExpr:
		return c.cond(x.X)
	case *ast.UnaryExpr:
		if x.Op == token.NOT {
			a, err := c.cond(x.X)
			if err != nil {
				return "", err
			}
			return fmt.Sprintf("(.not %s)", a), nil
		}
	case *ast.BinaryExpr:
		if x.Op == token.LAND || x.Op == token.LOR {
			a, err := c.cond(x.X)
			if err != nil {
				return "", err
			}
			b, err := c.cond(x.Y)
			if err != nil {
				return "", err
			}
			return fmt.Sprintf("(.%s %s %s)", map[token.Token]string{token.LAND: "and", token.LOR: "or"}[x.Op], a, b), nil
		}
		op := map[token.Token]string{token.LSS: "lt", token.LEQ: "le", token.GTR: "gt", token.GEQ: "ge", token.EQL: "eq", token.NEQ: "ne"}[x.Op]
		if op != "" {
			a, err := c.expr(x.X)
			if err != nil {
				return "", err
			}
			b, err := c.expr(x.Y)
			if err != nil {
				return "", err
			}
			return fmt.Sprintf("(.%s %s %s)", op, a, b), nil
		}
	}
	return "", fmt.Errorf("unsupported condition %q", src)
}

// isNoise: statements without effect on the modelled state (log lines, metrics).
func (c *bhCtx) isNoise(st ast.Stmt) bool {
	es, ok := st.(*ast.ExprStmt)
	if !ok {
		return false
	}
	src := exprString(es.X)
	return strings.HasPrefix(src, c.recv+".logger.Printf(") || strings.HasPrefix(src, "metrics.")
}

func isReturn(st ast.Stmt, what string) bool {
	r, ok := st.(*ast.ReturnStmt)
	return ok && len(r.Results) == 1 && exprString(r.Results[0]) == what
}

// bodyReturns: the block consists of noise and ends with `return <what>`.
func (c *bhCtx) bodyReturns(b *ast.BlockStmt, what string) bool {
	if b == nil || len(b.List) == 0 || !isReturn(b.List[len(b.List)-1], what) {
		return false
	}
	for _, st := range b.List[:len(b.List)-1] {
		if !c.isNoise(st) {
			return false
		}
	}
	return true
}

// dupTest recognises the body of the same-time branch.
func (c *bhCtx) dupTest(b *ast.BlockStmt) (string, error) {
	if len(b.List) != 1 {
		return "", fmt.Errorf("same-time branch has %d statements", len(b.List))
	}
	switch st := b.List[0].(type) {
	case *ast.RangeStmt:
		// for _, previous := range seen.Events { if previous.Equals(&userEvent) { return false } }
		if exprString(st.X) != "seen."+c.items || st.Value == nil || len(st.Body.List) != 1 {
			return "", fmt.Errorf("unsupported duplicate loop %q", exprString(st))
		}
		v := exprString(st.Value)
		in, ok := st.Body.List[0].(*ast.IfStmt)
		if !ok || in.Else != nil || in.Init != nil || exprString(in.Cond) != v+".Equals(&userEvent)" || !c.bodyReturns(in.Body, "false") {
			return "", fmt.Errorf("unsupported duplicate test %q", exprString(st.Body))
		}
		return ".equalsLoop", nil
	case *ast.IfStmt:
		// if slices.Contains(seen.QueryIDs, query.ID) { return false }
		if st.Else != nil || st.Init != nil || exprString(st.Cond) != "slices.Contains(seen."+c.items+", "+c.msg+".ID)" || !c.bodyReturns(st.Body, "false") {
			return "", fmt.Errorf("unsupported duplicate test %q", exprString(st.Cond))
		}
		return ".containsItem", nil
	}
	return "", fmt.Errorf("unsupported duplicate test %q", exprString(b.List[0]))
}

// compositeFields returns the key → value sources of a (possibly &-prefixed) composite literal.
func compositeFields(e ast.Expr) (string, map[string]string) {
	if u, ok := e.(*ast.UnaryExpr); ok && u.Op == token.AND {
		e = u.X
	}
	cl, ok := e.(*ast.CompositeLit)
	if !ok {
		return "", nil
	}
	m := map[string]string{}
	for _, el := range cl.Elts {
		if kv, ok := el.(*ast.KeyValueExpr); ok {
			m[exprString(kv.Key)] = exprString(kv.Value)
		}
	}
	return exprString(cl.Type), m
}

func (c *bhCtx) translate(fd *ast.FuncDecl) ([]string, error) {
	var out []string
	for _, st := range fd.Body.List {
		if c.isNoise(st) {
			continue
		}
		src := exprString(st)
		switch x := st.(type) {
		case *ast.DeferStmt:
			if exprString(x.Call) == c.recv+"."+c.lock+".Unlock()" {
				continue
			}
			return nil, fmt.Errorf("unsupported defer %q", src)
		case *ast.ExprStmt:
			if src == c.recv+"."+c.lock+".Lock()" {
				continue
			}
			call, ok := x.X.(*ast.CallExpr)
			if ok && exprString(call.Fun) == c.recv+"."+c.clock+".Witness" && len(call.Args) == 1 {
				e, err := c.expr(call.Args[0])
				if err != nil {
					return nil, err
				}
				out = append(out, ".witness "+e)
				continue
			}
			return nil, fmt.Errorf("unsupported statement %q", src)
		case *ast.AssignStmt:
			if len(x.Lhs) != 1 || len(x.Rhs) != 1 {
				return nil, fmt.Errorf("unsupported assignment %q", src)
			}
			lhs, rhs := exprString(x.Lhs[0]), exprString(x.Rhs[0])
			switch {
			case x.Tok == token.DEFINE && lhs == "curTime":
				e, err := c.expr(x.Rhs[0])
				if err != nil {
					return nil, err
				}
				out = append(out, ".setCur "+e)
			case x.Tok == token.DEFINE && lhs == "idx":
				e, err := c.expr(x.Rhs[0])
				if err != nil {
					return nil, err
				}
				out = append(out, ".setIdx "+e)
			case x.Tok == token.DEFINE && lhs == "seen" && rhs == c.recv+"."+c.buffer+"[idx]":
				out = append(out, ".loadSeen")
			case x.Tok == token.DEFINE && lhs == "userEvent" && c.isUE:
				_, f := compositeFields(x.Rhs[0])
				if f == nil || len(f) != 2 || f["Name"] != c.msg+".Name" || f["Payload"] != c.msg+".Payload" {
					return nil, fmt.Errorf("unsupported item construction %q", src)
				}
			case x.Tok == token.DEFINE && lhs == "rebroadcast" && !c.isUE:
				switch rhs {
				case "!" + c.msg + ".NoBroadcast()":
					out = append(out, ".setRebroadcast true")
				case c.msg + ".NoBroadcast()":
					out = append(out, ".setRebroadcast false")
				default:
					return nil, fmt.Errorf("unsupported rebroadcast definition %q", src)
				}
			case x.Tok == token.ASSIGN && lhs == "seen."+c.items:
				item := "userEvent"
				if !c.isUE {
					item = c.msg + ".ID"
				}
				if rhs != "append(seen."+c.items+", "+item+")" {
					return nil, fmt.Errorf("unsupported append %q", src)
				}
				out = append(out, ".append")
			default:
				return nil, fmt.Errorf("unsupported assignment %q", src)
			}
		case *ast.IfStmt:
			if x.Init != nil {
				return nil, fmt.Errorf("unsupported if with init %q", exprString(x.Cond))
			}
			cs := exprString(x.Cond)
			switch {
			case x.Else != nil:
				same, err := c.cond(x.Cond)
				if err != nil {
					return nil, err
				}
				dup, err := c.dupTest(x.Body)
				if err != nil {
					return nil, err
				}
				els, ok := x.Else.(*ast.BlockStmt)
				if !ok {
					return nil, fmt.Errorf("unsupported else-if after %q", cs)
				}
				newSeen, store := "none", "false"
				for _, es := range els.List {
					as, ok := es.(*ast.AssignStmt)
					if !ok || as.Tok != token.ASSIGN || len(as.Lhs) != 1 || len(as.Rhs) != 1 {
						return nil, fmt.Errorf("unsupported else statement %q", exprString(es))
					}
					l := exprString(as.Lhs[0])
					switch {
					case l == "seen" && store == "false" && newSeen == "none":
						_, f := compositeFields(as.Rhs[0])
						if f == nil || len(f) != 1 {
							return nil, fmt.Errorf("unsupported fresh record %q", exprString(es))
						}
						var lte ast.Expr
						if u, ok := as.Rhs[0].(*ast.UnaryExpr); ok {
							if cl, ok := u.X.(*ast.CompositeLit); ok && len(cl.Elts) == 1 {
								if kv, ok := cl.Elts[0].(*ast.KeyValueExpr); ok && exprString(kv.Key) == "LTime" {
									lte = kv.Value
								}
							}
						}
						if lte == nil {
							return nil, fmt.Errorf("unsupported fresh record %q", exprString(es))
						}
						e, err := c.expr(lte)
						if err != nil {
							return nil, err
						}
						newSeen = "(some " + e + ")"
					case l == c.recv+"."+c.buffer+"[idx]" && exprString(as.Rhs[0]) == "seen" && store == "false":
						store = "true"
					default:
						return nil, fmt.Errorf("unsupported else statement %q", exprString(es))
					}
				}
				out = append(out, fmt.Sprintf(".lookup %s %s %s %s", same, dup, newSeen, store))
			case cs == c.recv+".config.EventCh != nil":
				if len(x.Body.List) != 1 {
					return nil, fmt.Errorf("unsupported delivery block")
				}
				snd, ok := x.Body.List[0].(*ast.SendStmt)
				if !ok || exprString(snd.Chan) != c.recv+".config.EventCh" {
					return nil, fmt.Errorf("unsupported delivery %q", exprString(x.Body.List[0]))
				}
				typ, f := compositeFields(snd.Value)
				want := map[string]string{"LTime": c.msg + ".LTime", "Name": c.msg + ".Name", "Payload": c.msg + ".Payload"}
				wantTyp := "UserEvent"
				if !c.isUE {
					wantTyp = "Query"
					want["id"] = c.msg + ".ID"
				}
				if typ != wantTyp {
					return nil, fmt.Errorf("delivery of a %q", typ)
				}
				for k, v := range want {
					if f[k] != v {
						return nil, fmt.Errorf("delivered field %s is %q, not %q", k, f[k], v)
					}
				}
				out = append(out, ".deliver")
			case !c.isUE && cs == "!"+c.recv+".shouldProcessQuery("+c.msg+".Filters)":
				if !c.bodyReturns(x.Body, "rebroadcast") {
					return nil, fmt.Errorf("unsupported unselected branch")
				}
				out = append(out, ".retRebroadcastIfNotSelected")
			case !c.isUE && cs == c.msg+".Ack()":
				body := exprString(x.Body)
				if !strings.Contains(body, c.recv+".memberlist.SendToAddress(addr, raw)") || !strings.Contains(body, "Flags: queryFlagAck") ||
					!strings.Contains(body, "LTime: "+c.msg+".LTime") || !strings.Contains(body, "ID: "+c.msg+".ID") ||
					!strings.Contains(body, "From: "+c.recv+".config.NodeName") || strings.Contains(body, "return") {
					return nil, fmt.Errorf("unsupported ack block")
				}
				out = append(out, ".ackIf")
			case c.bodyReturns(x.Body, "false"):
				cd, err := c.cond(x.Cond)
				if err != nil {
					return nil, err
				}
				out = append(out, ".retFalseIf "+cd)
			default:
				return nil, fmt.Errorf("unsupported if %q", cs)
			}
		case *ast.ReturnStmt:
			switch {
			case isReturn(st, "true"):
				out = append(out, ".ret true")
			case isReturn(st, "false"):
				out = append(out, ".ret false")
			case isReturn(st, "rebroadcast") && !c.isUE:
				out = append(out, ".retRebroadcast")
			default:
				return nil, fmt.Errorf("unsupported return %q", src)
			}
		default:
			return nil, fmt.Errorf("unsupported statement %q", src)
		}
	}
	return out, nil
}

func genBufHandler(repo string) (string, error) {
	_, f, err := parseFile(repo + "/serf/serf.go")
	if err != nil {
		return "", err
	}
	var b strings.Builder
	b.WriteString("-- GENERATED by /verif/extract from /repo/serf/serf.go (handleUserEvent, handleQuery bodies) — do not edit.\n")
	b.WriteString("import SerfModel.Model.BufHandlerIR\nnamespace SerfModel.Gen.BufHandler\nopen SerfModel.BufHandlerIR\n\n")
	for _, c := range []*bhCtx{
		{clock: "eventClock", minT: "eventMinTime", buffer: "eventBuffer", lock: "eventLock", items: "Events", isUE: true},
		{clock: "queryClock", minT: "queryMinTime", buffer: "queryBuffer", lock: "queryLock", items: "QueryIDs"},
	} {
		name := "handleQuery"
		if c.isUE {
			name = "handleUserEvent"
		}
		fd := findFunc(f, "Serf", name)
		if fd == nil || fd.Body == nil || fd.Recv == nil || len(fd.Recv.List[0].Names) != 1 ||
			len(fd.Type.Params.List) != 1 || len(fd.Type.Params.List[0].Names) != 1 {
			return "", fmt.Errorf("%s: function not found or unexpected signature", name)
		}
		c.recv = fd.Recv.List[0].Names[0].Name
		c.msg = fd.Type.Params.List[0].Names[0].Name
		stmts, err := c.translate(fd)
		if err != nil {
			return "", fmt.Errorf("%s: %v", name, err)
		}
		fmt.Fprintf(&b, "def %s : Body := [\n  %s]\n\n", name, strings.Join(stmts, ",\n  "))
	}
	b.WriteString("end SerfModel.Gen.BufHandler\n")
	return b.String(), nil
}

func init() { addGen("BufHandler", genBufHandler) }
