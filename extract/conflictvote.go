package main

import (
	"fmt"
	"go/ast"
	"go/token"
	"strings"
)

// Gen/ConflictVote.lean: the vote of serf/serf.go resolveNodeConflict.
//   * the statements of the `for r := range respCh` body, classified, in order
//     (typeCheck, declMember, decode, countResponse, countMatching) — in particular
//     `var member Member` is declared INSIDE the loop (a fresh decode target per reply)
//     and `responses++` comes after the decode;
//   * `majority := …` translated to a Lean function of `responses`;
//   * the comparison under which the node survives, and what follows it (Shutdown);
//   * the value of messageConflictResponseType (iota block of messages.go).
// Unsupported shapes are an error.

// squash prints a node on one line, comments removed.
func squash(n ast.Node) string {
	var keep []string
	for _, l := range strings.Split(exprString(n), "\n") {
		if i := strings.Index(l, "//"); i >= 0 {
			l = l[:i]
		}
		keep = append(keep, l)
	}
	return strings.Join(strings.Fields(strings.Join(keep, " ")), " ")
}

func bodyHas(b *ast.BlockStmt, what string) bool {
	found := false
	ast.Inspect(b, func(n ast.Node) bool {
		if br, ok := n.(*ast.BranchStmt); ok && what == "continue" && br.Tok == token.CONTINUE {
			found = true
		}
		if _, ok := n.(*ast.ReturnStmt); ok && what == "return" {
			found = true
		}
		return true
	})
	return found
}

// cvArith translates an int expression over `responses` (+, /, literals) to Lean (Nat; Go's / on non-negative ints).
func cvArith(e ast.Expr, v string) (string, error) {
	switch x := e.(type) {
	case *ast.ParenExpr:
		return cvArith(x.X, v)
	case *ast.Ident:
		if x.Name == v {
			return v, nil
		}
	case *ast.BasicLit:
		if x.Kind == token.INT {
			return x.Value, nil
		}
	case *ast.BinaryExpr:
		if x.Op == token.ADD || x.Op == token.QUO || x.Op == token.MUL {
			a, err := cvArith(x.X, v)
			if err != nil {
				return "", err
			}
			b, err := cvArith(x.Y, v)
			if err != nil {
				return "", err
			}
			return "(" + a + " " + x.Op.String() + " " + b + ")", nil
		}
	}
	return "", fmt.Errorf("resolveNodeConflict: unsupported arithmetic %s", exprString(e))
}

func messageTypeValue(repo, name string) (int, error) {
	_, f, err := parseFile(repo + "/serf/messages.go")
	if err != nil {
		return 0, err
	}
	for _, d := range f.Decls {
		gd, ok := d.(*ast.GenDecl)
		if !ok || gd.Tok != token.CONST || len(gd.Specs) == 0 {
			continue
		}
		first := gd.Specs[0].(*ast.ValueSpec)
		if id, ok := first.Type.(*ast.Ident); !ok || id.Name != "messageType" || len(first.Values) != 1 || exprString(first.Values[0]) != "iota" {
			continue
		}
		for i, sp := range gd.Specs {
			vs := sp.(*ast.ValueSpec)
			if i > 0 && (vs.Type != nil || len(vs.Values) != 0) {
				return 0, fmt.Errorf("messageType const block is not a plain iota block")
			}
			if len(vs.Names) == 1 && vs.Names[0].Name == name {
				return i, nil
			}
		}
	}
	return 0, fmt.Errorf("%s not found in the messageType block", name)
}

func genConflictVote(repo string) (string, error) {
	_, f, err := parseFile(repo + "/serf/serf.go")
	if err != nil {
		return "", err
	}
	fd := findFunc(f, "Serf", "resolveNodeConflict")
	if fd == nil {
		return "", fmt.Errorf("(Serf).resolveNodeConflict not found")
	}
	tv, err := messageTypeValue(repo, "messageConflictResponseType")
	if err != nil {
		return "", err
	}
	// canonical names (receiver, the local node, the response channel, the loop variable, the decode target),
	// so that a renaming does not change the facts; trivial same-file helpers are inlined one level
	ren := map[string]string{}
	if rn := recvName(fd); rn != "" {
		ren[rn] = "s"
	}
	ast.Inspect(fd.Body, func(n ast.Node) bool {
		switch x := n.(type) {
		case *ast.AssignStmt:
			if len(x.Lhs) == 1 && len(x.Rhs) == 1 && x.Tok == token.DEFINE {
				if id, ok := x.Lhs[0].(*ast.Ident); ok {
					r := squash(x.Rhs[0])
					if strings.HasSuffix(r, ".memberlist.LocalNode()") {
						ren[id.Name] = "local"
					}
					if strings.HasSuffix(r, ".ResponseCh()") {
						ren[id.Name] = "respCh"
					}
				}
			}
		case *ast.RangeStmt:
			if id, ok := x.Key.(*ast.Ident); ok && x.Value == nil && x.Tok == token.DEFINE {
				if xid, ok := x.X.(*ast.Ident); ok && (xid.Name == "respCh" || ren[xid.Name] == "respCh") {
					ren[id.Name] = "r"
				}
			}
		case *ast.ValueSpec:
			if x.Type != nil && squash(x.Type) == "Member" && len(x.Names) == 1 {
				ren[x.Names[0].Name] = "member"
			}
		}
		return true
	})
	renameIdentsQ(fd.Body, ren)
	if fd.Body.List, err = inlineHelpers(f, fd.Body.List); err != nil {
		return "", err
	}
	for _, st := range fd.Body.List {
		if rs, ok := st.(*ast.RangeStmt); ok {
			if rs.Body.List, err = inlineHelpers(f, rs.Body.List); err != nil {
				return "", err
			}
		}
	}
	var loop *ast.RangeStmt
	loopIdx := -1
	countersInt := false
	memberOutside := false
	for i, s := range fd.Body.List {
		if rs, ok := s.(*ast.RangeStmt); ok {
			if loop != nil {
				return "", fmt.Errorf("resolveNodeConflict: two range loops")
			}
			loop, loopIdx = rs, i
		}
		if ds, ok := s.(*ast.DeclStmt); ok {
			t := squash(ds)
			if t == "var responses, matching int" {
				countersInt = true
			}
			if strings.HasSuffix(t, "var member Member") {
				memberOutside = true
			}
		}
	}
	if loop == nil || !countersInt {
		return "", fmt.Errorf("resolveNodeConflict: `var responses, matching int` (%v) / range loop (%v) not found", countersInt, loop != nil)
	}
	if squash(loop.X) != "respCh" || squash(loop.Key) != "r" {
		return "", fmt.Errorf("resolveNodeConflict: the loop is not `for r := range respCh`")
	}
	var order []string
	matchTest := ""
	fresh := false
	for _, s := range loop.Body.List {
		t := squash(s)
		switch x := s.(type) {
		case *ast.IfStmt:
			c := strings.Replace(squash(x.Cond), "len(r.Payload) == 0", "len(r.Payload) < 1", 1)
			switch {
			case x.Init == nil && c == "len(r.Payload) < 1 || messageType(r.Payload[0]) != messageConflictResponseType" && bodyHas(x.Body, "continue"):
				order = append(order, "typeCheck")
			case x.Init != nil && squash(x.Init) == "err := decodeMessage(r.Payload[1:], &member)" && c == "err != nil" && bodyHas(x.Body, "continue"):
				order = append(order, "decode")
			case x.Init == nil && x.Else == nil && len(x.Body.List) == 1 && squash(x.Body.List[0]) == "matching++":
				order = append(order, "countMatching")
				matchTest = c
			default:
				return "", fmt.Errorf("resolveNodeConflict: unsupported test in the loop: %s", t)
			}
		case *ast.DeclStmt:
			if !strings.HasSuffix(t, "var member Member") {
				return "", fmt.Errorf("resolveNodeConflict: unsupported declaration in the loop: %s", t)
			}
			order = append(order, "declMember")
			fresh = true
		case *ast.IncDecStmt:
			if t != "responses++" {
				return "", fmt.Errorf("resolveNodeConflict: unsupported statement in the loop: %s", t)
			}
			order = append(order, "countResponse")
		default:
			return "", fmt.Errorf("resolveNodeConflict: unsupported statement in the loop: %s", t)
		}
	}
	if !fresh && !memberOutside {
		return "", fmt.Errorf("resolveNodeConflict: declaration of member not found")
	}
	// after the loop: majority := …; if matching <op> majority { … return }; … s.Shutdown()
	majority, surviveOp := "", ""
	shutdownAfter := false
	for _, s := range fd.Body.List[loopIdx+1:] {
		switch x := s.(type) {
		case *ast.AssignStmt:
			if len(x.Lhs) == 1 && squash(x.Lhs[0]) == "majority" && x.Tok == token.DEFINE {
				majority, err = cvArith(x.Rhs[0], "responses")
				if err != nil {
					return "", err
				}
			}
		case *ast.IfStmt:
			if c, ok := x.Cond.(*ast.BinaryExpr); ok && squash(c.X) == "matching" && squash(c.Y) == "majority" && bodyHas(x.Body, "return") && majority != "" {
				surviveOp = c.Op.String()
			} else if strings.Contains(squash(x), "s.Shutdown()") && surviveOp != "" {
				shutdownAfter = true
			}
		}
	}
	if majority == "" || surviveOp == "" {
		return "", fmt.Errorf("resolveNodeConflict: `majority := …; if matching … majority { return }` not found")
	}
	var b strings.Builder
	b.WriteString("-- GENERATED by /verif/extract from serf/serf.go (resolveNodeConflict) and serf/messages.go — do not edit.\n")
	b.WriteString("import SerfModel.Model.Conflict\nnamespace SerfModel.Gen.ConflictVote\nopen SerfModel.Conflict\n\n")
	fmt.Fprintf(&b, "/-- messageConflictResponseType -/\ndef responseType : Nat := %d\n\n", tv)
	b.WriteString("def shape : VoteShape := { order := [")
	for i, o := range order {
		if i > 0 {
			b.WriteString(", ")
		}
		fmt.Fprintf(&b, "%q", o)
	}
	fmt.Fprintf(&b, "], memberFresh := %v, matchTest := %q, surviveOp := %q, shutdownAfter := %v }\n\n", fresh, matchTest, surviveOp, shutdownAfter)
	fmt.Fprintf(&b, "/-- `majority := …` -/\ndef majority (responses : Nat) : Nat := %s\n\nend SerfModel.Gen.ConflictVote\n", majority)
	return b.String(), nil
}

func init() { addGen("ConflictVote", genConflictVote) }
