package main

import (
	"fmt"
	"go/ast"
	"go/token"
	"strings"
)

// Gen/QueryLocks.lean: how serf/query.go's QueryResponse methods use closeLock.
//
// sendAck / sendResponse: the test of `closed` and the channel send must sit in ONE
// closeLock critical section — `r.closeLock.Lock()` first, `defer r.closeLock.Unlock()`
// second, `if r.closed { return … }` after that and before the send, the send (on
// r.ackCh / r.respCh) after the test, no other unlock, and no call of another method
// of the receiver (Finished(), Close(), … take closeLock themselves: a test made
// through them is made in a different critical section).
// Close: the same lock held over `if r.closed { return }`, `r.closed = true` and the
// close(...) of the channels.  The model's atomic actions are derived from these shapes.

type sendShape struct {
	lockFirst, deferred, earlyUnlock, closedTestInside, sendInside, callsOwnMethods bool
}

type closeShape struct {
	lockFirst, deferred, earlyUnlock, closedGuard, setsClosed, closesChannels bool
}

// isClosedReturn recognises `if r.closed { return … }`.
func isClosedReturn(st ast.Stmt, r string) bool {
	is, ok := st.(*ast.IfStmt)
	if !ok || is.Init != nil || is.Else != nil || exprString(is.Cond) != r+".closed" || len(is.Body.List) != 1 {
		return false
	}
	_, ok = is.Body.List[0].(*ast.ReturnStmt)
	return ok
}

// lockPrefix checks the first two statements; mu is the mutex expression text.
func lockPrefix(fd *ast.FuncDecl, r string) (mu string, lockFirst, deferred bool) {
	mu, lockFirst = firstLockOn(fd, r)
	if !lockFirst || mu != r+".closeLock" {
		return mu, false, false
	}
	if len(fd.Body.List) > 1 {
		if d, ok := fd.Body.List[1].(*ast.DeferStmt); ok {
			if mu2, m2, ok := callOn(d.Call); ok && mu2 == mu && m2 == "Unlock" {
				deferred = true
			}
		}
	}
	return mu, true, deferred
}

// scanBody walks statement i of the body and reports unlocks of mu, sends on r's channels, calls of r's own methods.
func scanStmt(st ast.Stmt, r, mu string) (unlock, send, ownCall bool) {
	ast.Inspect(st, func(n ast.Node) bool {
		switch x := n.(type) {
		case *ast.CallExpr:
			if mu2, m2, ok := callOn(x); ok && mu2 == mu && (m2 == "Unlock" || m2 == "RUnlock") {
				unlock = true
			}
			if sel, ok := x.Fun.(*ast.SelectorExpr); ok {
				if id, ok := sel.X.(*ast.Ident); ok && id.Name == r {
					ownCall = true // r.Method(...)
				}
			}
		case *ast.SendStmt:
			if t := exprString(x.Chan); t == r+".ackCh" || t == r+".respCh" {
				send = true
			}
		}
		return true
	})
	return
}

func extractSendShape(f *ast.File, name string) (sendShape, error) {
	var sh sendShape
	fd := findFunc(f, "QueryResponse", name)
	if fd == nil || fd.Body == nil {
		return sh, fmt.Errorf("(QueryResponse).%s not found", name)
	}
	r := recvName(fd)
	if r == "" {
		return sh, fmt.Errorf("(QueryResponse).%s has no named receiver", name)
	}
	mu, lf, df := lockPrefix(fd, r)
	if mu == "" {
		mu = r + ".closeLock"
	}
	sh.lockFirst, sh.deferred = lf, df
	tested := false
	nSends := 0
	for i, st := range fd.Body.List {
		if i == 0 && lf || i == 1 && df {
			continue
		}
		unlock, send, own := scanStmt(st, r, mu)
		if unlock {
			sh.earlyUnlock = true
		}
		if own {
			sh.callsOwnMethods = true
		}
		if lf && df && isClosedReturn(st, r) && nSends == 0 {
			tested = true
		}
		if send {
			nSends++
			if lf && df && tested {
				sh.sendInside = true
			}
		}
	}
	sh.closedTestInside = tested
	if nSends != 1 {
		return sh, fmt.Errorf("(QueryResponse).%s: expected exactly one statement sending on the result channel, found %d", name, nSends)
	}
	return sh, nil
}

func extractCloseShape(f *ast.File) (closeShape, error) {
	var sh closeShape
	fd := findFunc(f, "QueryResponse", "Close")
	if fd == nil || fd.Body == nil {
		return sh, fmt.Errorf("(QueryResponse).Close not found")
	}
	r := recvName(fd)
	mu, lf, df := lockPrefix(fd, r)
	if mu == "" {
		mu = r + ".closeLock"
	}
	sh.lockFirst, sh.deferred = lf, df
	closes := map[string]bool{}
	guardSeen := false
	for i, st := range fd.Body.List {
		if i == 0 && lf || i == 1 && df {
			continue
		}
		if unlock, _, _ := scanStmt(st, r, mu); unlock {
			sh.earlyUnlock = true
		}
		if isClosedReturn(st, r) && !sh.setsClosed && len(closes) == 0 {
			guardSeen = true
		}
		if as, ok := st.(*ast.AssignStmt); ok && as.Tok == token.ASSIGN && len(as.Lhs) == 1 &&
			exprString(as.Lhs[0]) == r+".closed" && exprString(as.Rhs[0]) == "true" {
			sh.setsClosed = lf && df
		}
		ast.Inspect(st, func(n ast.Node) bool {
			if c, ok := n.(*ast.CallExpr); ok {
				if id, ok := c.Fun.(*ast.Ident); ok && id.Name == "close" && len(c.Args) == 1 {
					closes[exprString(c.Args[0])] = true
				}
			}
			return true
		})
	}
	sh.closedGuard = guardSeen
	sh.closesChannels = lf && df && closes[r+".ackCh"] && closes[r+".respCh"] && len(closes) == 2
	return sh, nil
}

// ---- serf/serf.go: registerQueryResponse (registration + timer closure) and handleQueryResponse (step order)

type timerShape struct {
	regLocked, regStores, locked, deletes, closes, unconditional bool
	timerArg                                                     string
}

func extractTimerShape(f *ast.File) (timerShape, error) {
	var sh timerShape
	fd := findFunc(f, "Serf", "registerQueryResponse")
	if fd == nil || fd.Body == nil {
		return sh, fmt.Errorf("(Serf).registerQueryResponse not found")
	}
	msh := methodLockShape(fd)
	sh.regLocked = msh.lockCall == "Lock" && msh.deferred
	for _, st := range fd.Body.List {
		// an unlock at the top level of the method (the one inside the timer closure is the closure's own)
		if squash(st) == "s.queryLock.Unlock()" {
			sh.regLocked = false
		}
	}
	var lit *ast.FuncLit
	for _, st := range fd.Body.List {
		t := squash(st)
		if t == "s.queryResponse[resp.lTime] = resp" {
			sh.regStores = true
		}
		if es, ok := st.(*ast.ExprStmt); ok {
			if c, ok := es.X.(*ast.CallExpr); ok && squash(c.Fun) == "time.AfterFunc" && len(c.Args) == 2 {
				sh.timerArg = squash(c.Args[0])
				lit, _ = c.Args[1].(*ast.FuncLit)
			}
		}
	}
	if lit == nil {
		return sh, fmt.Errorf("registerQueryResponse: time.AfterFunc(timeout, func() {…}) not found")
	}
	var top []string
	sh.unconditional = true
	for _, st := range lit.Body.List {
		switch st.(type) {
		case *ast.ExprStmt, *ast.DeferStmt:
			top = append(top, squash(st))
		default:
			sh.unconditional = false // an if / return / loop: something in the closure is conditional
			ast.Inspect(st, func(n ast.Node) bool {
				if es, ok := n.(*ast.ExprStmt); ok {
					top = append(top, "?"+squash(es))
				}
				return true
			})
		}
	}
	has := func(x string) bool {
		for _, t := range top {
			if t == x {
				return true
			}
		}
		return false
	}
	n := len(top)
	sh.locked = n >= 2 && top[0] == "s.queryLock.Lock()" && (top[n-1] == "s.queryLock.Unlock()" || top[1] == "defer s.queryLock.Unlock()")
	sh.deletes = has("delete(s.queryResponse, resp.lTime)")
	sh.closes = has("resp.Close()")
	return sh, nil
}

// handleQueryResponse: classified top-level statements and the two branches.
func extractHandleOrder(f *ast.File) (order, ackBranch, respBranch []string, err error) {
	fd := findFunc(f, "Serf", "handleQueryResponse")
	if fd == nil || fd.Body == nil {
		return nil, nil, nil, fmt.Errorf("(Serf).handleQueryResponse not found")
	}
	returnsOnly := func(b *ast.BlockStmt) bool {
		if len(b.List) == 0 {
			return false
		}
		_, ok := b.List[len(b.List)-1].(*ast.ReturnStmt)
		return ok
	}
	branch := func(b *ast.BlockStmt, set, send string) ([]string, error) {
		var out []string
		for _, st := range b.List {
			t := squash(st)
			switch x := st.(type) {
			case *ast.IfStmt:
				if x.Init != nil && squash(x.Init) == "_, ok := query."+set+"[resp.From]" && squash(x.Cond) == "ok" && returnsOnly(x.Body) {
					out = append(out, "dupCheck:"+set)
				} else if squash(x.Cond) == "err != nil" {
					// logging of a dropped reply
				} else {
					return nil, fmt.Errorf("handleQueryResponse: unsupported test %s", t)
				}
			case *ast.AssignStmt:
				if strings.HasPrefix(t, "err := query."+send+"(") {
					out = append(out, send)
				} else {
					return nil, fmt.Errorf("handleQueryResponse: unsupported statement %s", t)
				}
			case *ast.ExprStmt:
				if !strings.HasPrefix(t, "metrics.") {
					return nil, fmt.Errorf("handleQueryResponse: unsupported call %s", t)
				}
			default:
				return nil, fmt.Errorf("handleQueryResponse: unsupported statement %s", t)
			}
		}
		return out, nil
	}
	for _, st := range fd.Body.List {
		t := squash(st)
		switch x := st.(type) {
		case *ast.ExprStmt:
			switch t {
			case "s.queryLock.RLock()":
				order = append(order, "rlock")
			case "s.queryLock.RUnlock()":
				order = append(order, "runlock")
			default:
				return nil, nil, nil, fmt.Errorf("handleQueryResponse: unsupported call %s", t)
			}
		case *ast.AssignStmt:
			if t != "query, ok := s.queryResponse[resp.LTime]" {
				return nil, nil, nil, fmt.Errorf("handleQueryResponse: unsupported statement %s", t)
			}
			order = append(order, "lookup")
		case *ast.IfStmt:
			c := squash(x.Cond)
			switch {
			case c == "!ok" && returnsOnly(x.Body):
				order = append(order, "missing")
			case c == "query.id != resp.ID" && returnsOnly(x.Body):
				order = append(order, "idCheck")
			case c == "query.Finished()" && returnsOnly(x.Body):
				order = append(order, "finished")
			case c == "resp.Ack()" && x.Else != nil:
				order = append(order, "dispatch")
				eb, ok := x.Else.(*ast.BlockStmt)
				if !ok {
					return nil, nil, nil, fmt.Errorf("handleQueryResponse: unsupported else")
				}
				if ackBranch, err = branch(x.Body, "acks", "sendAck"); err != nil {
					return nil, nil, nil, err
				}
				if respBranch, err = branch(eb, "responses", "sendResponse"); err != nil {
					return nil, nil, nil, err
				}
			default:
				return nil, nil, nil, fmt.Errorf("handleQueryResponse: unsupported test %s", t)
			}
		default:
			return nil, nil, nil, fmt.Errorf("handleQueryResponse: unsupported statement %s", t)
		}
	}
	return
}

func genQueryLocks(repo string) (string, error) {
	_, f, err := parseFile(repo + "/serf/query.go")
	if err != nil {
		return "", err
	}
	ack, err := extractSendShape(f, "sendAck")
	if err != nil {
		return "", err
	}
	resp, err := extractSendShape(f, "sendResponse")
	if err != nil {
		return "", err
	}
	cl, err := extractCloseShape(f)
	if err != nil {
		return "", err
	}
	fin := findFunc(f, "QueryResponse", "Finished")
	if fin == nil {
		return "", fmt.Errorf("(QueryResponse).Finished not found")
	}
	// Finished: closeLock taken first and held over the whole body (deferred Unlock, or the explicit
	// `Unlock(); return local` form, see methodLockShape)
	fmu, flf, _ := lockPrefix(fin, recvName(fin))
	fsh := methodLockShape(fin)
	fdf := flf && fmu == recvName(fin)+".closeLock" && fsh.lockCall == "Lock" && fsh.deferred && !fsh.earlyUnlock
	_, sf, err := parseFile(repo + "/serf/serf.go")
	if err != nil {
		return "", err
	}
	tm, err := extractTimerShape(sf)
	if err != nil {
		return "", err
	}
	order, ackB, respB, err := extractHandleOrder(sf)
	if err != nil {
		return "", err
	}
	ss := func(s sendShape) string {
		return fmt.Sprintf("{ lockFirst := %v, deferred := %v, earlyUnlock := %v, closedTestInside := %v, sendInside := %v, callsOwnMethods := %v }",
			s.lockFirst, s.deferred, s.earlyUnlock, s.closedTestInside, s.sendInside, s.callsOwnMethods)
	}
	var b strings.Builder
	b.WriteString("-- GENERATED by /verif/extract from serf/query.go (QueryResponse: sendAck, sendResponse, Close, Finished) and serf/serf.go (registerQueryResponse, handleQueryResponse) — do not edit.\n")
	b.WriteString("import SerfModel.Model.QueryRoute\nnamespace SerfModel.Gen.QueryLocks\nopen SerfModel.QueryRoute\n\n")
	fmt.Fprintf(&b, "def sendAck : SendShape := %s\n", ss(ack))
	fmt.Fprintf(&b, "def sendResponse : SendShape := %s\n", ss(resp))
	fmt.Fprintf(&b, "def close : CloseShape := { lockFirst := %v, deferred := %v, earlyUnlock := %v, closedGuard := %v, setsClosed := %v, closesChannels := %v }\n",
		cl.lockFirst, cl.deferred, cl.earlyUnlock, cl.closedGuard, cl.setsClosed, cl.closesChannels)
	fmt.Fprintf(&b, "/-- `Finished` reads `closed` under closeLock (Lock first, deferred Unlock) -/\ndef finishedLocked : Bool := %v\n\n", flf && fdf)
	fmt.Fprintf(&b, "/-- serf/serf.go registerQueryResponse: the registration and the closure handed to time.AfterFunc -/\ndef timer : TimerShape := { regLocked := %v, regStores := %v, timerArg := %q, locked := %v, deletes := %v, closes := %v, unconditional := %v }\n\n",
		tm.regLocked, tm.regStores, tm.timerArg, tm.locked, tm.deletes, tm.closes, tm.unconditional)
	fmt.Fprintf(&b, "/-- serf/serf.go handleQueryResponse: classified statements in order, and the two branches of the dispatch -/\ndef handle : HandleShape := { order := %s, ackBranch := %s, respBranch := %s }\n\n",
		leanStrList(order), leanStrList(ackB), leanStrList(respB))
	b.WriteString("def shapes : Shapes := { sendAck := sendAck, sendResponse := sendResponse, close := close, finishedLocked := finishedLocked, timer := timer, handle := handle }\n\nend SerfModel.Gen.QueryLocks\n")
	return b.String(), nil
}

func init() { addGen("QueryLocks", genQueryLocks) }
