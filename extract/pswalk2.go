package main

import (
	"fmt"
	"go/ast"
	"go/token"
	"sort"
	"strings"
)

// ---------------------------------------------------------------- expression scan

// scan lists the panic-capable sub-expressions of e under the current facts
// (short-circuit operators add their left operand to the facts of the right one).
func (w *psWalker) scan(e ast.Expr) {
	if e == nil {
		return
	}
	p := w.sh.p
	switch x := e.(type) {
	case *ast.ParenExpr:
		w.scan(x.X)
	case *ast.BinaryExpr:
		if x.Op == token.LAND || x.Op == token.LOR {
			w.scan(x.X)
			n := len(w.facts)
			c := w.cond(x.X)
			if x.Op == token.LOR {
				c = "¬ (" + c + ")"
			}
			w.add(c, "guard")
			w.scan(x.Y)
			w.facts = w.facts[:n]
			return
		}
		w.scan(x.X)
		w.scan(x.Y)
		if x.Op == token.QUO || x.Op == token.REM {
			k := p.kind(w.typeOf(x))
			if k == "float" {
				return
			}
			if _, lit := intLitValue(x.Y); lit {
				return
			}
			var sub []string
			d := w.term(x.Y, &sub)
			if isNumeral(d) && d != "0" {
				return
			}
			tag := ""
			if k != "int" {
				tag = " (operand type not resolved)"
			}
			w.emit("div", psExpr(x.Y), psExpr(x)+tag, "0 < "+d)
		}
	case *ast.UnaryExpr:
		w.scan(x.X)
	case *ast.StarExpr:
		w.scan(x.X)
		w.deref(x.X, psExpr(x))
	case *ast.SelectorExpr:
		w.scan(x.X)
		w.deref(x.X, psExpr(x))
	case *ast.IndexExpr:
		w.scan(x.X)
		w.scan(x.Index)
		k := p.kind(w.typeOf(x.X))
		if k == "map" {
			return
		}
		var sub []string
		i := w.term(x.Index, &sub)
		goal := i + " < " + w.lenOf(x.X)
		for _, s := range sub {
			goal = s + " ∧ " + goal
		}
		src := psExpr(x)
		if k != "slice" && k != "string" {
			src += " (container type not resolved)"
		}
		w.emit("index", psExpr(x.X)+"_"+psExpr(x.Index), src, goal)
	case *ast.SliceExpr:
		w.scan(x.X)
		w.scan(x.Low)
		w.scan(x.High)
		var sub []string
		lo, hi := "0", w.lenOf(x.X)
		if x.Low != nil {
			lo = w.term(x.Low, &sub)
		}
		if x.High != nil {
			hi = w.term(x.High, &sub)
		}
		goal := lo + " ≤ " + hi + " ∧ " + hi + " ≤ " + w.lenOf(x.X)
		for _, s := range sub {
			goal = s + " ∧ " + goal
		}
		w.emit("slice", psExpr(x.X)+"_"+psExpr(x.Low)+"_"+psExpr(x.High), psExpr(x), goal)
	case *ast.TypeAssertExpr:
		w.scan(x.X)
		if x.Type != nil {
			w.emit("assert", psExpr(x.X), psExpr(x), "v_dyn_"+strings.Trim(psSan.ReplaceAllString(w.canonExpr(x.X)+"_is_"+psExpr(x.Type), "_"), "_")+" = 1")
		}
	case *ast.CompositeLit:
		for _, el := range x.Elts {
			if kv, ok := el.(*ast.KeyValueExpr); ok {
				w.scan(kv.Value)
			} else {
				w.scan(el)
			}
		}
	case *ast.FuncLit:
		w.closure(x)
	case *ast.CallExpr:
		w.scanCall(x)
	}
}

// canonExpr renders an expression with the canonical names of locals (see canonKey).
func (w *psWalker) canonExpr(e ast.Expr) string {
	switch x := e.(type) {
	case *ast.Ident:
		return w.canonKey(x.Name)
	case *ast.SelectorExpr:
		return w.canonExpr(x.X) + "." + x.Sel.Name
	case *ast.CallExpr:
		return w.canonExpr(x.Fun)
	case *ast.ParenExpr:
		return w.canonExpr(x.X)
	case *ast.StarExpr:
		return w.canonExpr(x.X)
	}
	return psExpr(e)
}

func isNumeral(s string) bool {
	if s == "" {
		return false
	}
	for _, c := range s {
		if c < '0' || c > '9' {
			return false
		}
	}
	return true
}

func (w *psWalker) lenOf(e ast.Expr) string {
	if k := key(e); k != "" {
		return w.lv("len", k)
	}
	return w.opaque("t")
}

// deref: `v.f` / `*v` where v is a local that may hold a nil pointer.
func (w *psWalker) deref(x ast.Expr, src string) {
	id, ok := x.(*ast.Ident)
	if !ok || !w.nilable[id.Name] {
		return
	}
	// a dereference dominated by an earlier one of the same value needs no second obligation
	pv := w.lv("ptr", id.Name)
	if d, ok := w.derefDone[pv]; ok && d.n <= len(w.facts) && (d.n == 0 || w.facts[d.n-1] == d.last) {
		return
	}
	d := psDeref{n: len(w.facts)}
	if d.n > 0 {
		d.last = w.facts[d.n-1]
	}
	w.emit("deref", id.Name, src, "0 < "+pv)
	w.derefDone[pv] = d
}

type psDeref struct {
	n    int
	last psHyp
}

func (w *psWalker) closure(f *ast.FuncLit) {
	// runs later: nothing known about mutable state
	saved := w.facts
	w.facts = nil
	w.bumpAll()
	if f.Type.Params != nil {
		for _, fl := range f.Type.Params.List {
			for _, n := range fl.Names {
				w.types[n.Name] = psType{fl.Type, w.pkg}
			}
		}
	}
	w.block(f.Body.List)
	w.bumpAll()
	w.facts = saved
}

func (w *psWalker) scanCall(c *ast.CallExpr) {
	p := w.sh.p
	if id, ok := c.Fun.(*ast.Ident); ok && id.Name == "panic" {
		for _, a := range c.Args {
			w.scan(a)
		}
		w.emit("panic", "", psExpr(c), "False")
		return
	}
	if sel, ok := c.Fun.(*ast.SelectorExpr); ok {
		w.scan(sel.X)
		w.deref(sel.X, psExpr(sel))
	}
	for _, a := range c.Args {
		w.scan(a)
	}
	// library contract: rand.Intn(n) panics unless 0 < n
	if psExpr(c.Fun) == "rand.Intn" && len(c.Args) == 1 {
		w.emit("call", "rand_Intn", psExpr(c), "0 < "+w.term(c.Args[0], nil))
	}
	// a call through an in-package interface may reach any method of that name
	if sel, ok := c.Fun.(*ast.SelectorExpr); ok && w.calleeKey(c) == "" {
		if t := w.typeOf(sel.X); t.e != nil {
			if _, isIface := p.underlying(t).e.(*ast.InterfaceType); isIface {
				var ks []string
				for k := range p.funcs {
					parts := strings.Split(k, ".")
					if len(parts) == 3 && parts[0] == t.pkg && parts[2] == sel.Sel.Name {
						ks = append(ks, k)
					}
				}
				sort.Strings(ks)
				for _, k := range ks {
					w.sh.enqueue(k)
				}
			}
		}
	}
	// contract of the callee
	if ck := w.calleeKey(c); ck != "" {
		w.sh.enqueue(ck)
		if ct, ok := psContracts[ck]; ok && ct.requires != "" {
			fd := p.funcs[ck]
			goal := w.instantiate(ct.requires, fd, c)
			var extra []psHyp
			for _, a := range c.Args {
				if sel, ok := a.(*ast.SelectorExpr); ok && p.kind(w.typeOf(a)) == "map" {
					if sk := p.typeKey(w.typeOf(sel.X)); sk != "" {
						if why := fieldAlwaysMade(p, sk, sel.Sel.Name); why != "" {
							extra = append(extra, psHyp{prop: "0 < " + w.lv("ptr", key(a)), tag: "inv: " + why})
						}
					}
				}
			}
			w.emit("call", strings.SplitN(ck, ".", 2)[1], psExpr(c), goal, extra...)
		}
	}
	// arguments passed by address may be overwritten
	for _, a := range c.Args {
		if u, ok := a.(*ast.UnaryExpr); ok && u.Op == token.AND {
			w.bump(key(u.X))
		}
	}
}

// sendSite: a send on a closed channel panics.  The obligation is `v_closed_<ch> ≠ 1` (1 = closed); its hypotheses are
// (a) no close(…) of a channel of that name exists in the packages, or (b) the closed-flag protocol of
// QueryResponse (Close sets r.closed under closeLock before closing; the sender tests r.closed under the same lock).
func (w *psWalker) sendSite(x *ast.SendStmt) {
	k := key(x.Chan)
	if k == "" {
		w.emit("send", psExpr(x.Chan), psExpr(x.Chan)+" <- …", w.opaque("t")+" ≠ 1")
		return
	}
	last := k[strings.LastIndex(k, ".")+1:]
	cv := w.lv("v", "closed."+k)
	var extra []psHyp
	closers := chanClosers(w.sh.p, last)
	if len(closers) == 0 {
		extra = append(extra, psHyp{prop: cv + " ≠ 1", tag: "inv: no close(…" + last + ") exists in the serf and coordinate packages (the channel is never closed by the library)"})
	} else if sel, ok := x.Chan.(*ast.SelectorExpr); ok {
		rk := key(sel.X)
		if rk != "" && closedFlagProtocol(w.sh.p, w.fd, closers, psExpr(sel.X)) {
			extra = append(extra, psHyp{prop: cv + " = 1 → " + w.lv("v", rk+".closed") + " = 1",
				tag: "inv: every close(…" + last + ") is in a function that holds closeLock and sets .closed = true first; this send holds the same lock"})
		}
	}
	w.emit("send", psExpr(x.Chan), psExpr(x.Chan)+" <- …", cv+" ≠ 1", extra...)
}

// chanClosers: the functions that close a channel whose (last) name is `name`.
func chanClosers(p *psPkgs, name string) []*ast.FuncDecl {
	var out []*ast.FuncDecl
	var ks []string
	for k := range p.funcs {
		ks = append(ks, k)
	}
	sort.Strings(ks)
	for _, k := range ks {
		fd := p.funcs[k]
		if fd.Body == nil {
			continue
		}
		hit := false
		ast.Inspect(fd.Body, func(n ast.Node) bool {
			c, ok := n.(*ast.CallExpr)
			if !ok || len(c.Args) != 1 || psExpr(c.Fun) != "close" {
				return true
			}
			a := psExpr(c.Args[0])
			if a == name || strings.HasSuffix(a, "."+name) {
				hit = true
			}
			return true
		})
		if hit {
			out = append(out, fd)
		}
	}
	return out
}

// closedFlagProtocol: every closer locks <recv>.closeLock, assigns <recv>.closed = true and only then closes; the sender
// (the walked function) locks <recvExpr>.closeLock before anything else.
func closedFlagProtocol(p *psPkgs, sender *ast.FuncDecl, closers []*ast.FuncDecl, recvExpr string) bool {
	locksFirst := func(fd *ast.FuncDecl, recv string) bool {
		if len(fd.Body.List) == 0 {
			return false
		}
		es, ok := fd.Body.List[0].(*ast.ExprStmt)
		return ok && psExpr(es.X) == recv+".closeLock.Lock()"
	}
	if !locksFirst(sender, recvExpr) {
		return false
	}
	for _, fd := range closers {
		if fd.Recv == nil || len(fd.Recv.List) != 1 || len(fd.Recv.List[0].Names) != 1 {
			return false
		}
		r := fd.Recv.List[0].Names[0].Name
		if !locksFirst(fd, r) {
			return false
		}
		setPos, closePos := token.NoPos, token.NoPos
		ast.Inspect(fd.Body, func(n ast.Node) bool {
			switch x := n.(type) {
			case *ast.AssignStmt:
				if len(x.Lhs) == 1 && len(x.Rhs) == 1 && psExpr(x.Lhs[0]) == r+".closed" && psExpr(x.Rhs[0]) == "true" && setPos == token.NoPos {
					setPos = x.Pos()
				}
			case *ast.CallExpr:
				if psExpr(x.Fun) == "close" && closePos == token.NoPos {
					closePos = x.Pos()
				}
			}
			return true
		})
		if setPos == token.NoPos || closePos == token.NoPos || setPos > closePos {
			return false
		}
	}
	return true
}

// statusValues: the constants MemberStatus.String accepts (its non-default cases).
func statusValues(p *psPkgs) []string {
	fd := p.funcs["serf.MemberStatus.String"]
	var out []string
	if fd == nil {
		return []string{"0"}
	}
	ast.Inspect(fd.Body, func(n ast.Node) bool {
		cc, ok := n.(*ast.CaseClause)
		if !ok {
			return true
		}
		for _, e := range cc.List {
			if id, ok := e.(*ast.Ident); ok {
				if v := p.consts["serf."+id.Name]; v != "" {
					out = append(out, v)
				}
			}
		}
		return true
	})
	if len(out) == 0 {
		return []string{"0"}
	}
	return out
}

// ---------------------------------------------------------------- statements

func terminates(s ast.Stmt) bool {
	switch x := s.(type) {
	case *ast.ReturnStmt, *ast.BranchStmt:
		return true
	case *ast.ExprStmt:
		if c, ok := x.X.(*ast.CallExpr); ok {
			if id, ok := c.Fun.(*ast.Ident); ok && id.Name == "panic" {
				return true
			}
		}
	case *ast.BlockStmt:
		return len(x.List) > 0 && terminates(x.List[len(x.List)-1])
	case *ast.IfStmt:
		if x.Else == nil {
			return false
		}
		return terminates(x.Body) && terminates(x.Else)
	}
	return false
}

func (w *psWalker) block(list []ast.Stmt) bool {
	for _, s := range list {
		if w.stmt(s) {
			return true
		}
	}
	return false
}

func copyVer(m map[string]int) map[string]int {
	o := make(map[string]int, len(m))
	for k, v := range m {
		o[k] = v
	}
	return o
}

func assignedKeys(n ast.Node) []string {
	var out []string
	ast.Inspect(n, func(n ast.Node) bool {
		switch x := n.(type) {
		case *ast.AssignStmt:
			for _, l := range x.Lhs {
				if k := key(l); k != "" {
					out = append(out, k)
				}
				if ix, ok := l.(*ast.IndexExpr); ok {
					_ = ix
				}
			}
		case *ast.IncDecStmt:
			if k := key(x.X); k != "" {
				out = append(out, k)
			}
		case *ast.RangeStmt:
			for _, e := range []ast.Expr{x.Key, x.Value} {
				if e != nil {
					if k := key(e); k != "" {
						out = append(out, k)
					}
				}
			}
		case *ast.UnaryExpr:
			if x.Op == token.AND {
				if k := key(x.X); k != "" {
					out = append(out, k)
				}
			}
		}
		return true
	})
	return out
}

type psBranch struct {
	cond  string
	facts []psHyp
	ver   map[string]int
}

// join merges the states of the non-terminating branches (each under its condition).
func (w *psWalker) join(base []psHyp, before map[string]int, brs []psBranch, exhaustive bool) {
	if len(brs) == 1 && exhaustive {
		w.facts = append(append([]psHyp{}, base...), psHyp{prop: brs[0].cond, tag: "guard"})
		w.facts = append(w.facts, brs[0].facts...)
		w.ver = brs[0].ver
		return
	}
	w.facts = append([]psHyp{}, base...)
	if exhaustive && len(brs) > 1 {
		var cs []string
		for _, b := range brs {
			cs = append(cs, "("+b.cond+")")
		}
		w.add(strings.Join(cs, " ∨ "), "guard")
	}
	for _, b := range brs {
		for _, f := range b.facts {
			tr := f.trig
			if tr == "" {
				tr = f.prop
			}
			w.facts = append(w.facts, psHyp{prop: "(" + b.cond + ") → (" + f.prop + ")", tag: f.tag, trig: tr})
		}
	}
	// keys whose version differs between branches get a fresh version tied to each branch's
	keys := map[string]bool{}
	for _, b := range brs {
		for k, v := range b.ver {
			if before[k] != v {
				keys[k] = true
			}
		}
	}
	w.restore(before)
	type nm struct{ pre, k string }
	var names []nm
	for k := range keys {
		for _, pre := range []string{"len", "ptr", "v"} {
			names = append(names, nm{pre, k})
		}
	}
	olds := map[string][]string{}
	w.quiet = true
	live := map[string]bool{}
	for _, n := range names {
		for _, b := range brs {
			sv := w.ver
			w.ver = b.ver
			o := w.lv(n.pre, n.k)
			olds[n.pre+"\x00"+n.k] = append(olds[n.pre+"\x00"+n.k], o)
			if w.used[o] {
				live[n.pre+"\x00"+n.k] = true
			}
			w.ver = sv
		}
	}
	w.quiet = false
	for k := range keys {
		w.touch(k)
		w.next[k]++
		w.ver[k] = w.next[k]
	}
	for _, n := range names {
		if !live[n.pre+"\x00"+n.k] {
			continue
		}
		nv := w.lv(n.pre, n.k)
		for i, b := range brs {
			o := olds[n.pre+"\x00"+n.k][i]
			w.facts = append(w.facts, psHyp{prop: "(" + b.cond + ") → " + nv + " = " + o, tag: "guard", trig: nv})
		}
	}
}

func (w *psWalker) stmt(s ast.Stmt) (term bool) {
	switch x := s.(type) {
	case nil:
		return false
	case *ast.BlockStmt:
		return w.block(x.List)
	case *ast.ExprStmt:
		w.scan(x.X)
		if c, ok := x.X.(*ast.CallExpr); ok {
			w.afterCall(c)
		}
		return terminates(x)
	case *ast.ReturnStmt:
		for _, r := range x.Results {
			w.scan(r)
		}
		w.checkEnsures(x)
		return true
	case *ast.BranchStmt:
		return true
	case *ast.LabeledStmt:
		// a label reached by goto joins unknown states; a label used only by break/continue does not
		if w.gotoLabels[x.Label.Name] {
			w.facts = nil
			w.bumpAll()
		}
		return w.stmt(x.Stmt)
	case *ast.GoStmt:
		w.scanCall(x.Call)
	case *ast.DeferStmt:
		w.scanCall(x.Call)
	case *ast.SendStmt:
		w.scan(x.Chan)
		w.scan(x.Value)
		w.sendSite(x)
	case *ast.IncDecStmt:
		w.scan(x.X)
		if k := key(x.X); k != "" {
			old := w.lv("v", k)
			w.bump(k)
			if x.Tok == token.INC {
				w.add(w.lv("v", k)+" = "+old+" + 1", "guard")
			} else {
				w.add(w.lv("v", k)+" + 1 = "+old, "guard")
			}
		}
	case *ast.DeclStmt:
		if gd, ok := x.Decl.(*ast.GenDecl); ok {
			for _, sp := range gd.Specs {
				vs, ok := sp.(*ast.ValueSpec)
				if !ok {
					continue
				}
				if len(vs.Values) == 0 {
					for _, n := range vs.Names {
						w.bump(n.Name)
						if vs.Type != nil {
							w.types[n.Name] = psType{vs.Type, w.pkg}
							switch w.sh.p.kind(w.types[n.Name]) {
							case "slice", "string":
								w.add(w.lv("len", n.Name)+" = 0", "guard")
							case "int":
								w.add(w.lv("v", n.Name)+" = 0", "guard")
							case "map", "ptr":
								w.add(w.lv("ptr", n.Name)+" = 0", "guard")
							}
						}
					}
					continue
				}
				lhs := make([]ast.Expr, len(vs.Names))
				for i, n := range vs.Names {
					lhs[i] = n
				}
				w.assign(lhs, vs.Values, token.DEFINE, vs.Type)
			}
		}
	case *ast.AssignStmt:
		w.assign(x.Lhs, x.Rhs, x.Tok, nil)
	case *ast.IfStmt:
		if x.Init != nil {
			w.stmt(x.Init)
		}
		w.scan(x.Cond)
		c := w.cond(x.Cond)
		base := append([]psHyp{}, w.facts...)
		before := copyVer(w.ver)
		var brs []psBranch
		w.add(c, "guard")
		n0 := len(w.facts)
		t1 := w.block(x.Body.List)
		if !t1 {
			brs = append(brs, psBranch{c, append([]psHyp{}, w.facts[n0:]...), w.ver})
		}
		w.restore(before)
		w.facts = append(append([]psHyp{}, base...), psHyp{prop: "¬ (" + c + ")", tag: "guard"})
		n1 := len(w.facts)
		t2 := false
		if x.Else != nil {
			t2 = w.stmt(x.Else)
		}
		if !t2 {
			brs = append(brs, psBranch{"¬ (" + c + ")", append([]psHyp{}, w.facts[n1:]...), w.ver})
		}
		if len(brs) == 0 {
			return true
		}
		w.join(base, before, brs, true)
		if t1 && x.Else == nil {
			if as, ok := x.Init.(*ast.AssignStmt); ok && len(as.Rhs) == 1 && len(as.Lhs) == 1 && psExpr(x.Cond) == psExpr(as.Lhs[0])+" != nil" {
				if c, ok := as.Rhs[0].(*ast.CallExpr); ok {
					if ct, ok := psContracts[w.calleeKey(c)]; ok && ct.okFact != "" {
						w.add(w.instantiate(ct.okFact, w.sh.p.funcs[w.calleeKey(c)], c), "contract")
					}
				}
			}
		}
	case *ast.SwitchStmt:
		if x.Init != nil {
			w.stmt(x.Init)
		}
		w.scan(x.Tag)
		tag := ""
		if x.Tag != nil {
			if kk := w.sh.p.kind(w.typeOf(x.Tag)); kk != "string" && kk != "float" && kk != "struct" {
				tag = w.term(x.Tag, nil)
			}
		}
		base := append([]psHyp{}, w.facts...)
		before := copyVer(w.ver)
		var brs []psBranch
		hasDefault := false
		var negs []string
		for _, cl := range x.Body.List {
			cc := cl.(*ast.CaseClause)
			var alts []string
			for _, e := range cc.List {
				w.scan(e)
				if x.Tag == nil {
					alts = append(alts, w.cond(e))
				} else if tag != "" && !strings.HasPrefix(tag, "t_") {
					alts = append(alts, tag+" = "+w.term(e, nil))
				} else {
					alts = append(alts, w.opaque("c")+" = 1")
				}
			}
			c := strings.Join(alts, " ∨ ")
			if cc.List == nil {
				hasDefault = true
				c = "True"
				if len(negs) > 0 {
					c = "¬ (" + strings.Join(negs, " ∨ ") + ")"
				}
			} else {
				negs = append(negs, c)
			}
			w.restore(before)
			w.facts = append(append([]psHyp{}, base...), psHyp{prop: c, tag: "guard"})
			n0 := len(w.facts)
			if !w.block(cc.Body) {
				brs = append(brs, psBranch{c, append([]psHyp{}, w.facts[n0:]...), w.ver})
			}
		}
		if !hasDefault {
			c := "True"
			if len(negs) > 0 {
				c = "¬ (" + strings.Join(negs, " ∨ ") + ")"
			}
			brs = append(brs, psBranch{c, nil, copyVer(before)})
		}
		if len(brs) == 0 {
			return true
		}
		w.join(base, before, brs, true)
	case *ast.TypeSwitchStmt:
		base := append([]psHyp{}, w.facts...)
		before := copyVer(w.ver)
		for _, cl := range x.Body.List {
			w.restore(before)
			w.facts = append([]psHyp{}, base...)
			w.block(cl.(*ast.CaseClause).Body)
		}
		w.restore(before)
		w.facts = base
		for _, k := range assignedKeys(x.Body) {
			w.bump(k)
		}
	case *ast.SelectStmt:
		base := append([]psHyp{}, w.facts...)
		before := copyVer(w.ver)
		for _, cl := range x.Body.List {
			cc := cl.(*ast.CommClause)
			w.restore(before)
			w.facts = append([]psHyp{}, base...)
			if cc.Comm != nil {
				// a send/receive on a nil channel is never ready: inside the clause the channel is non-nil
				if ch := commChan(cc.Comm); ch != "" {
					w.add("0 < "+w.lv("ptr", ch), "guard")
				}
				w.stmt(cc.Comm)
			}
			w.block(cc.Body)
		}
		w.restore(before)
		w.facts = base
		for _, k := range assignedKeys(x.Body) {
			w.bump(k)
		}
	case *ast.ForStmt:
		if x.Init != nil {
			w.stmt(x.Init)
		}
		initV, loopVar := "", ""
		if as, ok := x.Init.(*ast.AssignStmt); ok && len(as.Lhs) == 1 {
			loopVar = key(as.Lhs[0])
			if loopVar != "" {
				initV = w.lv("v", loopVar)
			}
		}
		w.truncLoop(x, loopVar, initV)
		for _, k := range assignedKeys(x.Body) {
			w.bump(k)
		}
		if x.Post != nil {
			for _, k := range assignedKeys(x.Post) {
				w.bump(k)
			}
		}
		base := append([]psHyp{}, w.facts...)
		before := copyVer(w.ver)
		if x.Cond != nil {
			w.scan(x.Cond)
			w.add(w.cond(x.Cond), "guard")
		}
		if id, ok := x.Post.(*ast.IncDecStmt); ok && loopVar != "" && key(id.X) == loopVar && initV != "" {
			if id.Tok == token.DEC {
				w.add(w.lv("v", loopVar)+" ≤ "+initV, "guard")
			} else {
				w.add(initV+" ≤ "+w.lv("v", loopVar), "guard")
			}
		}
		w.invFacts(x)
		w.block(x.Body.List)
		if x.Post != nil {
			w.stmt(x.Post)
		}
		w.restore(before)
		w.facts = base
		for _, k := range append(assignedKeys(x.Body), assignedKeys(x)...) {
			w.bump(k)
		}
	case *ast.RangeStmt:
		w.scan(x.X)
		xk := key(x.X)
		xt := w.typeOf(x.X)
		kind := w.sh.p.kind(xt)
		reassigned := false
		for _, k := range assignedKeys(x.Body) {
			if xk != "" && (k == xk || strings.HasPrefix(xk, k+".")) {
				reassigned = true
			}
			w.bump(k)
		}
		base := append([]psHyp{}, w.facts...)
		before := copyVer(w.ver)
		if x.Key != nil {
			if k := key(x.Key); k != "" {
				w.bump(k)
				if x.Tok == token.DEFINE {
					w.types[k] = psType{ast.NewIdent("int"), w.pkg}
					if kind == "map" {
						w.types[k] = psType{}
					}
				}
				if (kind == "slice" || kind == "string") && xk != "" && !reassigned {
					w.add(w.lv("v", k)+" < "+w.lv("len", xk), "guard")
				}
			}
		}
		if x.Value != nil {
			if k := key(x.Value); k != "" {
				w.bump(k)
				et := w.sh.p.elem(xt)
				if x.Tok == token.DEFINE {
					w.types[k] = et
					delete(w.nilable, k)
					if w.sh.p.kind(et) == "ptr" && kind == "slice" && w.sparseSlice(x.X) {
						w.nilable[k] = true
					}
				}
			}
		}
		w.block(x.Body.List)
		w.restore(before)
		w.facts = base
		for _, k := range assignedKeys(x) {
			w.bump(k)
		}
	default:
		w.sh.errs = append(w.sh.errs, fmt.Sprintf("%s: unsupported statement %T", w.short, s))
	}
	return false
}

func brs0ver(b []psBranch) map[string]int {
	if len(b) == 0 {
		return nil
	}
	return b[0].ver
}

func commChan(s ast.Stmt) string {
	switch x := s.(type) {
	case *ast.SendStmt:
		return key(x.Chan)
	case *ast.ExprStmt:
		if u, ok := x.X.(*ast.UnaryExpr); ok && u.Op == token.ARROW {
			return key(u.X)
		}
	case *ast.AssignStmt:
		if len(x.Rhs) == 1 {
			if u, ok := x.Rhs[0].(*ast.UnaryExpr); ok && u.Op == token.ARROW {
				return key(u.X)
			}
		}
	}
	return ""
}
