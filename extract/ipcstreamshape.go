package main

import (
	"fmt"
	"go/ast"
	"go/token"
	"sort"
	"strconv"
	"strings"
)

// IPC stream shapes (C25):
//   - handleStream: the client's filter string reaches ParseEventFilter verbatim (argument text,
//     no write to req / req.Type / filters) and the parsed filters reach newEventStream;
//   - eventStream.HandleEvent: the filter loop (range over all of es.filters, Invoke, return when
//     none matched); newEventStream: the channel capacity; eventStream.stream: ranges over eventCh;
//   - queryResponseStream.Stream: the select loop — each receive uses the ok flag and its !ok
//     branch is exactly `ch = nil; continue`, a failing send returns, sendDone is called at exactly
//     one place, in the `<-done` case, which returns; no break statement; the for has no condition;
//     the prologue is exactly the four definitions (deadline timer armed unconditionally from
//     resp.Deadline(), the two channels) with no other statement — in particular no early return.

func countWrites(body ast.Node, targets map[string]bool) int {
	n := 0
	ast.Inspect(body, func(x ast.Node) bool {
		switch s := x.(type) {
		case *ast.AssignStmt:
			if s.Tok == token.DEFINE {
				return true
			}
			for _, l := range s.Lhs {
				if targets[exprString(l)] {
					n++
				}
			}
		case *ast.IncDecStmt:
			if targets[exprString(s.X)] {
				n++
			}
		case *ast.UnaryExpr:
			// &req is how Decode fills the request: counted separately by the caller
		}
		return true
	})
	return n
}

type recvCase struct {
	ch       string // role of the channel received from
	okFlag   bool   // `v, ok := <-ch`
	closedOK bool   // the closed branch is exactly `ch = nil; continue`
	send     string
	sendRet  bool // `if err := send; err != nil { …; return }` is the only other statement
	extra    int  // further statements
}

// analyseRecvCase: `case v, ok := <-ch:` followed by the closed-channel test and the send.  The
// test may be written `if !ok { ch = nil; continue }; <send>` or `if ok { <send> } else { ch = nil; continue }`
// (or the latter with the branches swapped).
func analyseRecvCase(env *nenv, cc *ast.CommClause) (recvCase, error) {
	var rc recvCase
	as, ok := cc.Comm.(*ast.AssignStmt)
	if !ok || len(as.Rhs) != 1 {
		return rc, fmt.Errorf("receive case shape")
	}
	ue, ok := as.Rhs[0].(*ast.UnaryExpr)
	if !ok || ue.Op != token.ARROW {
		return rc, fmt.Errorf("receive case is not a receive")
	}
	env = env.clone()
	chName := exprString(ue.X)
	rc.ch = env.expr(ue.X)
	if id, ok := as.Lhs[0].(*ast.Ident); ok {
		env.names[id.Name] = "$v"
	}
	okName := ""
	if len(as.Lhs) == 2 {
		if id, ok := as.Lhs[1].(*ast.Ident); ok {
			okName = id.Name
			env.names[okName] = "$ok"
			rc.okFlag = true
		}
	}
	isClosedBranch := func(l []ast.Stmt) bool {
		if len(l) != 2 {
			return false
		}
		a, ok1 := l[0].(*ast.AssignStmt)
		b, ok2 := l[1].(*ast.BranchStmt)
		return ok1 && ok2 && a.Tok == token.ASSIGN && len(a.Lhs) == 1 && exprString(a.Lhs[0]) == chName &&
			exprString(a.Rhs[0]) == "nil" && b.Tok == token.CONTINUE && b.Label == nil
	}
	body := cc.Body
	if rc.okFlag && len(body) > 0 {
		if is, ok := body[0].(*ast.IfStmt); ok && is.Init == nil {
			cond := env.expr(is.Cond)
			var elseList []ast.Stmt
			if b, ok := is.Else.(*ast.BlockStmt); ok {
				elseList = b.List
			}
			switch {
			case cond == "!$ok" && is.Else == nil && isClosedBranch(is.Body.List):
				rc.closedOK = true
				body = body[1:]
			case cond == "!$ok" && elseList != nil && isClosedBranch(is.Body.List) && len(body) == 1:
				rc.closedOK = true
				body = elseList
			case cond == "$ok" && elseList != nil && isClosedBranch(elseList) && len(body) == 1:
				rc.closedOK = true
				body = is.Body.List
			}
		}
	}
	for _, st := range body {
		is, ok := st.(*ast.IfStmt)
		if ok && is.Init != nil && rc.send == "" {
			if ia, ok := is.Init.(*ast.AssignStmt); ok && len(ia.Rhs) == 1 && len(ia.Lhs) == 1 {
				e2 := env.clone()
				e2.names[exprString(ia.Lhs[0])] = "$err"
				if e2.expr(is.Cond) == "$err != nil" {
					rc.send = env.expr(ia.Rhs[0])
					if n := len(is.Body.List); n > 0 {
						if r, ok := is.Body.List[n-1].(*ast.ReturnStmt); ok && len(r.Results) == 0 {
							rc.sendRet = true
						}
					}
					continue
				}
			}
		}
		rc.extra++
	}
	return rc, nil
}

func genIpcStreamShape(repo string) (string, error) {
	dir := repo + "/cmd/serf/command/agent/"
	_, ipc, err := parseFile(dir + "ipc.go")
	if err != nil {
		return "", err
	}
	_, esf, err := parseFile(dir + "ipc_event_stream.go")
	if err != nil {
		return "", err
	}
	_, qsf, err := parseFile(dir + "ipc_query_response_stream.go")
	if err != nil {
		return "", err
	}
	q := strconv.Quote

	// ---- handleStream
	hs := findFunc(ipc, "AgentIPC", "handleStream")
	if hs == nil {
		return "", fmt.Errorf("handleStream not found")
	}
	henv := newEnv(constLiterals(ipc, hs)).withHelpers(ipc)
	henv.bindSignature(hs, "$ipc", map[string]string{"IPCClient": "$client", "uint64": "$seq"})
	henv.bindLocals(hs.Body, map[string]string{"streamRequest": "$req", "responseHeader": "$resp"}, map[string]string{"ParseEventFilter($req.Type)": "$filters"})
	parseArg, ctorFilterArg := "<missing>", "<missing>"
	parseCalls := 0
	ast.Inspect(hs.Body, func(n ast.Node) bool {
		if c, ok := n.(*ast.CallExpr); ok {
			switch exprString(c.Fun) {
			case "ParseEventFilter":
				parseCalls++
				if len(c.Args) == 1 {
					parseArg = henv.expr(c.Args[0])
				}
			case "newEventStream":
				if len(c.Args) >= 2 {
					ctorFilterArg = henv.expr(c.Args[1])
				}
			}
		}
		return true
	})
	// the filters handed to the stream are the parsed ones: either the local defined from the parse or the call itself
	filtersFrom := "<missing>"
	if ctorFilterArg == "$filters" || ctorFilterArg == "ParseEventFilter($req.Type)" {
		filtersFrom = "ParseEventFilter(" + parseArg + ")"
		ctorFilterArg = "$filters"
	}
	// writes to the request or to the parsed filters after their definition (by role, whatever they are called)
	reqWrites := 0
	ast.Inspect(hs.Body, func(x ast.Node) bool {
		switch st := x.(type) {
		case *ast.AssignStmt:
			if st.Tok == token.DEFINE {
				return true
			}
			for _, l := range st.Lhs {
				switch henv.expr(l) {
				case "$req", "$req.Type", "$filters":
					reqWrites++
				}
			}
		case *ast.IncDecStmt:
			switch henv.expr(st.X) {
			case "$req", "$req.Type", "$filters":
				reqWrites++
			}
		}
		return true
	})

	// ---- eventStream
	he := findFunc(esf, "eventStream", "HandleEvent")
	ne := findFunc(esf, "", "newEventStream")
	sm := findFunc(esf, "eventStream", "stream")
	if he == nil || ne == nil || sm == nil {
		return "", fmt.Errorf("eventStream functions not found")
	}
	eenv := newEnv(constLiterals(esf, he)).withHelpers(esf)
	eenv.bindSignature(he, "$es", map[string]string{"Event": "$e"})
	st := flat(he.Body)
	if len(st) < 2 {
		return "", fmt.Errorf("HandleEvent too short")
	}
	rng, ok := st[0].(*ast.RangeStmt)
	if !ok {
		return "", fmt.Errorf("HandleEvent does not start with the filter loop")
	}
	filterRange := eenv.expr(rng.X)
	// `for _, f := range xs { f.Invoke(e) }` and `for i := range xs { xs[i].Invoke(e) }` are the same loop
	if v, ok := rng.Value.(*ast.Ident); ok && v.Name != "_" {
		eenv.names[v.Name] = "$f"
	} else if k, ok := rng.Key.(*ast.Ident); ok && rng.Value == nil && k.Name != "_" {
		eenv.names[k.Name] = "$i"
	}
	filterCond, filterJump := "<missing>", "<missing>"
	if len(rng.Body.List) == 1 {
		if is, ok := rng.Body.List[0].(*ast.IfStmt); ok && is.Init == nil && is.Else == nil && len(is.Body.List) == 1 {
			filterCond = strings.Replace(eenv.expr(is.Cond), filterRange+"[$i]", "$f", -1)
			if b, ok := is.Body.List[0].(*ast.BranchStmt); ok && b.Tok == token.GOTO {
				filterJump = "goto"
			}
		}
	}
	_, unmatchedReturns := st[1].(*ast.ReturnStmt)
	chanCap := "<missing>"
	ast.Inspect(ne.Body, func(n ast.Node) bool {
		if kv, ok := n.(*ast.KeyValueExpr); ok && exprString(kv.Key) == "eventCh" {
			if c, ok := kv.Value.(*ast.CallExpr); ok && exprString(c.Fun) == "make" && len(c.Args) == 2 {
				chanCap = newEnv(constLiterals(esf, ne)).expr(c.Args[1])
			}
		}
		return true
	})
	if _, err := strconv.Atoi(chanCap); err != nil {
		return "", fmt.Errorf("eventCh capacity is not a literal: %s", chanCap)
	}
	streamRange := "<missing>"
	senv := newEnv(constLiterals(esf, sm))
	senv.bindSignature(sm, "$es", nil)
	for _, s := range sm.Body.List {
		if r, ok := s.(*ast.RangeStmt); ok {
			streamRange = senv.expr(r.X)
		}
	}

	// ---- queryResponseStream.Stream
	qs := findFunc(qsf, "queryResponseStream", "Stream")
	if qs == nil {
		return "", fmt.Errorf("Stream not found")
	}
	qenv := newEnv(constLiterals(qsf, qs)).withHelpers(qsf)
	qenv.bindSignature(qs, "$qs", map[string]string{"QueryResponse": "$resp"})
	qenv.bindLocals(qs.Body, nil, map[string]string{
		"time.Until($resp.Deadline())": "$remaining", "time.After($remaining)": "$done",
		"time.After(time.Until($resp.Deadline()))": "$done",
		"$resp.AckCh()": "$ackCh", "$resp.ResponseCh()": "$respCh"})
	var loop *ast.ForStmt
	// prologue: the statements before the loop, as `role := expr` pairs (sorted); anything else is counted
	var prologue []string
	prologueOther, afterLoop := 0, 0
	for _, s := range qs.Body.List {
		if f, ok := s.(*ast.ForStmt); ok {
			if loop != nil {
				return "", fmt.Errorf("Stream: more than one loop")
			}
			loop = f
			continue
		}
		if loop != nil {
			afterLoop++
			continue
		}
		if as, ok := s.(*ast.AssignStmt); ok && as.Tok == token.DEFINE && len(as.Lhs) == 1 && len(as.Rhs) == 1 {
			rhs := qenv.expr(as.Rhs[0])
			if rhs == "time.After(time.Until($resp.Deadline()))" {
				// the two timer definitions written as one
				prologue = append(prologue, fmt.Sprintf("(%s, %s)", q("$remaining"), q("time.Until($resp.Deadline())")))
				rhs = "time.After($remaining)"
			}
			prologue = append(prologue, fmt.Sprintf("(%s, %s)", q(qenv.expr(as.Lhs[0])), q(rhs)))
		} else {
			prologueOther++
		}
	}
	sort.Strings(prologue)
	if loop == nil || len(loop.Body.List) != 1 {
		return "", fmt.Errorf("Stream: expected `for { select { … } }`")
	}
	sel, ok := loop.Body.List[0].(*ast.SelectStmt)
	if !ok {
		return "", fmt.Errorf("Stream: loop body is not a select")
	}
	var recvs []recvCase
	doneCaseOK := false
	doneCases := 0
	for _, c := range sel.Body.List {
		cc := c.(*ast.CommClause)
		if es, ok := cc.Comm.(*ast.ExprStmt); ok {
			// `<-done`
			if ue, ok := es.X.(*ast.UnaryExpr); ok && ue.Op == token.ARROW && qenv.expr(ue.X) == "$done" {
				doneCases++
				if len(cc.Body) == 2 {
					is, ok1 := cc.Body[0].(*ast.IfStmt)
					r, ok2 := cc.Body[1].(*ast.ReturnStmt)
					if ok1 && ok2 && len(r.Results) == 0 && is.Init != nil {
						if ia, ok := is.Init.(*ast.AssignStmt); ok && len(ia.Rhs) == 1 && qenv.expr(ia.Rhs[0]) == "$qs.sendDone()" {
							doneCaseOK = true
						}
					}
				}
				continue
			}
			return "", fmt.Errorf("Stream: unknown select case %s", exprString(es.X))
		}
		if cc.Comm == nil {
			return "", fmt.Errorf("Stream: select has a default case")
		}
		rc, err := analyseRecvCase(qenv, cc)
		if err != nil {
			return "", err
		}
		recvs = append(recvs, rc)
	}
	sort.SliceStable(recvs, func(a, b int) bool { return recvs[a].ch < recvs[b].ch })
	doneSites, breaks := 0, 0
	ast.Inspect(qs.Body, func(n ast.Node) bool {
		switch x := n.(type) {
		case *ast.CallExpr:
			if qenv.expr(x.Fun) == "$qs.sendDone" {
				doneSites++
			}
		case *ast.BranchStmt:
			if x.Tok == token.BREAK || x.Tok == token.GOTO {
				breaks++
			}
		}
		return true
	})
	var rows []string
	for _, r := range recvs {
		rows = append(rows, fmt.Sprintf("  { ch := %s, okFlag := %v, closedBranchExact := %v, send := %s, sendFailureReturns := %v, extraStmts := %d }",
			q(r.ch), r.okFlag, r.closedOK, q(r.send), r.sendRet, r.extra))
	}

	var b strings.Builder
	b.WriteString("-- GENERATED by /verif/extract from cmd/serf/command/agent/{ipc,ipc_event_stream,ipc_query_response_stream}.go — do not edit.\n")
	b.WriteString("import SerfModel.Model.IpcStreams\nnamespace SerfModel.Gen.IpcStreamShape\nopen SerfModel.IpcStreams\n\n")
	fmt.Fprintf(&b, "def streamRequest : StreamRequestShape :=\n  { parseCalls := %d, parseArg := %s, filtersFrom := %s, ctorFilterArg := %s, writes := %d }\n\n",
		parseCalls, q(parseArg), q(filtersFrom), q(ctorFilterArg), reqWrites)
	fmt.Fprintf(&b, "def eventStream : EventStreamShape :=\n  { filterRange := %s, filterCond := %s, matchJumps := %v, unmatchedReturns := %v, chanCap := %s, streamRange := %s }\n\n",
		q(filterRange), q(filterCond), filterJump == "goto", unmatchedReturns, chanCap, q(streamRange))
	fmt.Fprintf(&b, "def queryLoop : QueryLoopShape :=\n  { recvs := [\n%s\n  ],\n    loopHasCondition := %v, doneCases := %d, doneCaseSendsAndReturns := %v, sendDoneSites := %d, breaksOrGotos := %d,\n    prologue := [%s],\n    prologueOther := %d, afterLoop := %d }\n\nend SerfModel.Gen.IpcStreamShape\n",
		strings.Join(rows, ",\n"), loop.Cond != nil, doneCases, doneCaseOK, doneSites, breaks, strings.Join(prologue, ", "), prologueOther, afterLoop)
	return b.String(), nil
}

func init() { addGen("IpcStreamShape", genIpcStreamShape) }
