package main

import (
	"fmt"
	"go/ast"
	"go/parser"
	"go/token"
	"os"
	"path/filepath"
	"strings"
)

// CoordFormula: the round-trip-time formula, once as the code computes it
// (coordinate/coordinate.go: DistanceTo, rawDistanceTo, magnitude, diff) and once as
// the documentation states it (the Go example in docs/internals/coordinates.html.markdown),
// both as expression trees of SerfModel/Model/CoordFormula.lean.  Any statement shape
// this translator does not know is an error (no file is written).

// cfExpr is a tiny expression tree; it prints as a Lean term.
type cfExpr struct {
	op   string // heightA heightB adjA adjB vecA vecB zero add sqrt sumsq diff guardPos
	args []*cfExpr
}

func (e *cfExpr) lean() string {
	switch e.op {
	case "heightA", "heightB", "adjA", "adjB", "zeroLit":
		return "SExpr." + e.op
	case "vecA", "vecB":
		return "VExpr." + e.op
	case "diff":
		return fmt.Sprintf("(VExpr.diff %s %s)", e.args[0].lean(), e.args[1].lean())
	case "add", "guardPos":
		return fmt.Sprintf("(SExpr.%s %s %s)", e.op, e.args[0].lean(), e.args[1].lean())
	case "sqrt", "sumsq":
		return fmt.Sprintf("(SExpr.%s %s)", e.op, e.args[0].lean())
	}
	return "UNKNOWN"
}

func (e *cfExpr) isVec() bool { return e.op == "vecA" || e.op == "vecB" || e.op == "diff" }

func cfEq(a, b *cfExpr) bool { return a.lean() == b.lean() }

type cfFormula struct {
	seconds  *cfExpr
	conv     string // scaleThenTruncate | truncateThenScale
	dimCheck string // panicDimensionalityConflict | panicMessage
}

// cfCtx translates expressions of one function body.
type cfCtx struct {
	a, b  string             // names of the two coordinates (receiver/first, second)
	env   map[string]*cfExpr // local variables
	funcs *ast.File          // coordinate.go (nil for the docs snippet)
	where string
}

func (c *cfCtx) errf(format string, args ...interface{}) error {
	return fmt.Errorf("%s: %s", c.where, fmt.Sprintf(format, args...))
}

func isFloatZero(e ast.Expr) bool {
	b, ok := e.(*ast.BasicLit)
	return ok && b.Kind == token.FLOAT && (b.Value == "0.0" || b.Value == "0.")
}

// field recognises <coord>.<Field>.
func (c *cfCtx) field(e ast.Expr) (*cfExpr, bool) {
	s, ok := e.(*ast.SelectorExpr)
	if !ok {
		return nil, false
	}
	id, ok := s.X.(*ast.Ident)
	if !ok {
		return nil, false
	}
	side := ""
	switch id.Name {
	case c.a:
		side = "A"
	case c.b:
		side = "B"
	default:
		return nil, false
	}
	switch s.Sel.Name {
	case "Height":
		return &cfExpr{op: "height" + side}, true
	case "Adjustment":
		return &cfExpr{op: "adj" + side}, true
	case "Vec":
		return &cfExpr{op: "vec" + side}, true
	}
	return nil, false
}

func (c *cfCtx) expr(e ast.Expr) (*cfExpr, error) {
	switch x := e.(type) {
	case *ast.ParenExpr:
		return c.expr(x.X)
	case *ast.BasicLit:
		if isFloatZero(x) {
			return &cfExpr{op: "zeroLit"}, nil
		}
		return nil, c.errf("literal %s", x.Value)
	case *ast.Ident:
		if v, ok := c.env[x.Name]; ok {
			return v, nil
		}
		return nil, c.errf("unknown identifier %s", x.Name)
	case *ast.SelectorExpr:
		if f, ok := c.field(x); ok {
			return f, nil
		}
		return nil, c.errf("unknown selector")
	case *ast.BinaryExpr:
		if x.Op != token.ADD {
			return nil, c.errf("operator %s", x.Op)
		}
		l, err := c.expr(x.X)
		if err != nil {
			return nil, err
		}
		r, err := c.expr(x.Y)
		if err != nil {
			return nil, err
		}
		if l.isVec() || r.isVec() {
			return nil, c.errf("vector in scalar sum")
		}
		return &cfExpr{op: "add", args: []*cfExpr{l, r}}, nil
	case *ast.CallExpr:
		return c.call(x)
	}
	return nil, c.errf("expression %T", e)
}

func (c *cfCtx) call(x *ast.CallExpr) (*cfExpr, error) {
	// math.Sqrt(e)
	if s, ok := x.Fun.(*ast.SelectorExpr); ok {
		if id, ok := s.X.(*ast.Ident); ok && id.Name == "math" && s.Sel.Name == "Sqrt" && len(x.Args) == 1 {
			a, err := c.expr(x.Args[0])
			if err != nil {
				return nil, err
			}
			return &cfExpr{op: "sqrt", args: []*cfExpr{a}}, nil
		}
		// <a>.rawDistanceTo(<b>)
		if id, ok := s.X.(*ast.Ident); ok && c.funcs != nil && id.Name == c.a && s.Sel.Name == "rawDistanceTo" && len(x.Args) == 1 {
			if arg, ok := x.Args[0].(*ast.Ident); !ok || arg.Name != c.b {
				return nil, c.errf("rawDistanceTo argument")
			}
			return cfRawDistance(c.funcs)
		}
		return nil, c.errf("call %s.%s", fmt.Sprint(s.X), s.Sel.Name)
	}
	id, ok := x.Fun.(*ast.Ident)
	if !ok || c.funcs == nil {
		return nil, c.errf("call")
	}
	switch id.Name {
	case "magnitude":
		if len(x.Args) != 1 {
			return nil, c.errf("magnitude arity")
		}
		if err := cfCheckMagnitude(c.funcs); err != nil {
			return nil, err
		}
		v, err := c.expr(x.Args[0])
		if err != nil {
			return nil, err
		}
		if !v.isVec() {
			return nil, c.errf("magnitude of a scalar")
		}
		return &cfExpr{op: "sqrt", args: []*cfExpr{{op: "sumsq", args: []*cfExpr{v}}}}, nil
	case "diff":
		if len(x.Args) != 2 {
			return nil, c.errf("diff arity")
		}
		if err := cfCheckDiff(c.funcs); err != nil {
			return nil, err
		}
		l, err := c.expr(x.Args[0])
		if err != nil {
			return nil, err
		}
		r, err := c.expr(x.Args[1])
		if err != nil {
			return nil, err
		}
		if !l.isVec() || !r.isVec() {
			return nil, c.errf("diff of scalars")
		}
		return &cfExpr{op: "diff", args: []*cfExpr{l, r}}, nil
	}
	return nil, c.errf("call %s", id.Name)
}

func recvAndParam(fd *ast.FuncDecl) (string, string, error) {
	if fd.Recv == nil || len(fd.Recv.List) != 1 || len(fd.Recv.List[0].Names) != 1 ||
		len(fd.Type.Params.List) != 1 || len(fd.Type.Params.List[0].Names) != 1 {
		return "", "", fmt.Errorf("%s: unexpected signature", fd.Name.Name)
	}
	return fd.Recv.List[0].Names[0].Name, fd.Type.Params.List[0].Names[0].Name, nil
}

// rawDistanceTo: a single return of a scalar expression over the receiver and the parameter.
func cfRawDistance(f *ast.File) (*cfExpr, error) {
	fd := findFunc(f, "Coordinate", "rawDistanceTo")
	if fd == nil {
		return nil, fmt.Errorf("rawDistanceTo not found")
	}
	a, b, err := recvAndParam(fd)
	if err != nil {
		return nil, err
	}
	if len(fd.Body.List) != 1 {
		return nil, fmt.Errorf("rawDistanceTo: expected a single return")
	}
	ret, ok := fd.Body.List[0].(*ast.ReturnStmt)
	if !ok || len(ret.Results) != 1 {
		return nil, fmt.Errorf("rawDistanceTo: expected a single return")
	}
	c := &cfCtx{a: a, b: b, env: map[string]*cfExpr{}, funcs: f, where: "rawDistanceTo"}
	return c.expr(ret.Results[0])
}

// indexOf recognises <name>[<i>].
func indexOf(e ast.Expr, i string) (string, bool) {
	ix, ok := e.(*ast.IndexExpr)
	if !ok {
		return "", false
	}
	id, ok := ix.Index.(*ast.Ident)
	if !ok || id.Name != i {
		return "", false
	}
	x, ok := ix.X.(*ast.Ident)
	if !ok {
		return "", false
	}
	return x.Name, true
}

// magnitude(vec) and diff(vec1, vec2) are compared in canonical form (extract/canon.go), so renamed locals, an
// index loop versus a value loop, `+=` versus `= … +`, or `0.0` versus `0` make no difference.
func cfCanonBody(f *ast.File, name string) ([]string, error) {
	// a private copy: canonFunc rewrites in place and the caller's AST is still needed
	fd := findFunc(f, "", name)
	if fd == nil {
		return nil, fmt.Errorf("%s not found", name)
	}
	fset := token.NewFileSet()
	cp, err := parser.ParseFile(fset, name+".go", "package p\n"+exprString(fd), 0)
	if err != nil {
		return nil, fmt.Errorf("%s: %v", name, err)
	}
	sts, _, err := canonFunc(findFunc(cp, "", name), nil, canonOpts{})
	return sts, err
}

func cfCheckMagnitude(f *ast.File) error {
	sts, err := cfCanonBody(f, "magnitude")
	if err != nil {
		return err
	}
	want := []string{"v1 := 0", "for _, v2 := range v0 { v1 = v1 + (v2 * v2) }", "return math.Sqrt(v1)"}
	if strings.Join(sts, " ; ") != strings.Join(want, " ; ") {
		return fmt.Errorf("magnitude: canonical body is %q, expected %q", sts, want)
	}
	return nil
}

func cfCheckDiff(f *ast.File) error {
	sts, err := cfCanonBody(f, "diff")
	if err != nil {
		return err
	}
	want := []string{"v2 := make([]float64, len(v0))", "for v3 := range v2 { v2[v3] = v0[v3] - v1[v3] }", "return v2"}
	alt := []string{"v2 := make([]float64, len(v0))", "for v3 := range v0 { v2[v3] = v0[v3] - v1[v3] }", "return v2"}
	got := strings.Join(sts, " ; ")
	if got != strings.Join(want, " ; ") && got != strings.Join(alt, " ; ") {
		return fmt.Errorf("diff: canonical body is %q, expected %q", sts, want)
	}
	return nil
}

// guard recognises `if <v2> > 0.0 { <v1> = <v2> }` and rewrites env[v1].
func (c *cfCtx) guard(s *ast.IfStmt) error {
	if s.Init != nil || s.Else != nil || len(s.Body.List) != 1 {
		return c.errf("if statement shape")
	}
	cond, ok := s.Cond.(*ast.BinaryExpr)
	if !ok || cond.Op != token.GTR || !isFloatZero(cond.Y) {
		return c.errf("guard is not `x > 0.0`")
	}
	cand, ok := cond.X.(*ast.Ident)
	if !ok {
		return c.errf("guard lhs")
	}
	as, ok := s.Body.List[0].(*ast.AssignStmt)
	if !ok || as.Tok != token.ASSIGN || len(as.Lhs) != 1 || len(as.Rhs) != 1 {
		return c.errf("guard body")
	}
	dst, ok1 := as.Lhs[0].(*ast.Ident)
	rhs, ok2 := as.Rhs[0].(*ast.Ident)
	if !ok1 || !ok2 || rhs.Name != cand.Name {
		return c.errf("guard body assigns something else than the tested value")
	}
	cv, okc := c.env[cand.Name]
	dv, okd := c.env[dst.Name]
	if !okc || !okd {
		return c.errf("guard over unknown variables")
	}
	c.env[dst.Name] = &cfExpr{op: "guardPos", args: []*cfExpr{cv, dv}}
	return nil
}

// stmt interprets one straight-line statement: `v := e`, `v = e`, `v += e`, or the positive guard.
// Statements are applied in source order, so the ORDER OF OPERATIONS of the function ends up in the tree.
func (c *cfCtx) stmt(st ast.Stmt) error {
	switch x := st.(type) {
	case *ast.AssignStmt:
		if len(x.Lhs) != 1 || len(x.Rhs) != 1 {
			return c.errf("assignment shape")
		}
		id, ok := x.Lhs[0].(*ast.Ident)
		if !ok {
			return c.errf("assignment target")
		}
		v, err := c.expr(x.Rhs[0])
		if err != nil {
			return err
		}
		switch x.Tok {
		case token.DEFINE:
			c.env[id.Name] = v
		case token.ASSIGN:
			if _, ok := c.env[id.Name]; !ok {
				return c.errf("assignment to unknown %s", id.Name)
			}
			c.env[id.Name] = v
		case token.ADD_ASSIGN:
			old, ok := c.env[id.Name]
			if !ok {
				return c.errf("+= on unknown %s", id.Name)
			}
			if old.isVec() || v.isVec() {
				return c.errf("vector in scalar sum")
			}
			c.env[id.Name] = &cfExpr{op: "add", args: []*cfExpr{old, v}}
		default:
			return c.errf("assignment operator %s", x.Tok)
		}
		return nil
	case *ast.IfStmt:
		return c.guard(x)
	}
	return c.errf("statement %T", st)
}

// ---- the code: Coordinate.DistanceTo

func cfCode(repo string) (*cfFormula, error) {
	path := filepath.Join(repo, "coordinate", "coordinate.go")
	_, f, err := parseFile(path)
	if err != nil {
		return nil, err
	}
	fd := findFunc(f, "Coordinate", "DistanceTo")
	if fd == nil {
		return nil, fmt.Errorf("DistanceTo not found")
	}
	a, b, err := recvAndParam(fd)
	if err != nil {
		return nil, err
	}
	c := &cfCtx{a: a, b: b, env: map[string]*cfExpr{}, funcs: f, where: "DistanceTo"}
	out := &cfFormula{}
	body := fd.Body.List
	if len(body) < 3 {
		return nil, c.errf("expected at least 3 statements, found %d", len(body))
	}
	// 1: if !c.IsCompatibleWith(other) { panic(DimensionalityConflictError{}) }
	chk, ok := body[0].(*ast.IfStmt)
	if !ok || len(chk.Body.List) != 1 || chk.Else != nil {
		return nil, c.errf("first statement is not the compatibility check")
	}
	not, ok := chk.Cond.(*ast.UnaryExpr)
	if !ok || not.Op != token.NOT {
		return nil, c.errf("compatibility check shape")
	}
	call, ok := not.X.(*ast.CallExpr)
	if !ok || len(call.Args) != 1 || fmt.Sprint(call.Args[0]) != b {
		return nil, c.errf("compatibility check shape")
	}
	if sel, ok := call.Fun.(*ast.SelectorExpr); !ok || sel.Sel.Name != "IsCompatibleWith" || fmt.Sprint(sel.X) != a {
		return nil, c.errf("compatibility check shape")
	}
	if err := cfCheckCompatible(f); err != nil {
		return nil, err
	}
	es, ok := chk.Body.List[0].(*ast.ExprStmt)
	if !ok {
		return nil, c.errf("compatibility check body")
	}
	pc, ok := es.X.(*ast.CallExpr)
	if !ok || fmt.Sprint(pc.Fun) != "panic" || len(pc.Args) != 1 {
		return nil, c.errf("compatibility check does not panic")
	}
	if cl, ok := pc.Args[0].(*ast.CompositeLit); ok && fmt.Sprint(cl.Type) == "DimensionalityConflictError" {
		out.dimCheck = "panicDimensionalityConflict"
	} else {
		return nil, c.errf("panic value is not DimensionalityConflictError{}")
	}
	// the straight-line middle part, in source order
	for _, st := range body[1 : len(body)-1] {
		if err := c.stmt(st); err != nil {
			return nil, err
		}
	}
	// 5: return time.Duration(<v> * secondsToNanoseconds)
	ret, ok := body[len(body)-1].(*ast.ReturnStmt)
	if !ok || len(ret.Results) != 1 {
		return nil, c.errf("expected return")
	}
	conv, ok := ret.Results[0].(*ast.CallExpr)
	if !ok || len(conv.Args) != 1 {
		return nil, c.errf("return is not a conversion")
	}
	if sel, ok := conv.Fun.(*ast.SelectorExpr); !ok || fmt.Sprint(sel.X) != "time" || sel.Sel.Name != "Duration" {
		return nil, c.errf("return is not time.Duration(…)")
	}
	m, ok := conv.Args[0].(*ast.BinaryExpr)
	if !ok || m.Op != token.MUL || fmt.Sprint(m.Y) != "secondsToNanoseconds" {
		return nil, c.errf("return is not time.Duration(x * secondsToNanoseconds)")
	}
	if err := cfCheckConst(f, "secondsToNanoseconds", "1.0e9"); err != nil {
		return nil, err
	}
	out.seconds, err = c.expr(m.X)
	if err != nil {
		return nil, err
	}
	out.conv = "scaleThenTruncate"
	return out, nil
}

func cfCheckConst(f *ast.File, name, want string) error {
	for _, d := range f.Decls {
		gd, ok := d.(*ast.GenDecl)
		if !ok || gd.Tok != token.CONST {
			continue
		}
		for _, sp := range gd.Specs {
			vs := sp.(*ast.ValueSpec)
			for i, n := range vs.Names {
				if n.Name == name && i < len(vs.Values) {
					if b, ok := vs.Values[i].(*ast.BasicLit); ok && b.Value == want {
						return nil
					}
					return fmt.Errorf("const %s is not %s", name, want)
				}
			}
		}
	}
	return fmt.Errorf("const %s not found", name)
}

// IsCompatibleWith: return len(c.Vec) == len(other.Vec)
func cfCheckCompatible(f *ast.File) error {
	fd := findFunc(f, "Coordinate", "IsCompatibleWith")
	bad := fmt.Errorf("IsCompatibleWith: body is not `return len(c.Vec) == len(other.Vec)`")
	if fd == nil || len(fd.Body.List) != 1 {
		return bad
	}
	a, b, err := recvAndParam(fd)
	if err != nil {
		return err
	}
	ret, ok := fd.Body.List[0].(*ast.ReturnStmt)
	if !ok || len(ret.Results) != 1 {
		return bad
	}
	return cfLenCompare(ret.Results[0], token.EQL, a, b, bad)
}

func cfLenCompare(e ast.Expr, op token.Token, a, b string, bad error) error {
	eq, ok := e.(*ast.BinaryExpr)
	if !ok || eq.Op != op {
		return bad
	}
	isLen := func(e ast.Expr, v string) bool {
		c, ok := e.(*ast.CallExpr)
		if !ok || fmt.Sprint(c.Fun) != "len" || len(c.Args) != 1 {
			return false
		}
		s, ok := c.Args[0].(*ast.SelectorExpr)
		return ok && fmt.Sprint(s.X) == v && s.Sel.Name == "Vec"
	}
	if !isLen(eq.X, a) || !isLen(eq.Y, b) {
		return bad
	}
	return nil
}

// ---- the documentation: the example `func dist(a, b *coordinate.Coordinate) time.Duration`

func cfDocs(repo string) (*cfFormula, error) {
	raw, err := os.ReadFile(filepath.Join(repo, "docs", "internals", "coordinates.html.markdown"))
	if err != nil {
		return nil, err
	}
	var snippet string
	for _, blk := range strings.Split(string(raw), "```") {
		if strings.Contains(blk, "func dist(") {
			snippet = blk
		}
	}
	if snippet == "" {
		return nil, fmt.Errorf("docs: no fenced block with `func dist(`")
	}
	fset := token.NewFileSet()
	f, err := parser.ParseFile(fset, "docs.go", "package docs\n"+snippet, 0)
	if err != nil {
		return nil, fmt.Errorf("docs: snippet does not parse: %v", err)
	}
	fd := findFunc(f, "", "dist")
	if fd == nil {
		return nil, fmt.Errorf("docs: dist not found")
	}
	var params []string
	for _, p := range fd.Type.Params.List {
		for _, n := range p.Names {
			params = append(params, n.Name)
		}
	}
	if len(params) != 2 {
		return nil, fmt.Errorf("docs: dist does not take two coordinates")
	}
	c := &cfCtx{a: params[0], b: params[1], env: map[string]*cfExpr{}, where: "docs dist"}
	out := &cfFormula{}
	body := fd.Body.List
	if len(body) < 5 {
		return nil, c.errf("expected at least 5 statements, found %d", len(body))
	}
	// 1: if len(a.Vec) != len(b.Vec) { panic("…") }
	chk, ok := body[0].(*ast.IfStmt)
	if !ok || len(chk.Body.List) != 1 || chk.Else != nil {
		return nil, c.errf("first statement is not the dimension check")
	}
	if err := cfLenCompare(chk.Cond, token.NEQ, c.a, c.b, c.errf("dimension check shape")); err != nil {
		return nil, err
	}
	es, ok := chk.Body.List[0].(*ast.ExprStmt)
	if !ok {
		return nil, c.errf("dimension check body")
	}
	pc, ok := es.X.(*ast.CallExpr)
	if !ok || fmt.Sprint(pc.Fun) != "panic" || len(pc.Args) != 1 {
		return nil, c.errf("dimension check does not panic")
	}
	if bl, ok := pc.Args[0].(*ast.BasicLit); ok && bl.Kind == token.STRING {
		out.dimCheck = "panicMessage"
	} else {
		return nil, c.errf("panic value is not a string")
	}
	// 2: sumsq := 0.0
	as, ok := body[1].(*ast.AssignStmt)
	if !ok || as.Tok != token.DEFINE || len(as.Lhs) != 1 || len(as.Rhs) != 1 || !isFloatZero(as.Rhs[0]) {
		return nil, c.errf("expected `sumsq := 0.0`")
	}
	acc := as.Lhs[0].(*ast.Ident).Name
	// 3: for i := 0; i < len(a.Vec); i++ { d := X[i] - Y[i]; acc += d * d }
	fs, ok := body[2].(*ast.ForStmt)
	if !ok || len(fs.Body.List) != 2 {
		return nil, c.errf("expected the accumulation loop")
	}
	init, ok := fs.Init.(*ast.AssignStmt)
	if !ok || init.Tok != token.DEFINE || len(init.Lhs) != 1 || fmt.Sprint(init.Rhs[0].(*ast.BasicLit).Value) != "0" {
		return nil, c.errf("loop init")
	}
	i := init.Lhs[0].(*ast.Ident).Name
	cond, ok := fs.Cond.(*ast.BinaryExpr)
	if !ok || cond.Op != token.LSS || fmt.Sprint(cond.X) != i {
		return nil, c.errf("loop condition")
	}
	if ln, ok := cond.Y.(*ast.CallExpr); !ok || fmt.Sprint(ln.Fun) != "len" || len(ln.Args) != 1 {
		return nil, c.errf("loop bound")
	} else if v, ok := c.field(ln.Args[0]); !ok || v.op != "vecA" {
		return nil, c.errf("loop bound is not len(a.Vec)")
	}
	if inc, ok := fs.Post.(*ast.IncDecStmt); !ok || inc.Tok != token.INC || fmt.Sprint(inc.X) != i {
		return nil, c.errf("loop post")
	}
	d, ok := fs.Body.List[0].(*ast.AssignStmt)
	if !ok || d.Tok != token.DEFINE || len(d.Lhs) != 1 || len(d.Rhs) != 1 {
		return nil, c.errf("loop body: difference")
	}
	dn := d.Lhs[0].(*ast.Ident).Name
	sub, ok := d.Rhs[0].(*ast.BinaryExpr)
	if !ok || sub.Op != token.SUB {
		return nil, c.errf("loop body: difference")
	}
	comp := func(e ast.Expr) (*cfExpr, bool) {
		ix, ok := e.(*ast.IndexExpr)
		if !ok || fmt.Sprint(ix.Index) != i {
			return nil, false
		}
		return c.field(ix.X)
	}
	l, ok1 := comp(sub.X)
	r, ok2 := comp(sub.Y)
	if !ok1 || !ok2 || !l.isVec() || !r.isVec() {
		return nil, c.errf("loop body: difference of components")
	}
	ac, ok := fs.Body.List[1].(*ast.AssignStmt)
	if !ok || ac.Tok != token.ADD_ASSIGN || len(ac.Lhs) != 1 || len(ac.Rhs) != 1 || fmt.Sprint(ac.Lhs[0]) != acc {
		return nil, c.errf("loop body: accumulation")
	}
	sq, ok := ac.Rhs[0].(*ast.BinaryExpr)
	if !ok || sq.Op != token.MUL || fmt.Sprint(sq.X) != dn || fmt.Sprint(sq.Y) != dn {
		return nil, c.errf("loop body: square")
	}
	c.env[acc] = &cfExpr{op: "sumsq", args: []*cfExpr{{op: "diff", args: []*cfExpr{l, r}}}}
	// the straight-line rest, in source order
	for _, st := range body[3 : len(body)-1] {
		if err := c.stmt(st); err != nil {
			return nil, err
		}
	}
	// 7: return
	ret, ok := body[len(body)-1].(*ast.ReturnStmt)
	if !ok || len(ret.Results) != 1 {
		return nil, c.errf("expected return")
	}
	isDuration := func(e ast.Expr) (ast.Expr, bool) {
		cv, ok := e.(*ast.CallExpr)
		if !ok || len(cv.Args) != 1 {
			return nil, false
		}
		sel, ok := cv.Fun.(*ast.SelectorExpr)
		if !ok || fmt.Sprint(sel.X) != "time" || sel.Sel.Name != "Duration" {
			return nil, false
		}
		return cv.Args[0], true
	}
	isSel := func(e ast.Expr, pkg, name string) bool {
		s, ok := e.(*ast.SelectorExpr)
		if !ok || s.Sel.Name != name {
			return false
		}
		id, ok := s.X.(*ast.Ident)
		return ok && id.Name == pkg
	}
	if m, ok := ret.Results[0].(*ast.BinaryExpr); ok && m.Op == token.MUL {
		// time.Duration(x) * time.Second : converts x to an integer (whole seconds) first
		if inner, ok := isDuration(m.X); ok && isSel(m.Y, "time", "Second") {
			out.seconds, err = c.expr(inner)
			if err != nil {
				return nil, err
			}
			out.conv = "truncateThenScale"
			return out, nil
		}
	}
	if inner, ok := isDuration(ret.Results[0]); ok {
		// time.Duration(x * float64(time.Second)) or time.Duration(x * 1e9)
		if m, ok := inner.(*ast.BinaryExpr); ok && m.Op == token.MUL {
			scale := false
			if bl, ok := m.Y.(*ast.BasicLit); ok && (bl.Value == "1e9" || bl.Value == "1.0e9") {
				scale = true
			}
			if cv, ok := m.Y.(*ast.CallExpr); ok && fmt.Sprint(cv.Fun) == "float64" && len(cv.Args) == 1 && isSel(cv.Args[0], "time", "Second") {
				scale = true
			}
			if scale {
				out.seconds, err = c.expr(m.X)
				if err != nil {
					return nil, err
				}
				out.conv = "scaleThenTruncate"
				return out, nil
			}
		}
	}
	return nil, c.errf("return statement shape")
}

func init() {
	addGen("CoordFormula", func(repo string) (string, error) {
		code, err := cfCode(repo)
		if err != nil {
			return "", err
		}
		docs, err := cfDocs(repo)
		if err != nil {
			return "", err
		}
		var sb strings.Builder
		sb.WriteString("-- GENERATED by /verif/extract (coordformula.go) from coordinate/coordinate.go and\n")
		sb.WriteString("-- docs/internals/coordinates.html.markdown — do not edit.\n")
		sb.WriteString("import SerfModel.Model.CoordFormula\n")
		sb.WriteString("namespace SerfModel.Gen.CoordFormula\nopen SerfModel.Coord\n\n")
		emit := func(name, what string, f *cfFormula) {
			fmt.Fprintf(&sb, "/-- %s -/\ndef %s : Formula :=\n  { seconds := %s,\n    conv := Conv.%s,\n    dimCheck := DimCheck.%s }\n\n",
				what, name, f.seconds.lean(), f.conv, f.dimCheck)
		}
		emit("code", "Coordinate.DistanceTo with rawDistanceTo, magnitude and diff inlined (coordinate/coordinate.go)", code)
		emit("docs", "the example `dist` in docs/internals/coordinates.html.markdown", docs)
		sb.WriteString("end SerfModel.Gen.CoordFormula\n")
		return sb.String(), nil
	})
}
