package main

import (
	"fmt"
	"go/ast"
	"go/token"
	"os"
	"path/filepath"
	"sort"
	"strconv"
	"strings"
)

// Canonical form of a function body, so that generated facts depend on what the code MEANS rather than on how it
// is spelled.  canonFunc rewrites the (freshly parsed, private) AST of one function:
//
//   1. function-local `const x = <literal>` declarations are removed and their uses replaced by the literal; package
//      constants with a literal value are replaced by the literal as well (a literal hoisted into a const, or back);
//   2. numeric literals are normalised (1.0e-6 = 1e-06, 0.0 = 0, 2.0 = 2);
//   3. `for i := range xs { … xs[i] … }` where i is used only to read xs[i] becomes `for _, e := range xs { … e … }`;
//   4. `a > b` becomes `b < a`, `a >= b` becomes `b <= a`;
//   5. `x op= y` becomes `x = x op (y)`, `x++` becomes `x = x + 1`;
//   6. `var x [T] = e` becomes `x := e`;
//   7. `if !c { A } else { B }` becomes `if c { B } else { A }`;
//   8. optionally, statements that lock/unlock `<recv>.mutex` are dropped (defer vs explicit unlock);
//   9. receiver, parameters, named results and every local are renamed v0, v1, … in order of declaration
//      (alpha-renaming); selector fields and struct-literal keys are left alone;
//  10. comments and layout are dropped, one string per top-level statement.
//
// What it does not do (such edits still change the generated facts): inlining or extracting helper functions,
// reordering independent statements, early return versus if/else, algebraic rewrites of expressions.

type canonOpts struct {
	stripMutex bool
}

// pkgLiteralConsts: package-level constants of a directory whose value is a basic literal.
func pkgLiteralConsts(dir string) (map[string]*ast.BasicLit, error) {
	ents, err := os.ReadDir(dir)
	if err != nil {
		return nil, err
	}
	out := map[string]*ast.BasicLit{}
	canonDir = dir
	for _, e := range ents {
		n := e.Name()
		if !strings.HasSuffix(n, ".go") || strings.HasSuffix(n, "_test.go") {
			continue
		}
		_, f, err := parseFile(filepath.Join(dir, n))
		if err != nil {
			return nil, err
		}
		for _, d := range f.Decls {
			gd, ok := d.(*ast.GenDecl)
			if !ok || gd.Tok != token.CONST {
				continue
			}
			for _, sp := range gd.Specs {
				vs := sp.(*ast.ValueSpec)
				for i, id := range vs.Names {
					if i < len(vs.Values) {
						if bl, ok := vs.Values[i].(*ast.BasicLit); ok {
							out[id.Name] = bl
						} else if constExprOK(vs.Values[i]) {
							pkgExprConsts[dir+"\x00"+id.Name] = vs.Values[i]
						}
					}
				}
			}
		}
	}
	return out, nil
}

// pkgExprConsts: package constants whose value is an expression over literals and qualified names only
// (e.g. `10 * time.Second`), keyed by directory and name; filled by pkgLiteralConsts.
var pkgExprConsts = map[string]ast.Expr{}

var canonDir string // directory whose expression constants canonFunc may resolve

func constExprOK(e ast.Expr) bool {
	ok := true
	ast.Inspect(e, func(n ast.Node) bool {
		switch x := n.(type) {
		case *ast.SelectorExpr:
			if _, isId := x.X.(*ast.Ident); !isId {
				ok = false
			}
			return false // pkg.Name: fine, do not descend into the identifiers
		case *ast.Ident:
			ok = false // an unqualified name: another constant or iota, not resolved
		case *ast.CallExpr, *ast.FuncLit:
			ok = false
		}
		return ok
	})
	return ok
}

func normLit(b *ast.BasicLit) *ast.BasicLit {
	switch b.Kind {
	case token.FLOAT:
		if v, err := strconv.ParseFloat(b.Value, 64); err == nil {
			return &ast.BasicLit{Kind: token.FLOAT, Value: strconv.FormatFloat(v, 'g', -1, 64)}
		}
	case token.INT:
		if v, err := strconv.ParseInt(b.Value, 0, 64); err == nil {
			return &ast.BasicLit{Kind: token.INT, Value: strconv.FormatInt(v, 10)}
		}
	}
	return &ast.BasicLit{Kind: b.Kind, Value: b.Value}
}

// rewriteExprs applies f bottom-up to every expression position under n (statements and expressions that occur in
// the functions we canonicalise; an unknown node kind is reported).
type rewriter struct {
	f   func(ast.Expr) ast.Expr
	err error
}

func (r *rewriter) expr(e ast.Expr) ast.Expr {
	if e == nil {
		return nil
	}
	switch x := e.(type) {
	case *ast.Ident, *ast.BasicLit:
	case *ast.ParenExpr:
		x.X = r.expr(x.X)
	case *ast.UnaryExpr:
		x.X = r.expr(x.X)
	case *ast.StarExpr:
		x.X = r.expr(x.X)
	case *ast.BinaryExpr:
		x.X, x.Y = r.expr(x.X), r.expr(x.Y)
	case *ast.CallExpr:
		x.Fun = r.expr(x.Fun)
		for i := range x.Args {
			x.Args[i] = r.expr(x.Args[i])
		}
	case *ast.IndexExpr:
		x.X, x.Index = r.expr(x.X), r.expr(x.Index)
	case *ast.SliceExpr:
		x.X, x.Low, x.High, x.Max = r.expr(x.X), r.expr(x.Low), r.expr(x.High), r.expr(x.Max)
	case *ast.SelectorExpr:
		x.X = r.expr(x.X)
	case *ast.CompositeLit:
		for i := range x.Elts {
			if kv, ok := x.Elts[i].(*ast.KeyValueExpr); ok {
				kv.Value = r.expr(kv.Value) // keys are field names
			} else {
				x.Elts[i] = r.expr(x.Elts[i])
			}
		}
	case *ast.KeyValueExpr:
		x.Value = r.expr(x.Value)
	case *ast.TypeAssertExpr:
		x.X = r.expr(x.X)
	case *ast.ArrayType, *ast.MapType, *ast.FuncLit, *ast.StructType, *ast.InterfaceType, *ast.ChanType, *ast.FuncType:
		// types (and closures) are left alone
	default:
		r.err = fmt.Errorf("canon: expression %T", e)
	}
	return r.f(e)
}

func (r *rewriter) block(b *ast.BlockStmt) {
	if b == nil {
		return
	}
	for _, s := range b.List {
		r.stmt(s)
	}
}

func (r *rewriter) stmt(s ast.Stmt) {
	switch x := s.(type) {
	case nil:
	case *ast.ExprStmt:
		x.X = r.expr(x.X)
	case *ast.AssignStmt:
		for i := range x.Lhs {
			x.Lhs[i] = r.expr(x.Lhs[i])
		}
		for i := range x.Rhs {
			x.Rhs[i] = r.expr(x.Rhs[i])
		}
	case *ast.IncDecStmt:
		x.X = r.expr(x.X)
	case *ast.ReturnStmt:
		for i := range x.Results {
			x.Results[i] = r.expr(x.Results[i])
		}
	case *ast.IfStmt:
		r.stmt(x.Init)
		x.Cond = r.expr(x.Cond)
		r.block(x.Body)
		r.stmt(x.Else)
	case *ast.BlockStmt:
		r.block(x)
	case *ast.ForStmt:
		r.stmt(x.Init)
		x.Cond = r.expr(x.Cond)
		r.stmt(x.Post)
		r.block(x.Body)
	case *ast.RangeStmt:
		x.Key, x.Value, x.X = r.expr(x.Key), r.expr(x.Value), r.expr(x.X)
		r.block(x.Body)
	case *ast.DeclStmt:
		if gd, ok := x.Decl.(*ast.GenDecl); ok {
			for _, sp := range gd.Specs {
				if vs, ok := sp.(*ast.ValueSpec); ok {
					for i := range vs.Values {
						vs.Values[i] = r.expr(vs.Values[i])
					}
					for i := range vs.Names {
						if id, ok := r.f(vs.Names[i]).(*ast.Ident); ok {
							vs.Names[i] = id
						}
					}
				}
			}
		}
	case *ast.DeferStmt:
		x.Call = r.expr(x.Call).(*ast.CallExpr)
	case *ast.GoStmt:
		x.Call = r.expr(x.Call).(*ast.CallExpr)
	case *ast.SwitchStmt:
		r.stmt(x.Init)
		x.Tag = r.expr(x.Tag)
		r.block(x.Body)
	case *ast.CaseClause:
		for i := range x.List {
			x.List[i] = r.expr(x.List[i])
		}
		for _, st := range x.Body {
			r.stmt(st)
		}
	case *ast.BranchStmt, *ast.EmptyStmt:
	case *ast.LabeledStmt:
		r.stmt(x.Stmt)
	case *ast.SendStmt:
		x.Chan, x.Value = r.expr(x.Chan), r.expr(x.Value)
	default:
		r.err = fmt.Errorf("canon: statement %T", s)
	}
}

// mapBlocks applies f to the statement list of every block under s (innermost first).
func mapBlocks(s ast.Stmt, f func([]ast.Stmt) []ast.Stmt) {
	switch x := s.(type) {
	case *ast.BlockStmt:
		for _, st := range x.List {
			mapBlocks(st, f)
		}
		x.List = f(x.List)
	case *ast.IfStmt:
		mapBlocks(x.Body, f)
		if x.Else != nil {
			mapBlocks(x.Else, f)
		}
	case *ast.ForStmt:
		mapBlocks(x.Body, f)
	case *ast.RangeStmt:
		mapBlocks(x.Body, f)
	case *ast.SwitchStmt:
		mapBlocks(x.Body, f)
	case *ast.CaseClause:
		for _, st := range x.Body {
			mapBlocks(st, f)
		}
		x.Body = f(x.Body)
	case *ast.LabeledStmt:
		mapBlocks(x.Stmt, f)
	}
}

func isMutexCall(e ast.Expr, recv string) bool {
	c, ok := e.(*ast.CallExpr)
	if !ok {
		return false
	}
	t := strings.Join(strings.Fields(exprString(c)), "")
	for _, m := range []string{"Lock()", "Unlock()", "RLock()", "RUnlock()"} {
		if t == recv+".mutex."+m {
			return true
		}
	}
	return false
}

// canonFunc canonicalises fd in place and returns one string per top-level statement, plus the canonical names of
// the receiver and the parameters (in order).
func canonFunc(fd *ast.FuncDecl, pkgConsts map[string]*ast.BasicLit, opts canonOpts) ([]string, []string, error) {
	recv := ""
	if fd.Recv != nil && len(fd.Recv.List) == 1 && len(fd.Recv.List[0].Names) == 1 {
		recv = fd.Recv.List[0].Names[0].Name
	}
	// 8: mutex statements
	if opts.stripMutex && recv != "" {
		mapBlocks(fd.Body, func(l []ast.Stmt) []ast.Stmt {
			var out []ast.Stmt
			for _, st := range l {
				switch x := st.(type) {
				case *ast.ExprStmt:
					if isMutexCall(x.X, recv) {
						continue
					}
				case *ast.DeferStmt:
					if isMutexCall(x.Call, recv) {
						continue
					}
				}
				out = append(out, st)
			}
			return out
		})
	}
	// 1: local constants
	localConsts := map[string]ast.Expr{}
	mapBlocks(fd.Body, func(l []ast.Stmt) []ast.Stmt {
		var out []ast.Stmt
		for _, st := range l {
			if ds, ok := st.(*ast.DeclStmt); ok {
				if gd, ok := ds.Decl.(*ast.GenDecl); ok && gd.Tok == token.CONST {
					for _, sp := range gd.Specs {
						vs := sp.(*ast.ValueSpec)
						for i, id := range vs.Names {
							if i < len(vs.Values) {
								localConsts[id.Name] = vs.Values[i]
							}
						}
					}
					continue
				}
			}
			out = append(out, st)
		}
		return out
	})
	// 6: var x = e  ->  x := e
	mapBlocks(fd.Body, func(l []ast.Stmt) []ast.Stmt {
		for i, st := range l {
			ds, ok := st.(*ast.DeclStmt)
			if !ok {
				continue
			}
			gd, ok := ds.Decl.(*ast.GenDecl)
			if !ok || gd.Tok != token.VAR || len(gd.Specs) != 1 {
				continue
			}
			vs := gd.Specs[0].(*ast.ValueSpec)
			if len(vs.Values) != len(vs.Names) || len(vs.Values) == 0 {
				continue
			}
			as := &ast.AssignStmt{Tok: token.DEFINE, Rhs: vs.Values}
			for _, n := range vs.Names {
				as.Lhs = append(as.Lhs, n)
			}
			l[i] = as
		}
		return l
	})
	// 3: index-only range loops
	fresh := 0
	var rangeErr error
	var fixRanges func(s ast.Stmt)
	fixRanges = func(s ast.Stmt) {
		ast.Inspect(s, func(n ast.Node) bool {
			rs, ok := n.(*ast.RangeStmt)
			if !ok || rs.Tok != token.DEFINE || rs.Value != nil {
				return true
			}
			key, ok := rs.Key.(*ast.Ident)
			if !ok || key.Name == "_" {
				return true
			}
			sx := exprString(rs.X)
			// index expressions xs[i] that are written to or whose address is taken
			written := map[*ast.IndexExpr]bool{}
			ast.Inspect(rs.Body, func(m ast.Node) bool {
				mark := func(e ast.Expr) {
					for {
						switch y := e.(type) {
						case *ast.ParenExpr:
							e = y.X
							continue
						case *ast.IndexExpr:
							written[y] = true
						}
						return
					}
				}
				switch y := m.(type) {
				case *ast.AssignStmt:
					for _, l := range y.Lhs {
						mark(l)
					}
				case *ast.IncDecStmt:
					mark(y.X)
				case *ast.UnaryExpr:
					if y.Op == token.AND {
						mark(y.X)
					}
				}
				return true
			})
			uses, good := 0, 0
			var hits []*ast.IndexExpr
			ast.Inspect(rs.Body, func(m ast.Node) bool {
				switch y := m.(type) {
				case *ast.IndexExpr:
					if id, ok := y.Index.(*ast.Ident); ok && id.Name == key.Name && exprString(y.X) == sx && !written[y] {
						good++
						hits = append(hits, y)
					}
				case *ast.Ident:
					if y.Name == key.Name {
						uses++
					}
				}
				return true
			})
			if uses == 0 || uses != good {
				return true
			}
			name := fmt.Sprintf("elem%d", fresh)
			fresh++
			hit := map[*ast.IndexExpr]bool{}
			for _, h := range hits {
				hit[h] = true
			}
			rw := &rewriter{f: func(e ast.Expr) ast.Expr {
				if ix, ok := e.(*ast.IndexExpr); ok && hit[ix] {
					return &ast.Ident{Name: name}
				}
				return e
			}}
			rw.block(rs.Body)
			if rw.err != nil {
				rangeErr = rw.err
			}
			rs.Key = &ast.Ident{Name: "_"}
			rs.Value = &ast.Ident{Name: name}
			return true
		})
	}
	fixRanges(fd.Body)
	if rangeErr != nil {
		return nil, nil, rangeErr
	}
	// 9a: declared names, in order of declaration
	var declared []string
	seen := map[string]bool{}
	decl := func(id *ast.Ident) {
		if id != nil && id.Name != "_" && !seen[id.Name] {
			seen[id.Name] = true
			declared = append(declared, id.Name)
		}
	}
	fields := func(fl *ast.FieldList) {
		if fl == nil {
			return
		}
		for _, f := range fl.List {
			for _, n := range f.Names {
				decl(n)
			}
		}
	}
	fields(fd.Recv)
	fields(fd.Type.Params)
	nArgs := len(declared)
	fields(fd.Type.Results)
	ast.Inspect(fd.Body, func(n ast.Node) bool {
		switch x := n.(type) {
		case *ast.AssignStmt:
			if x.Tok == token.DEFINE {
				for _, l := range x.Lhs {
					if id, ok := l.(*ast.Ident); ok {
						decl(id)
					}
				}
			}
		case *ast.RangeStmt:
			if x.Tok == token.DEFINE {
				if id, ok := x.Key.(*ast.Ident); ok {
					decl(id)
				}
				if id, ok := x.Value.(*ast.Ident); ok {
					decl(id)
				}
			}
		case *ast.DeclStmt:
			if gd, ok := x.Decl.(*ast.GenDecl); ok && gd.Tok == token.VAR {
				for _, sp := range gd.Specs {
					for _, id := range sp.(*ast.ValueSpec).Names {
						decl(id)
					}
				}
			}
		}
		return true
	})
	rename := map[string]string{}
	for i, n := range declared {
		rename[n] = fmt.Sprintf("v%d", i)
	}
	// 1, 2, 4, 9b in one bottom-up pass
	rw := &rewriter{f: func(e ast.Expr) ast.Expr {
		switch x := e.(type) {
		case *ast.Ident:
			if nn, ok := rename[x.Name]; ok {
				return &ast.Ident{Name: nn}
			}
			if v, ok := localConsts[x.Name]; ok {
				if bl, ok := v.(*ast.BasicLit); ok {
					return normLit(bl)
				}
				return &ast.ParenExpr{X: v}
			}
			if bl, ok := pkgConsts[x.Name]; ok {
				return normLit(bl)
			}
			if pkgConsts != nil && canonDir != "" {
				if v, ok := pkgExprConsts[canonDir+"\x00"+x.Name]; ok {
					return &ast.ParenExpr{X: v}
				}
			}
		case *ast.BasicLit:
			return normLit(x)
		case *ast.BinaryExpr:
			switch x.Op {
			case token.GTR:
				return &ast.BinaryExpr{X: x.Y, Op: token.LSS, Y: x.X}
			case token.GEQ:
				return &ast.BinaryExpr{X: x.Y, Op: token.LEQ, Y: x.X}
			}
		}
		return e
	}}
	rw.block(fd.Body)
	if rw.err != nil {
		return nil, nil, rw.err
	}
	// 5, 7 (statement level)
	opOf := map[token.Token]token.Token{token.ADD_ASSIGN: token.ADD, token.SUB_ASSIGN: token.SUB, token.MUL_ASSIGN: token.MUL, token.QUO_ASSIGN: token.QUO}
	mapBlocks(fd.Body, func(l []ast.Stmt) []ast.Stmt {
		for i, st := range l {
			switch x := st.(type) {
			case *ast.AssignStmt:
				if op, ok := opOf[x.Tok]; ok && len(x.Lhs) == 1 && len(x.Rhs) == 1 {
					var y ast.Expr = x.Rhs[0]
					if _, isBin := y.(*ast.BinaryExpr); isBin {
						y = &ast.ParenExpr{X: y}
					}
					l[i] = &ast.AssignStmt{Lhs: x.Lhs, Tok: token.ASSIGN, Rhs: []ast.Expr{&ast.BinaryExpr{X: x.Lhs[0], Op: op, Y: y}}}
				}
			case *ast.IncDecStmt:
				op := token.ADD
				if x.Tok == token.DEC {
					op = token.SUB
				}
				l[i] = &ast.AssignStmt{Lhs: []ast.Expr{x.X}, Tok: token.ASSIGN, Rhs: []ast.Expr{&ast.BinaryExpr{X: x.X, Op: op, Y: &ast.BasicLit{Kind: token.INT, Value: "1"}}}}
			case *ast.IfStmt:
				if u, ok := x.Cond.(*ast.UnaryExpr); ok && u.Op == token.NOT {
					if eb, ok := x.Else.(*ast.BlockStmt); ok {
						x.Cond, x.Body, x.Else = u.X, eb, x.Body
					}
				}
			}
		}
		return l
	})
	var out []string
	for _, st := range fd.Body.List {
		out = append(out, cgStmtText(st))
	}
	var argNames []string
	for i := 0; i < nArgs; i++ {
		argNames = append(argNames, fmt.Sprintf("v%d", i))
	}
	return out, argNames, nil
}

// sortedKeys of a string set
func sortedKeys(m map[string]bool) []string {
	var l []string
	for k := range m {
		l = append(l, k)
	}
	sort.Strings(l)
	return l
}
