package main

import (
	"fmt"
	"go/ast"
	"go/token"
	"strconv"
	"strings"
)

// Structured reading of ReadConfigPaths and DecodeConfig (cmd/serf/command/agent/config.go).
//
// readTokens turns a statement list into one token per statement; a statement that is not one of
// the shapes below is an error:
//
//	result := new(Config)                                   init
//	X, err := os.Open(Y)                                    open
//	fi, err := f.Stat()                                     stat
//	contents, err := f.Readdir(-1)                          readdir
//	if err != nil { [f.Close();] return nil, fmt.Errorf(…) }  fail
//	config, err := DecodeConfig(f)                          decode
//	f.Close()                                               close
//	result = MergeConfig(result, config)                    merge:result,config   (or merge:config,result)
//	continue                                                continue
//	sort.Sort(dirEnts(contents))                            sort
//	if fi.IsDir() { continue }                              skipdir
//	if !strings.HasSuffix(fi.Name(), "<lit>") { continue }  suffix:<lit>
//	subpath := filepath.Join(path, fi.Name())               join
//	if !fi.IsDir() { … }                                    file[ … ]
//	for _, path := range paths { … }                        paths[ … ]
//	for _, fi := range contents { … }                       each[ … ]
//	return result, nil                                      return
func readTokens(stmts []ast.Stmt) ([]string, error) {
	var out []string
	for _, st := range stmts {
		txt := strings.Join(strings.Fields(exprString(st)), " ")
		switch s := st.(type) {
		case *ast.AssignStmt:
			switch {
			case txt == "result := new(Config)":
				out = append(out, "init")
			case len(s.Rhs) == 1 && strings.HasPrefix(exprString(s.Rhs[0]), "os.Open(") && s.Tok == token.DEFINE:
				out = append(out, "open")
			case txt == "fi, err := f.Stat()":
				out = append(out, "stat")
			case txt == "contents, err := f.Readdir(-1)":
				out = append(out, "readdir")
			case txt == "config, err := DecodeConfig(f)":
				out = append(out, "decode")
			case txt == "subpath := filepath.Join(path, fi.Name())":
				out = append(out, "join")
			case txt == "result = MergeConfig(result, config)":
				out = append(out, "merge:result,config")
			case txt == "result = MergeConfig(config, result)":
				out = append(out, "merge:config,result")
			default:
				return nil, fmt.Errorf("ReadConfigPaths: unsupported statement %s", txt)
			}
		case *ast.ExprStmt:
			switch txt {
			case "f.Close()":
				out = append(out, "close")
			case "sort.Sort(dirEnts(contents))":
				out = append(out, "sort")
			default:
				return nil, fmt.Errorf("ReadConfigPaths: unsupported statement %s", txt)
			}
		case *ast.BranchStmt:
			if s.Tok != token.CONTINUE || s.Label != nil {
				return nil, fmt.Errorf("ReadConfigPaths: unsupported statement %s", txt)
			}
			out = append(out, "continue")
		case *ast.ReturnStmt:
			if txt != "return result, nil" {
				return nil, fmt.Errorf("ReadConfigPaths: unsupported statement %s", txt)
			}
			out = append(out, "return")
		case *ast.IfStmt:
			if s.Init != nil || s.Else != nil {
				return nil, fmt.Errorf("ReadConfigPaths: unsupported statement %s", txt)
			}
			cond := exprString(s.Cond)
			switch {
			case cond == "err != nil":
				n := len(s.Body.List)
				if n == 0 || n > 2 || (n == 2 && exprString(s.Body.List[0]) != "f.Close()") {
					return nil, fmt.Errorf("ReadConfigPaths: unsupported error branch %s", txt)
				}
				ret, ok := s.Body.List[n-1].(*ast.ReturnStmt)
				if !ok || len(ret.Results) != 2 || exprString(ret.Results[0]) != "nil" || exprString(ret.Results[1]) == "nil" {
					return nil, fmt.Errorf("ReadConfigPaths: unsupported error branch %s", txt)
				}
				out = append(out, "fail")
			case cond == "fi.IsDir()":
				if !isContinue(s.Body, "") {
					return nil, fmt.Errorf("ReadConfigPaths: unsupported statement %s", txt)
				}
				out = append(out, "skipdir")
			case cond == "!fi.IsDir()":
				inner, err := readTokens(s.Body.List)
				if err != nil {
					return nil, err
				}
				out = append(out, "file[")
				out = append(out, inner...)
				out = append(out, "]")
			default:
				u, ok := s.Cond.(*ast.UnaryExpr)
				var c *ast.CallExpr
				if ok && u.Op == token.NOT {
					c, _ = u.X.(*ast.CallExpr)
				}
				if c == nil || exprString(c.Fun) != "strings.HasSuffix" || len(c.Args) != 2 || exprString(c.Args[0]) != "fi.Name()" || !isContinue(s.Body, "") {
					return nil, fmt.Errorf("ReadConfigPaths: unsupported statement %s", txt)
				}
				lit, ok := c.Args[1].(*ast.BasicLit)
				if !ok || lit.Kind != token.STRING {
					return nil, fmt.Errorf("ReadConfigPaths: suffix is not a literal: %s", txt)
				}
				suf, _ := strconv.Unquote(lit.Value)
				out = append(out, "suffix:"+suf)
			}
		case *ast.RangeStmt:
			hdr := fmt.Sprintf("%s, %s := range %s", exprString(s.Key), exprString(s.Value), exprString(s.X))
			var open string
			switch hdr {
			case "_, path := range paths":
				open = "paths["
			case "_, fi := range contents":
				open = "each["
			default:
				return nil, fmt.Errorf("ReadConfigPaths: unsupported loop %s", hdr)
			}
			inner, err := readTokens(s.Body.List)
			if err != nil {
				return nil, err
			}
			out = append(out, open)
			out = append(out, inner...)
			out = append(out, "]")
		default:
			return nil, fmt.Errorf("ReadConfigPaths: unsupported statement %s", txt)
		}
	}
	return out, nil
}

// readShape derives the variation points the Lean interpreter readPathsS understands from the
// token sequence; the sequence itself is emitted too and pinned by a `decide` obligation.
func readShape(f *ast.File, toks []string) (string, error) {
	section := func(open string) []string {
		depth, on := 0, false
		var out []string
		for _, t := range toks {
			if t == open && !on {
				on, depth = true, 1
				continue
			}
			if on {
				if strings.HasSuffix(t, "[") {
					depth++
				} else if t == "]" {
					depth--
					if depth == 0 {
						return out
					}
				}
				out = append(out, t)
			}
		}
		return out
	}
	mergeOf := func(sec []string, what string) (string, error) {
		var found []string
		for _, t := range sec {
			if strings.HasPrefix(t, "merge:") {
				found = append(found, t)
			}
		}
		if len(found) != 1 {
			return "", fmt.Errorf("ReadConfigPaths: %d merges in the %s branch", len(found), what)
		}
		if found[0] == "merge:result,config" {
			return ".resultFirst", nil
		}
		return ".configFirst", nil
	}
	fileM, err := mergeOf(section("file["), "file")
	if err != nil {
		return "", err
	}
	each := section("each[")
	dirM, err := mergeOf(each, "directory")
	if err != nil {
		return "", err
	}
	skip, suffix, nsuf := "false", "", 0
	for _, t := range each {
		if t == "skipdir" {
			skip = "true"
		}
		if strings.HasPrefix(t, "suffix:") {
			suffix = strings.TrimPrefix(t, "suffix:")
			nsuf++
		}
	}
	if nsuf != 1 {
		return "", fmt.Errorf("ReadConfigPaths: %d suffix tests in the directory loop", nsuf)
	}
	sorted := false
	for _, t := range toks {
		if t == "sort" {
			sorted = true
		}
	}
	order := ".unsorted"
	if sorted {
		less := findFunc(f, "dirEnts", "Less")
		if less == nil || len(less.Body.List) != 1 {
			return "", fmt.Errorf("dirEnts.Less not found or not a single statement")
		}
		switch exprString(less.Body.List[0]) {
		case "return d[i].Name() < d[j].Name()":
			order = ".ascending"
		case "return d[i].Name() > d[j].Name()":
			order = ".descending"
		default:
			return "", fmt.Errorf("dirEnts.Less: unsupported %s", exprString(less.Body.List[0]))
		}
	}
	return fmt.Sprintf("{ fileMerge := %s, sort := %s, skipSubdirs := %s, suffix := %q,\n    dirMerge := %s, dirMode := .running }", fileM, order, skip, suffix, dirM), nil
}

// decodeSteps reads DecodeConfig: json decode, mapstructure decode (with ErrorUnused), then one
// block per duration:
//
//	if result.<X>Raw != "" { dur, err := time.ParseDuration(result.<X>Raw); if err != nil { return nil, err }; result.<X> = dur }
//
// and `return &result, nil`. Returns the token list and the (raw, duration) pairs in order.
func decodeSteps(f *ast.File) ([]string, [][2]string, error) {
	fd := findFunc(f, "", "DecodeConfig")
	if fd == nil {
		return nil, nil, fmt.Errorf("DecodeConfig not found")
	}
	if err := normaliseDecode(f, fd); err != nil {
		return nil, nil, err
	}
	var toks []string
	var pairs [][2]string
	for _, st := range fd.Body.List {
		txt := strings.Join(strings.Fields(exprString(st)), " ")
		switch s := st.(type) {
		case *ast.DeclStmt:
			if gd, ok := s.Decl.(*ast.GenDecl); ok && len(gd.Specs) == 1 {
				if vs, ok := gd.Specs[0].(*ast.ValueSpec); ok && len(vs.Names) == 1 && vs.Type != nil && len(vs.Values) == 0 {
					txt = "var " + vs.Names[0].Name + " " + exprString(vs.Type)
				}
			}
			switch txt {
			case "var raw any", "var md mapstructure.Metadata", "var result Config":
				toks = append(toks, "decl")
			default:
				return nil, nil, fmt.Errorf("DecodeConfig: unsupported declaration %s", txt)
			}
		case *ast.AssignStmt:
			switch {
			case txt == "dec := json.NewDecoder(r)":
				toks = append(toks, "json-decoder")
			case strings.HasPrefix(txt, "msdec, err := mapstructure.NewDecoder(&mapstructure.DecoderConfig{"):
				cfg := strings.TrimSuffix(strings.TrimPrefix(txt, "msdec, err := mapstructure.NewDecoder(&mapstructure.DecoderConfig{"), "})")
				toks = append(toks, "mapstructure{"+strings.TrimSpace(strings.TrimSuffix(strings.TrimSpace(cfg), ","))+"}")
			default:
				return nil, nil, fmt.Errorf("DecodeConfig: unsupported statement %s", txt)
			}
		case *ast.IfStmt:
			if s.Else != nil {
				return nil, nil, fmt.Errorf("DecodeConfig: unsupported statement %s", txt)
			}
			if s.Init != nil {
				init := exprString(s.Init)
				if exprString(s.Cond) != "err != nil" || len(s.Body.List) != 1 || exprString(s.Body.List[0]) != "return nil, err" {
					return nil, nil, fmt.Errorf("DecodeConfig: unsupported statement %s", txt)
				}
				switch init {
				case "err := dec.Decode(&raw)":
					toks = append(toks, "json-decode-or-fail")
				case "err := msdec.Decode(raw)":
					toks = append(toks, "mapstructure-decode-or-fail")
				default:
					return nil, nil, fmt.Errorf("DecodeConfig: unsupported statement %s", txt)
				}
				continue
			}
			if exprString(s.Cond) == "err != nil" {
				if len(s.Body.List) != 1 || exprString(s.Body.List[0]) != "return nil, err" {
					return nil, nil, fmt.Errorf("DecodeConfig: unsupported statement %s", txt)
				}
				toks = append(toks, "fail")
				continue
			}
			be, ok := s.Cond.(*ast.BinaryExpr)
			if !ok || be.Op != token.NEQ || exprString(be.Y) != `""` || len(s.Body.List) != 3 {
				return nil, nil, fmt.Errorf("DecodeConfig: unsupported statement %s", txt)
			}
			r, raw, ok := selPath(be.X)
			if !ok || r != "result" {
				return nil, nil, fmt.Errorf("DecodeConfig: unsupported condition %s", exprString(s.Cond))
			}
			if exprString(s.Body.List[0]) != "dur, err := time.ParseDuration(result."+raw+")" {
				return nil, nil, fmt.Errorf("DecodeConfig: unsupported statement %s", exprString(s.Body.List[0]))
			}
			if e := strings.Join(strings.Fields(exprString(s.Body.List[1])), " "); e != "if err != nil { return nil, err }" {
				return nil, nil, fmt.Errorf("DecodeConfig: unsupported statement %s", e)
			}
			l, rhs, ok := singleAssign(s.Body.List[2])
			if !ok || !isIdent(rhs, "dur") {
				return nil, nil, fmt.Errorf("DecodeConfig: unsupported statement %s", exprString(s.Body.List[2]))
			}
			r2, dur, ok := selPath(l)
			if !ok || r2 != "result" {
				return nil, nil, fmt.Errorf("DecodeConfig: unsupported statement %s", exprString(s.Body.List[2]))
			}
			toks = append(toks, "duration")
			pairs = append(pairs, [2]string{raw, dur})
		case *ast.ReturnStmt:
			if txt != "return &result, nil" {
				return nil, nil, fmt.Errorf("DecodeConfig: unsupported return %s", txt)
			}
			toks = append(toks, "return")
		default:
			return nil, nil, fmt.Errorf("DecodeConfig: unsupported statement %s", txt)
		}
	}
	return toks, pairs, nil
}

// calleeOf returns the printed callee of a call expression ("os.Open", "X.Stat" with the receiver
// abstracted to X for method calls on a local).
func calleeOf(e ast.Expr) string {
	c, ok := e.(*ast.CallExpr)
	if !ok {
		return ""
	}
	if sel, ok := c.Fun.(*ast.SelectorExpr); ok {
		if id, ok := sel.X.(*ast.Ident); ok {
			switch id.Name {
			case "os", "filepath", "json", "mapstructure", "time", "strings", "sort":
				return id.Name + "." + sel.Sel.Name
			}
		}
		return "X." + sel.Sel.Name
	}
	return exprString(c.Fun)
}

// normaliseRead renames the parameter and the locals of ReadConfigPaths to the names the
// tokeniser is written in (roles by definition) and inlines string constants.
func normaliseRead(f *ast.File, fd *ast.FuncDecl) error {
	inlineConsts(f, fd)
	pn := paramNames(fd)
	if len(pn) != 1 {
		return fmt.Errorf("ReadConfigPaths signature %s", exprString(fd.Type))
	}
	m := map[string]string{pn[0]: "paths"}
	err := defineRoles(fd, func(rhs ast.Expr, i int) string {
		switch calleeOf(rhs) {
		case "new":
			if exprString(rhs) == "new(Config)" && i == 0 {
				return "result"
			}
		case "os.Open":
			return []string{"f", "err"}[i%2]
		case "X.Stat":
			return []string{"fi", "err"}[i%2]
		case "X.Readdir":
			return []string{"contents", "err"}[i%2]
		case "DecodeConfig":
			return []string{"config", "err"}[i%2]
		case "filepath.Join":
			if i == 0 {
				return "subpath"
			}
		}
		return ""
	}, m)
	if err != nil {
		return err
	}
	ast.Inspect(fd.Body, func(x ast.Node) bool {
		if rs, ok := x.(*ast.RangeStmt); ok && rs.Value != nil {
			if id, ok := rs.X.(*ast.Ident); ok {
				if v, ok := rs.Value.(*ast.Ident); ok {
					switch {
					case id.Name == pn[0]:
						m[v.Name] = "path"
					case m[id.Name] == "contents":
						m[v.Name] = "fi"
					}
				}
			}
		}
		return true
	})
	if err := checkRename(fd, m); err != nil {
		return err
	}
	renameIdents(fd, m)
	return nil
}

// normaliseDecode does the same for DecodeConfig.
func normaliseDecode(f *ast.File, fd *ast.FuncDecl) error {
	inlineConsts(f, fd)
	pn := paramNames(fd)
	if len(pn) != 1 {
		return fmt.Errorf("DecodeConfig signature %s", exprString(fd.Type))
	}
	m := map[string]string{pn[0]: "r"}
	ast.Inspect(fd.Body, func(x ast.Node) bool {
		if ds, ok := x.(*ast.DeclStmt); ok {
			if gd, ok := ds.Decl.(*ast.GenDecl); ok && gd.Tok == token.VAR && len(gd.Specs) == 1 {
				if vs, ok := gd.Specs[0].(*ast.ValueSpec); ok && len(vs.Names) == 1 && vs.Type != nil && len(vs.Values) == 0 {
					switch exprString(vs.Type) {
					case "any", "interface{}":
						m[vs.Names[0].Name] = "raw"
						vs.Type = ast.NewIdent("any")
					case "mapstructure.Metadata":
						m[vs.Names[0].Name] = "md"
					case "Config":
						m[vs.Names[0].Name] = "result"
					}
				}
			}
		}
		return true
	})
	err := defineRoles(fd, func(rhs ast.Expr, i int) string {
		switch calleeOf(rhs) {
		case "json.NewDecoder":
			if i == 0 {
				return "dec"
			}
		case "mapstructure.NewDecoder":
			return []string{"msdec", "err"}[i%2]
		case "time.ParseDuration":
			return []string{"dur", "err"}[i%2]
		case "X.Decode":
			if i == 0 {
				return "err"
			}
		}
		return ""
	}, m)
	if err != nil {
		return err
	}
	if err := checkRename(fd, m); err != nil {
		return err
	}
	renameIdents(fd, m)
	return nil
}
