package main

import (
	"fmt"
	"go/ast"
	"go/token"
	"sort"
	"strings"
)

// IPC reply headers (C25): every `responseHeader{…}` composite literal in
// cmd/serf/command/agent/ipc*.go with the function it occurs in and the expression
// used for Seq; where that function's `seq` comes from; every call that hands a
// `seq` on (handleRequest → handlers, handlers → stream constructors); every
// stream constructor's assignment of its `seq` field; any other write to a
// `seq` variable or field.

type ipcFunc struct {
	fd       *ast.FuncDecl
	name     string
	recv     string // receiver variable name
	recvType string
	seqParam int // index of the parameter named seq, -1 if none
}

func recvInfo(fd *ast.FuncDecl) (string, string) {
	if fd.Recv == nil || len(fd.Recv.List) != 1 {
		return "", ""
	}
	f := fd.Recv.List[0]
	t := f.Type
	if s, ok := t.(*ast.StarExpr); ok {
		t = s.X
	}
	name := ""
	if len(f.Names) == 1 {
		name = f.Names[0].Name
	}
	if id, ok := t.(*ast.Ident); ok {
		return name, id.Name
	}
	return name, exprString(t)
}

func seqParamIndex(fd *ast.FuncDecl) int {
	i := 0
	for _, f := range fd.Type.Params.List {
		if len(f.Names) == 0 {
			i++
			continue
		}
		for _, n := range f.Names {
			if n.Name == "seq" {
				return i
			}
			i++
		}
	}
	return -1
}

func genIpcHeaders(repo string) (string, error) {
	dir := repo + "/cmd/serf/command/agent/"
	files := []string{"ipc.go", "ipc_event_stream.go", "ipc_query_response_stream.go", "ipc_log_stream.go"}
	funcs := map[string]*ipcFunc{}
	var order []*ipcFunc
	for _, fn := range files {
		_, f, err := parseFile(dir + fn)
		if err != nil {
			return "", err
		}
		for _, d := range f.Decls {
			fd, ok := d.(*ast.FuncDecl)
			if !ok || fd.Body == nil {
				continue
			}
			r, rt := recvInfo(fd)
			x := &ipcFunc{fd: fd, name: fd.Name.Name, recv: r, recvType: rt, seqParam: seqParamIndex(fd)}
			key := rt + "." + fd.Name.Name
			if _, dup := funcs[key]; dup {
				return "", fmt.Errorf("duplicate function %s", key)
			}
			funcs[key] = x
			// constructors and handlers are looked up by bare name as well
			funcs[fd.Name.Name] = x
			order = append(order, x)
		}
	}
	sort.SliceStable(order, func(i, j int) bool {
		return order[i].recvType+"."+order[i].name < order[j].recvType+"."+order[j].name
	})

	var sites, ctors, calls []string
	fieldWrites := 0
	for _, x := range order {
		// where does this function's `seq` come from, and is it ever written again?
		origin := "none"
		if x.seqParam >= 0 {
			origin = "param"
		}
		writes := 0
		ast.Inspect(x.fd.Body, func(n ast.Node) bool {
			switch s := n.(type) {
			case *ast.AssignStmt:
				for i, l := range s.Lhs {
					if id, ok := l.(*ast.Ident); ok && id.Name == "seq" {
						if s.Tok == token.DEFINE && origin == "none" && i < len(s.Rhs) && len(s.Lhs) == len(s.Rhs) {
							origin = "local:" + exprString(s.Rhs[i])
						} else {
							writes++
						}
					}
					if sel, ok := l.(*ast.SelectorExpr); ok && sel.Sel.Name == "seq" {
						fieldWrites++
					}
				}
			case *ast.IncDecStmt:
				if id, ok := s.X.(*ast.Ident); ok && id.Name == "seq" {
					writes++
				}
				if sel, ok := s.X.(*ast.SelectorExpr); ok && sel.Sel.Name == "seq" {
					fieldWrites++
				}
			case *ast.UnaryExpr:
				if s.Op == token.AND {
					if id, ok := s.X.(*ast.Ident); ok && id.Name == "seq" {
						writes++ // address taken: could be written through the pointer
					}
				}
			}
			return true
		})
		var err error
		ast.Inspect(x.fd.Body, func(n ast.Node) bool {
			switch c := n.(type) {
			case *ast.CompositeLit:
				id, ok := c.Type.(*ast.Ident)
				if !ok {
					return true
				}
				if id.Name == "responseHeader" {
					seqExpr := "<missing>"
					for _, el := range c.Elts {
						kv, ok := el.(*ast.KeyValueExpr)
						if !ok {
							err = fmt.Errorf("%s: positional responseHeader literal", x.name)
							return false
						}
						if k, ok := kv.Key.(*ast.Ident); ok && k.Name == "Seq" {
							seqExpr = exprString(kv.Value)
						}
					}
					sites = append(sites, fmt.Sprintf("  { func := %q, recv := %q, recvType := %q, seqExpr := %q, seqOrigin := %q, seqWrites := %d }",
						x.name, x.recv, x.recvType, seqExpr, origin, writes))
				}
				if id.Name == "eventStream" || id.Name == "queryResponseStream" || id.Name == "logStream" {
					fieldExpr := "<missing>"
					for _, el := range c.Elts {
						kv, ok := el.(*ast.KeyValueExpr)
						if !ok {
							err = fmt.Errorf("%s: positional %s literal", x.name, id.Name)
							return false
						}
						if k, ok := kv.Key.(*ast.Ident); ok && k.Name == "seq" {
							fieldExpr = exprString(kv.Value)
						}
					}
					ctors = append(ctors, fmt.Sprintf("  { typ := %q, func := %q, seqFieldExpr := %q, hasSeqParam := %v, seqWrites := %d }",
						id.Name, x.name, fieldExpr, x.seqParam >= 0, writes))
				}
			case *ast.CallExpr:
				callee := ""
				switch f := c.Fun.(type) {
				case *ast.Ident:
					callee = f.Name
				case *ast.SelectorExpr:
					callee = f.Sel.Name
				}
				target, ok := funcs[callee]
				if !ok || target.seqParam < 0 {
					return true
				}
				if !(strings.HasPrefix(callee, "handle") || strings.HasPrefix(callee, "new")) {
					return true
				}
				arg := "<missing>"
				if target.seqParam < len(c.Args) {
					arg = exprString(c.Args[target.seqParam])
				}
				calls = append(calls, fmt.Sprintf("  { caller := %q, callee := %q, seqArg := %q }", x.name, callee, arg))
			}
			return true
		})
		if err != nil {
			return "", err
		}
	}
	if len(sites) == 0 || len(ctors) == 0 || len(calls) == 0 {
		return "", fmt.Errorf("no reply header sites / constructors / calls found (%d/%d/%d)", len(sites), len(ctors), len(calls))
	}
	var b strings.Builder
	b.WriteString("-- GENERATED by /verif/extract from cmd/serf/command/agent/ipc*.go — do not edit.\n")
	b.WriteString("import SerfModel.Model.IpcHeaders\nnamespace SerfModel.Gen.IpcHeaders\nopen SerfModel.IpcHeaders\n\n")
	b.WriteString("def headerSites : List HeaderSite := [\n" + strings.Join(sites, ",\n") + "\n]\n\n")
	b.WriteString("def ctors : List CtorSite := [\n" + strings.Join(ctors, ",\n") + "\n]\n\n")
	b.WriteString("def seqCalls : List CallSite := [\n" + strings.Join(calls, ",\n") + "\n]\n\n")
	fmt.Fprintf(&b, "def seqFieldWrites : Nat := %d\n\nend SerfModel.Gen.IpcHeaders\n", fieldWrites)
	return b.String(), nil
}

func init() { addGen("IpcHeaders", genIpcHeaders) }
