package main

import (
	"bufio"
	"fmt"
	"go/ast"
	"go/token"
	"os"
	"os/exec"
	"path/filepath"
	"strconv"
	"strings"
)

// skeletonOf renders the body of a function as an ordered list of one-line statements:
// simple statements as canonical source text, compound statements as a header line
// ("if <init>; <cond> {", "for … {", "switch … {", "case …:", "} else {") followed by
// their children and a closing "}".  Calls on a logger (x.logger.Printf, logger.Println,
// a.logger.Print…) and metrics calls carry no behaviour the models describe and are
// left out; nothing else is.  Anything not understood is an error.
func skeletonOf(fset *token.FileSet, fd *ast.FuncDecl) ([]string, error) {
	if fd == nil || fd.Body == nil {
		return nil, fmt.Errorf("function not found")
	}
	var out []string
	var walk func(s ast.Stmt) error
	block := func(b *ast.BlockStmt) error {
		for _, s := range b.List {
			if err := walk(s); err != nil {
				return err
			}
		}
		return nil
	}
	walk = func(s ast.Stmt) error {
		switch v := s.(type) {
		case *ast.BlockStmt:
			return block(v)
		case *ast.IfStmt:
			h := "if "
			if v.Init != nil {
				h += limText(fset, v.Init) + "; "
			}
			out = append(out, h+limText(fset, v.Cond)+" {")
			if err := block(v.Body); err != nil {
				return err
			}
			for v.Else != nil {
				switch e := v.Else.(type) {
				case *ast.BlockStmt:
					out = append(out, "} else {")
					if err := block(e); err != nil {
						return err
					}
					v = &ast.IfStmt{}
				case *ast.IfStmt:
					h := "} else if "
					if e.Init != nil {
						h += limText(fset, e.Init) + "; "
					}
					out = append(out, h+limText(fset, e.Cond)+" {")
					if err := block(e.Body); err != nil {
						return err
					}
					v = e
				default:
					return fmt.Errorf("unexpected else")
				}
			}
			out = append(out, "}")
		case *ast.RangeStmt:
			h := "for "
			if v.Key != nil {
				h += limText(fset, v.Key)
				if v.Value != nil {
					h += ", " + limText(fset, v.Value)
				}
				h += " " + v.Tok.String() + " "
			}
			out = append(out, h+"range "+limText(fset, v.X)+" {")
			if err := block(v.Body); err != nil {
				return err
			}
			out = append(out, "}")
		case *ast.ForStmt:
			h := "for "
			if v.Init != nil {
				h += limText(fset, v.Init)
			}
			h += "; "
			if v.Cond != nil {
				h += limText(fset, v.Cond)
			}
			h += "; "
			if v.Post != nil {
				h += limText(fset, v.Post)
			}
			out = append(out, h+" {")
			if err := block(v.Body); err != nil {
				return err
			}
			out = append(out, "}")
		case *ast.SwitchStmt, *ast.TypeSwitchStmt, *ast.SelectStmt:
			var body *ast.BlockStmt
			h := ""
			switch w := v.(type) {
			case *ast.SwitchStmt:
				h = "switch "
				if w.Init != nil {
					h += limText(fset, w.Init) + "; "
				}
				if w.Tag != nil {
					h += limText(fset, w.Tag) + " "
				}
				body = w.Body
			case *ast.TypeSwitchStmt:
				h = "switch " + limText(fset, w.Assign) + " "
				body = w.Body
			case *ast.SelectStmt:
				h = "select "
				body = w.Body
			}
			out = append(out, h+"{")
			for _, c := range body.List {
				switch cc := c.(type) {
				case *ast.CaseClause:
					if cc.List == nil {
						out = append(out, "default:")
					} else {
						var xs []string
						for _, e := range cc.List {
							xs = append(xs, limText(fset, e))
						}
						out = append(out, "case "+strings.Join(xs, ", ")+":")
					}
					for _, s := range cc.Body {
						if err := walk(s); err != nil {
							return err
						}
					}
				case *ast.CommClause:
					if cc.Comm == nil {
						out = append(out, "default:")
					} else {
						out = append(out, "case "+limText(fset, cc.Comm)+":")
					}
					for _, s := range cc.Body {
						if err := walk(s); err != nil {
							return err
						}
					}
				}
			}
			out = append(out, "}")
		case *ast.LabeledStmt:
			out = append(out, v.Label.Name+":")
			return walk(v.Stmt)
		case *ast.ExprStmt:
			if c, ok := v.X.(*ast.CallExpr); ok && isLogOrMetricsCall(c) {
				return nil
			}
			out = append(out, limText(fset, v))
		case *ast.DeferStmt:
			if isLogOrMetricsCall(v.Call) {
				return nil
			}
			out = append(out, limText(fset, v))
		case *ast.DeclStmt:
			// printer would attach the preceding comment: render the specs only
			gd, ok := v.Decl.(*ast.GenDecl)
			if !ok {
				return fmt.Errorf("unexpected declaration")
			}
			for _, sp := range gd.Specs {
				out = append(out, gd.Tok.String()+" "+limText(fset, sp))
			}
		case *ast.AssignStmt, *ast.ReturnStmt, *ast.BranchStmt, *ast.GoStmt, *ast.IncDecStmt, *ast.SendStmt, *ast.EmptyStmt:
			out = append(out, limText(fset, v))
		default:
			return fmt.Errorf("statement kind %T not understood", s)
		}
		return nil
	}
	if err := block(fd.Body); err != nil {
		return nil, fmt.Errorf("%s: %v", fd.Name.Name, err)
	}
	return out, nil
}

// isLogOrMetricsCall: <…>.logger.Printf/Println/Print, logger.Printf…, metrics.<…>
func isLogOrMetricsCall(c *ast.CallExpr) bool {
	ch := selChain(c.Fun)
	if ch == "" {
		return false
	}
	p := strings.Split(ch, ".")
	if len(p) < 2 {
		return false
	}
	m := p[len(p)-1]
	recv := p[len(p)-2]
	if (recv == "logger" || recv == "Logger") && (m == "Printf" || m == "Println" || m == "Print") {
		return true
	}
	return p[0] == "metrics"
}

func leanStringList(name, doc string, xs []string) string {
	var b strings.Builder
	fmt.Fprintf(&b, "/-- %s -/\ndef %s : List String := [", doc, name)
	for i, x := range xs {
		if i > 0 {
			b.WriteString(",")
		}
		b.WriteString("\n  " + strconv.Quote(x))
	}
	b.WriteString("\n]\n\n")
	return b.String()
}

func leanBytes(s string) string {
	p := make([]string, len(s))
	for i := 0; i < len(s); i++ {
		p[i] = strconv.Itoa(int(s[i]))
	}
	return "[" + strings.Join(p, ", ") + "]"
}

// moduleDir finds the source directory of a dependency in the module cache, at the
// version pinned in the repository's go.mod.
func moduleDir(repo, module string) (string, error) {
	f, err := os.Open(filepath.Join(repo, "go.mod"))
	if err != nil {
		return "", err
	}
	defer f.Close()
	version := ""
	sc := bufio.NewScanner(f)
	for sc.Scan() {
		fs := strings.Fields(sc.Text())
		for i, w := range fs {
			if w == module && i+1 < len(fs) {
				version = fs[i+1]
			}
		}
	}
	if version == "" {
		return "", fmt.Errorf("%s is not required by go.mod", module)
	}
	cache := os.Getenv("GOMODCACHE")
	if cache == "" {
		if out, err := exec.Command("go", "env", "GOMODCACHE").Output(); err == nil {
			cache = strings.TrimSpace(string(out))
		}
	}
	if cache == "" {
		home, _ := os.UserHomeDir()
		cache = filepath.Join(home, "go", "pkg", "mod")
	}
	dir := filepath.Join(cache, module+"@"+version)
	if _, err := os.Stat(dir); err != nil {
		return "", fmt.Errorf("module source %s not in the module cache", dir)
	}
	return dir, nil
}
