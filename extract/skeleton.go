package main

import (
	"bufio"
	"fmt"
	"go/ast"
	"go/token"
	"os"
	"os/exec"
	"path/filepath"
	"reflect"
	"strconv"
	"strings"
)

// skeletonOf renders the body of a function as an ordered list of one-line statements:
// simple statements as canonical source text, compound statements as a header line
// ("if <init>; <cond> {", "for … {", "switch … {", "case …:", "} else {") followed by
// their children and a closing "}".  Calls on a logger (x.logger.Printf, logger.Println,
// a.logger.Print…) and metrics calls carry no behaviour the models describe and are
// left out; nothing else is.  Anything not understood is an error.
func skeletonOf(fset *token.FileSet, fd *ast.FuncDecl) ([]string, error) {
	if fd == nil || fd.Body == nil {
		return nil, fmt.Errorf("function not found")
	}
	canonicalize(fd)
	var out []string
	var walk func(s ast.Stmt) error
	block := func(b *ast.BlockStmt) error {
		for _, s := range b.List {
			if err := walk(s); err != nil {
				return err
			}
		}
		return nil
	}
	walk = func(s ast.Stmt) error {
		switch v := s.(type) {
		case *ast.BlockStmt:
			return block(v)
		case *ast.IfStmt:
			h := "if "
			if v.Init != nil {
				h += limText(fset, v.Init) + "; "
			}
			out = append(out, h+limText(fset, v.Cond)+" {")
			if err := block(v.Body); err != nil {
				return err
			}
			for v.Else != nil {
				switch e := v.Else.(type) {
				case *ast.BlockStmt:
					out = append(out, "} else {")
					if err := block(e); err != nil {
						return err
					}
					v = &ast.IfStmt{}
				case *ast.IfStmt:
					h := "} else if "
					if e.Init != nil {
						h += limText(fset, e.Init) + "; "
					}
					out = append(out, h+limText(fset, e.Cond)+" {")
					if err := block(e.Body); err != nil {
						return err
					}
					v = e
				default:
					return fmt.Errorf("unexpected else")
				}
			}
			out = append(out, "}")
		case *ast.RangeStmt:
			h := "for "
			if v.Key != nil {
				h += limText(fset, v.Key)
				if v.Value != nil {
					h += ", " + limText(fset, v.Value)
				}
				h += " " + v.Tok.String() + " "
			}
			out = append(out, h+"range "+limText(fset, v.X)+" {")
			if err := block(v.Body); err != nil {
				return err
			}
			out = append(out, "}")
		case *ast.ForStmt:
			h := "for "
			if v.Init != nil {
				h += limText(fset, v.Init)
			}
			h += "; "
			if v.Cond != nil {
				h += limText(fset, v.Cond)
			}
			h += "; "
			if v.Post != nil {
				h += limText(fset, v.Post)
			}
			out = append(out, h+" {")
			if err := block(v.Body); err != nil {
				return err
			}
			out = append(out, "}")
		case *ast.SwitchStmt, *ast.TypeSwitchStmt, *ast.SelectStmt:
			var body *ast.BlockStmt
			h := ""
			switch w := v.(type) {
			case *ast.SwitchStmt:
				h = "switch "
				if w.Init != nil {
					h += limText(fset, w.Init) + "; "
				}
				if w.Tag != nil {
					h += limText(fset, w.Tag) + " "
				}
				body = w.Body
			case *ast.TypeSwitchStmt:
				h = "switch " + limText(fset, w.Assign) + " "
				body = w.Body
			case *ast.SelectStmt:
				h = "select "
				body = w.Body
			}
			out = append(out, h+"{")
			for _, c := range body.List {
				switch cc := c.(type) {
				case *ast.CaseClause:
					if cc.List == nil {
						out = append(out, "default:")
					} else {
						var xs []string
						for _, e := range cc.List {
							xs = append(xs, limText(fset, e))
						}
						out = append(out, "case "+strings.Join(xs, ", ")+":")
					}
					for _, s := range cc.Body {
						if err := walk(s); err != nil {
							return err
						}
					}
				case *ast.CommClause:
					if cc.Comm == nil {
						out = append(out, "default:")
					} else {
						out = append(out, "case "+limText(fset, cc.Comm)+":")
					}
					for _, s := range cc.Body {
						if err := walk(s); err != nil {
							return err
						}
					}
				}
			}
			out = append(out, "}")
		case *ast.LabeledStmt:
			out = append(out, v.Label.Name+":")
			return walk(v.Stmt)
		case *ast.ExprStmt:
			if c, ok := v.X.(*ast.CallExpr); ok && isLogOrMetricsCall(c) {
				return nil
			}
			out = append(out, limText(fset, v))
		case *ast.DeferStmt:
			if isLogOrMetricsCall(v.Call) {
				return nil
			}
			out = append(out, limText(fset, v))
		case *ast.DeclStmt:
			// printer would attach the preceding comment: render the specs only
			gd, ok := v.Decl.(*ast.GenDecl)
			if !ok {
				return fmt.Errorf("unexpected declaration")
			}
			if gd.Tok == token.CONST || gd.Tok == token.TYPE {
				return nil // no run-time effect: constants are resolved to their values where they are used
			}
			for _, sp := range gd.Specs {
				out = append(out, gd.Tok.String()+" "+limText(fset, sp))
			}
		case *ast.AssignStmt, *ast.ReturnStmt, *ast.BranchStmt, *ast.GoStmt, *ast.IncDecStmt, *ast.SendStmt, *ast.EmptyStmt:
			out = append(out, limText(fset, v))
		default:
			return fmt.Errorf("statement kind %T not understood", s)
		}
		return nil
	}
	if err := block(fd.Body); err != nil {
		return nil, fmt.Errorf("%s: %v", fd.Name.Name, err)
	}
	return out, nil
}

// calls recognised as logging before the locals were renamed
var logCallSet = map[*ast.CallExpr]bool{}

// isLogOrMetricsCall: <…>.logger.Printf/Println/Print, logger.Printf…, metrics.<…>, or
// Printf/Println/Print on a parameter or variable declared as *log.Logger (whatever its name).
func isLogOrMetricsCall(c *ast.CallExpr) bool {
	if logCallSet[c] {
		return true
	}
	if sel, ok := c.Fun.(*ast.SelectorExpr); ok {
		if id, ok := sel.X.(*ast.Ident); ok && id.Obj != nil {
			if fld, ok := id.Obj.Decl.(*ast.Field); ok && exprString(fld.Type) == "*log.Logger" &&
				(sel.Sel.Name == "Printf" || sel.Sel.Name == "Println" || sel.Sel.Name == "Print") {
				return true
			}
		}
	}
	ch := selChain(c.Fun)
	if ch == "" {
		return false
	}
	p := strings.Split(ch, ".")
	if len(p) < 2 {
		return false
	}
	m := p[len(p)-1]
	recv := p[len(p)-2]
	if (recv == "logger" || recv == "Logger") && (m == "Printf" || m == "Println" || m == "Print") {
		return true
	}
	return p[0] == "metrics"
}

func leanStringList(name, doc string, xs []string) string {
	var b strings.Builder
	fmt.Fprintf(&b, "/-- %s -/\ndef %s : List String := [", doc, name)
	for i, x := range xs {
		if i > 0 {
			b.WriteString(",")
		}
		b.WriteString("\n  " + strconv.Quote(x))
	}
	b.WriteString("\n]\n\n")
	return b.String()
}

func leanBytes(s string) string {
	p := make([]string, len(s))
	for i := 0; i < len(s); i++ {
		p[i] = strconv.Itoa(int(s[i]))
	}
	return "[" + strings.Join(p, ", ") + "]"
}

// moduleDir finds the source directory of a dependency in the module cache, at the
// version pinned in the repository's go.mod.
func moduleDir(repo, module string) (string, error) {
	f, err := os.Open(filepath.Join(repo, "go.mod"))
	if err != nil {
		return "", err
	}
	defer f.Close()
	version := ""
	sc := bufio.NewScanner(f)
	for sc.Scan() {
		fs := strings.Fields(sc.Text())
		for i, w := range fs {
			if w == module && i+1 < len(fs) {
				version = fs[i+1]
			}
		}
	}
	if version == "" {
		return "", fmt.Errorf("%s is not required by go.mod", module)
	}
	cache := os.Getenv("GOMODCACHE")
	if cache == "" {
		if out, err := exec.Command("go", "env", "GOMODCACHE").Output(); err == nil {
			cache = strings.TrimSpace(string(out))
		}
	}
	if cache == "" {
		home, _ := os.UserHomeDir()
		cache = filepath.Join(home, "go", "pkg", "mod")
	}
	dir := filepath.Join(cache, module+"@"+version)
	if _, err := os.Stat(dir); err != nil {
		return "", fmt.Errorf("module source %s not in the module cache", dir)
	}
	return dir, nil
}

// ---- canonical form -------------------------------------------------------------------
//
// Before a function is rendered it is brought into a canonical form, so that spellings
// with the same meaning give the same skeleton:
//   - identifiers that name a constant of the same file (package level or local) whose value
//     is a literal or a constant integer expression are replaced by that value
//     (`maxBufSize` -> 8192): constants are pinned by VALUE, hoisting a literal into a const
//     or back changes nothing;
//   - fmt.Sprintf with a literal format whose only verbs are %s is replaced by the
//     concatenation it denotes (`fmt.Sprintf("A_%s=%s", x, y)` -> `"A_" + x + "=" + y`);
//   - local variables, parameters and the receiver are renamed v0, v1, … in the order in which
//     they first occur (alpha-normalisation); fields, methods, package-level names and labels
//     keep their names.

var canonDone = map[*ast.FuncDecl]bool{}

func rewriteExprs(root ast.Node, f func(ast.Expr) ast.Expr) {
	ast.Inspect(root, func(n ast.Node) bool {
		if n == nil {
			return false
		}
		v := reflect.ValueOf(n)
		if v.Kind() == reflect.Ptr {
			v = v.Elem()
		}
		if v.Kind() != reflect.Struct {
			return true
		}
		for i := 0; i < v.NumField(); i++ {
			fv := v.Field(i)
			if !fv.CanSet() {
				continue
			}
			switch fv.Kind() {
			case reflect.Interface:
				if e, ok := fv.Interface().(ast.Expr); ok && e != nil {
					if ne := f(e); ne != e {
						fv.Set(reflect.ValueOf(ne))
					}
				}
			case reflect.Slice:
				for j := 0; j < fv.Len(); j++ {
					el := fv.Index(j)
					if el.Kind() != reflect.Interface {
						continue
					}
					if e, ok := el.Interface().(ast.Expr); ok && e != nil {
						if ne := f(e); ne != e {
							el.Set(reflect.ValueOf(ne))
						}
					}
				}
			}
		}
		return true
	})
}

// constValue: the literal a constant identifier stands for, if it can be determined.
func constValue(id *ast.Ident) (ast.Expr, bool) {
	if id.Obj == nil || id.Obj.Kind != ast.Con {
		return nil, false
	}
	vs, ok := id.Obj.Decl.(*ast.ValueSpec)
	if !ok {
		return nil, false
	}
	for i, n := range vs.Names {
		if n.Name != id.Obj.Name || i >= len(vs.Values) {
			continue
		}
		if bl, ok := vs.Values[i].(*ast.BasicLit); ok && (bl.Kind == token.STRING || bl.Kind == token.CHAR) {
			return &ast.BasicLit{Kind: bl.Kind, Value: bl.Value}, true
		}
		if v, err := limEval(vs.Values[i]); err == nil {
			return &ast.BasicLit{Kind: token.INT, Value: strconv.FormatInt(v, 10)}, true
		}
	}
	return nil, false
}

// sprintfAsConcat: fmt.Sprintf(<literal with only %s verbs>, args…) as a + chain.
func sprintfAsConcat(c *ast.CallExpr) (ast.Expr, bool) {
	if selChain(c.Fun) != "fmt.Sprintf" || len(c.Args) < 1 {
		return nil, false
	}
	format, ok := strLit(c.Args[0])
	if !ok {
		return nil, false
	}
	segs := strings.Split(format, "%s")
	if len(segs)-1 != len(c.Args)-1 {
		return nil, false
	}
	for _, sg := range segs {
		if strings.Contains(sg, "%") {
			return nil, false // another verb (or %%): not a plain concatenation
		}
	}
	var parts []ast.Expr
	for i, sg := range segs {
		if sg != "" {
			parts = append(parts, &ast.BasicLit{Kind: token.STRING, Value: strconv.Quote(sg)})
		}
		if i < len(c.Args)-1 {
			parts = append(parts, c.Args[i+1])
		}
	}
	if len(parts) == 0 {
		return &ast.BasicLit{Kind: token.STRING, Value: `""`}, true
	}
	e := parts[0]
	for _, p := range parts[1:] {
		e = &ast.BinaryExpr{X: e, Op: token.ADD, Y: p}
	}
	return e, true
}

func canonicalize(fd *ast.FuncDecl) {
	if fd == nil || canonDone[fd] {
		return
	}
	canonDone[fd] = true
	ast.Inspect(fd, func(n ast.Node) bool {
		if c, ok := n.(*ast.CallExpr); ok && isLogOrMetricsCall(c) {
			logCallSet[c] = true
		}
		return true
	})
	rewriteExprs(fd, func(e ast.Expr) ast.Expr {
		switch v := e.(type) {
		case *ast.Ident:
			if lit, ok := constValue(v); ok {
				return lit
			}
		case *ast.CallExpr:
			if cc, ok := sprintfAsConcat(v); ok {
				return cc
			}
		}
		return e
	})
	// pass 1: which objects are declared inside this function (Object.Pos looks the declaring
	// identifier up by NAME, so this must be settled before anything is renamed)
	local := map[*ast.Object]bool{}
	var order []*ast.Object
	ast.Inspect(fd, func(n ast.Node) bool {
		id, ok := n.(*ast.Ident)
		if !ok || id.Obj == nil || id.Name == "_" {
			return true
		}
		if id.Obj.Kind != ast.Var {
			return true // constants are resolved by value, labels / types / functions keep their names
		}
		if _, seen := local[id.Obj]; seen {
			return true
		}
		p := id.Obj.Pos()
		local[id.Obj] = p >= fd.Pos() && p <= fd.End()
		if local[id.Obj] {
			order = append(order, id.Obj)
		}
		return true
	})
	names := map[*ast.Object]string{}
	for i, o := range order {
		names[o] = fmt.Sprintf("v%d", i)
	}
	// pass 2: rename
	ast.Inspect(fd, func(n ast.Node) bool {
		if id, ok := n.(*ast.Ident); ok && id.Obj != nil {
			if nm, ok := names[id.Obj]; ok {
				id.Name = nm
			}
		}
		return true
	})
}

// templateOf renders a string-building expression as a template: literal parts verbatim, every
// other operand as a hole `{}`; a residual fmt.Sprintf contributes its format with %s -> {},
// %d -> {d}, %v -> {v}.  ok = the expression has at least one literal part.
func templateOf(e ast.Expr) (string, bool) {
	switch v := e.(type) {
	case *ast.BasicLit:
		if s, ok := strLit(v); ok {
			return s, true
		}
	case *ast.ParenExpr:
		return templateOf(v.X)
	case *ast.BinaryExpr:
		if v.Op == token.ADD {
			a, oka := templateOf(v.X)
			b, okb := templateOf(v.Y)
			return a + b, oka || okb
		}
	case *ast.CallExpr:
		if selChain(v.Fun) == "fmt.Sprintf" && len(v.Args) >= 1 {
			if f, ok := strLit(v.Args[0]); ok {
				r := strings.NewReplacer("%s", "{}", "%d", "{d}", "%v", "{v}")
				return r.Replace(f), true
			}
		}
	}
	return "{}", false
}

// stringTemplates lists, in source order, the templates of the maximal string-building
// expressions inside n.
func stringTemplates(n ast.Node) []string {
	var out []string
	ast.Inspect(n, func(x ast.Node) bool {
		if gd, ok := x.(*ast.GenDecl); ok && gd.Tok == token.CONST {
			return false // a constant's value counts where it is used
		}
		e, ok := x.(ast.Expr)
		if !ok {
			return true
		}
		switch e.(type) {
		case *ast.BinaryExpr, *ast.CallExpr, *ast.BasicLit:
			if t, ok := templateOf(e); ok {
				if _, isCall := e.(*ast.CallExpr); isCall && selChain(e.(*ast.CallExpr).Fun) != "fmt.Sprintf" {
					return true
				}
				out = append(out, t)
				return false
			}
		}
		return true
	})
	return out
}
