// verifextract regenerates the Lean files under SerfModel/Gen from the current
// source of /repo (go/ast only, standard library only).
//
//	extract -repo /repo -out DIR
//
// Each generator translates one source fragment.  A generator that meets a shape
// it does not understand reports an error and writes no file: the check then
// treats the missing/changed file as a broken obligation and searches for a
// failing input.  The result of every generator is listed in DIR/extract.json.
package main

import (
	"bytes"
	"encoding/json"
	"flag"
	"fmt"
	"go/ast"
	"go/parser"
	"go/printer"
	"go/token"
	"os"
	"path/filepath"
	"sort"
)

type generator struct {
	name string // output file (without .lean)
	run  func(repo string) (string, error)
}

var generators []generator

func addGen(name string, run func(repo string) (string, error)) {
	generators = append(generators, generator{name, run})
}

func parseFile(path string) (*token.FileSet, *ast.File, error) {
	fset := token.NewFileSet()
	f, err := parser.ParseFile(fset, path, nil, parser.ParseComments)
	return fset, f, err
}

// findFunc returns the declaration of method recv.name (recv without '*') or of
// the function name when recv is empty.
func findFunc(f *ast.File, recv, name string) *ast.FuncDecl {
	for _, d := range f.Decls {
		fd, ok := d.(*ast.FuncDecl)
		if !ok || fd.Name.Name != name {
			continue
		}
		if recv == "" {
			if fd.Recv == nil {
				return fd
			}
			continue
		}
		if fd.Recv == nil || len(fd.Recv.List) != 1 {
			continue
		}
		t := fd.Recv.List[0].Type
		if s, ok := t.(*ast.StarExpr); ok {
			t = s.X
		}
		if id, ok := t.(*ast.Ident); ok && id.Name == recv {
			return fd
		}
	}
	return nil
}

// exprString prints an AST node as Go source.
func exprString(e ast.Node) string {
	var b bytes.Buffer
	_ = printer.Fprint(&b, token.NewFileSet(), e)
	return b.String()
}

func main() {
	repo := flag.String("repo", "/repo", "repository root")
	out := flag.String("out", "", "output directory")
	flag.Parse()
	if *out == "" {
		fmt.Fprintln(os.Stderr, "extract: -out required")
		os.Exit(2)
	}
	_ = os.MkdirAll(*out, 0o755)
	result := map[string]string{}
	sort.Slice(generators, func(i, j int) bool { return generators[i].name < generators[j].name })
	failed := false
	for _, g := range generators {
		src, err := g.run(*repo)
		if err != nil {
			result[g.name] = "error: " + err.Error()
			failed = true
			continue
		}
		if err := os.WriteFile(filepath.Join(*out, g.name+".lean"), []byte(src), 0o644); err != nil {
			result[g.name] = "error: " + err.Error()
			failed = true
			continue
		}
		result[g.name] = "ok"
	}
	b, _ := json.MarshalIndent(result, "", " ")
	_ = os.WriteFile(filepath.Join(*out, "extract.json"), b, 0o644)
	if failed {
		os.Exit(1)
	}
}
