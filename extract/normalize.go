package main

import (
	"fmt"
	"go/ast"
	"go/token"
)

// Normalisation helpers shared by the shape extractors, so that behaviour-preserving edits (renamed
// locals / receivers / parameters, a trivial helper extracted, `x += 1` for `x++`) do not change the facts.

// renameIdentsQ renames identifiers (not the field/method names of selector expressions, not struct-literal
// keys) according to m, in place.
func renameIdentsQ(n ast.Node, m map[string]string) {
	skip := map[*ast.Ident]bool{}
	ast.Inspect(n, func(x ast.Node) bool {
		switch v := x.(type) {
		case *ast.SelectorExpr:
			skip[v.Sel] = true
		case *ast.KeyValueExpr:
			if id, ok := v.Key.(*ast.Ident); ok {
				skip[id] = true
			}
		}
		return true
	})
	ast.Inspect(n, func(x ast.Node) bool {
		if id, ok := x.(*ast.Ident); ok && !skip[id] {
			if to, ok := m[id.Name]; ok {
				id.Name = to
			}
		}
		return true
	})
}

// substIdents replaces identifiers by expressions (parameters by arguments), returning the rewritten statement.
func substStmt(s ast.Stmt, m map[string]ast.Expr) ast.Stmt {
	var expr func(e ast.Expr) ast.Expr
	expr = func(e ast.Expr) ast.Expr {
		switch x := e.(type) {
		case *ast.Ident:
			if a, ok := m[x.Name]; ok {
				return &ast.ParenExpr{X: a}
			}
			return x
		case *ast.SelectorExpr:
			return &ast.SelectorExpr{X: expr(x.X), Sel: x.Sel}
		case *ast.IndexExpr:
			return &ast.IndexExpr{X: expr(x.X), Index: expr(x.Index)}
		case *ast.CallExpr:
			c := &ast.CallExpr{Fun: expr(x.Fun), Ellipsis: x.Ellipsis}
			for _, a := range x.Args {
				c.Args = append(c.Args, expr(a))
			}
			return c
		case *ast.BinaryExpr:
			return &ast.BinaryExpr{X: expr(x.X), Op: x.Op, Y: expr(x.Y)}
		case *ast.UnaryExpr:
			return &ast.UnaryExpr{Op: x.Op, X: expr(x.X)}
		case *ast.ParenExpr:
			return &ast.ParenExpr{X: expr(x.X)}
		case *ast.StarExpr:
			return &ast.StarExpr{X: expr(x.X)}
		}
		return e
	}
	switch x := s.(type) {
	case *ast.ExprStmt:
		return &ast.ExprStmt{X: expr(x.X)}
	case *ast.IncDecStmt:
		return &ast.IncDecStmt{X: expr(x.X), Tok: x.Tok}
	case *ast.AssignStmt:
		a := &ast.AssignStmt{Tok: x.Tok}
		for _, l := range x.Lhs {
			a.Lhs = append(a.Lhs, expr(l))
		}
		for _, r := range x.Rhs {
			a.Rhs = append(a.Rhs, expr(r))
		}
		return a
	}
	return nil
}

// unparen drops redundant parentheses around identifiers and selector chains (introduced by substStmt).
func unparen(n ast.Node) {
	var fix func(e ast.Expr) ast.Expr
	simple := func(e ast.Expr) bool {
		switch e.(type) {
		case *ast.Ident, *ast.SelectorExpr, *ast.BasicLit, *ast.IndexExpr, *ast.CallExpr:
			return true
		}
		return false
	}
	fix = func(e ast.Expr) ast.Expr {
		if p, ok := e.(*ast.ParenExpr); ok && simple(p.X) {
			return fix(p.X)
		}
		return e
	}
	ast.Inspect(n, func(x ast.Node) bool {
		switch v := x.(type) {
		case *ast.SelectorExpr:
			v.X = fix(v.X)
		case *ast.IndexExpr:
			v.X, v.Index = fix(v.X), fix(v.Index)
		case *ast.CallExpr:
			for i := range v.Args {
				v.Args[i] = fix(v.Args[i])
			}
		case *ast.BinaryExpr:
			v.X, v.Y = fix(v.X), fix(v.Y)
		case *ast.UnaryExpr:
			v.X = fix(v.X)
		case *ast.AssignStmt:
			for i := range v.Lhs {
				v.Lhs[i] = fix(v.Lhs[i])
			}
			for i := range v.Rhs {
				v.Rhs[i] = fix(v.Rhs[i])
			}
		case *ast.IncDecStmt:
			v.X = fix(v.X)
		case *ast.ExprStmt:
			v.X = fix(v.X)
		}
		return true
	})
}

// trivialHelper returns the parameter names and the straight-line body (expression statements, assignments,
// ++/--; no control flow, no return value) of package-level function name in f, if it is of that kind.
func trivialHelper(f *ast.File, name string) ([]string, []ast.Stmt, bool) {
	fd := findFunc(f, "", name)
	if fd == nil || fd.Body == nil || fd.Type.Results != nil && len(fd.Type.Results.List) > 0 {
		return nil, nil, false
	}
	var params []string
	for _, p := range fd.Type.Params.List {
		for _, n := range p.Names {
			params = append(params, n.Name)
		}
	}
	for _, s := range fd.Body.List {
		switch s.(type) {
		case *ast.ExprStmt, *ast.AssignStmt, *ast.IncDecStmt:
		default:
			return nil, nil, false
		}
	}
	return params, fd.Body.List, true
}

// inlineHelpers replaces, one level deep and recursively through nested blocks, every statement that is a call
// of a trivial same-file helper by the helper's body with the arguments substituted; `x += 1` becomes `x++`.
func inlineHelpers(f *ast.File, list []ast.Stmt) ([]ast.Stmt, error) {
	var out []ast.Stmt
	for _, s := range list {
		switch x := s.(type) {
		case *ast.ExprStmt:
			if c, ok := x.X.(*ast.CallExpr); ok {
				if id, ok := c.Fun.(*ast.Ident); ok {
					if params, body, ok := trivialHelper(f, id.Name); ok {
						if len(params) != len(c.Args) {
							return nil, fmt.Errorf("call of %s: argument count", id.Name)
						}
						m := map[string]ast.Expr{}
						for i, p := range params {
							m[p] = c.Args[i]
						}
						for _, b := range body {
							ns := substStmt(b, m)
							if ns == nil {
								return nil, fmt.Errorf("helper %s: unsupported statement", id.Name)
							}
							unparen(ns)
							out = append(out, ns)
						}
						continue
					}
				}
			}
			out = append(out, s)
		case *ast.AssignStmt:
			if x.Tok == token.ADD_ASSIGN && len(x.Lhs) == 1 && len(x.Rhs) == 1 {
				if l, ok := x.Rhs[0].(*ast.BasicLit); ok && l.Value == "1" {
					out = append(out, &ast.IncDecStmt{X: x.Lhs[0], Tok: token.INC})
					continue
				}
			}
			out = append(out, s)
		case *ast.IfStmt:
			var err error
			if x.Body.List, err = inlineHelpers(f, x.Body.List); err != nil {
				return nil, err
			}
			if eb, ok := x.Else.(*ast.BlockStmt); ok {
				if eb.List, err = inlineHelpers(f, eb.List); err != nil {
					return nil, err
				}
			} else if ei, ok := x.Else.(*ast.IfStmt); ok {
				l, err := inlineHelpers(f, []ast.Stmt{ei})
				if err != nil {
					return nil, err
				}
				x.Else = l[0]
			}
			out = append(out, s)
		case *ast.LabeledStmt:
			l, err := inlineHelpers(f, []ast.Stmt{x.Stmt})
			if err != nil {
				return nil, err
			}
			if len(l) == 1 {
				x.Stmt = l[0]
			}
			out = append(out, s)
		case *ast.BlockStmt:
			var err error
			if x.List, err = inlineHelpers(f, x.List); err != nil {
				return nil, err
			}
			out = append(out, s)
		default:
			out = append(out, s)
		}
	}
	return out, nil
}
