package main

import (
	"fmt"
	"go/ast"
	"go/token"
	"strings"
)

// Gen/RelayGuard.lean: the "is the cluster big enough" guard of serf/query.go
// relayResponse, translated with Go's integer typing: the least member count for
// which relaying proceeds, as a function of the relay factor (a uint8).  An addition
// carried out in uint8 wraps modulo 256; one carried out after the conversion to int
// does not.  Shapes the translator does not understand are an error.

type rgVal struct {
	lean string
	typ  string // "uint8", "int", "untyped"
}

func rgExpr(e ast.Expr, env map[string]rgVal) (rgVal, error) {
	switch x := e.(type) {
	case *ast.ParenExpr:
		return rgExpr(x.X, env)
	case *ast.Ident:
		if v, ok := env[x.Name]; ok {
			return v, nil
		}
		return rgVal{}, fmt.Errorf("unknown identifier %s in relay guard", x.Name)
	case *ast.BasicLit:
		if x.Kind != token.INT {
			return rgVal{}, fmt.Errorf("non-integer literal %s in relay guard", x.Value)
		}
		return rgVal{x.Value, "untyped"}, nil
	case *ast.CallExpr:
		id, ok := x.Fun.(*ast.Ident)
		if !ok || len(x.Args) != 1 {
			return rgVal{}, fmt.Errorf("unsupported call %s in relay guard", exprString(x))
		}
		a, err := rgExpr(x.Args[0], env)
		if err != nil {
			return rgVal{}, err
		}
		switch id.Name {
		case "int", "int64", "uint", "uint64", "int32", "uint32":
			// widening conversion of a value < 256: the value is unchanged
			return rgVal{a.lean, "int"}, nil
		case "uint8", "byte":
			return rgVal{"((" + a.lean + ") % 256)", "uint8"}, nil
		}
		return rgVal{}, fmt.Errorf("unsupported conversion %s in relay guard", id.Name)
	case *ast.BinaryExpr:
		if x.Op != token.ADD {
			return rgVal{}, fmt.Errorf("unsupported operator %s in relay guard", x.Op)
		}
		a, err := rgExpr(x.X, env)
		if err != nil {
			return rgVal{}, err
		}
		b, err := rgExpr(x.Y, env)
		if err != nil {
			return rgVal{}, err
		}
		typ := a.typ
		if typ == "untyped" {
			typ = b.typ
		}
		if a.typ != "untyped" && b.typ != "untyped" && a.typ != b.typ {
			return rgVal{}, fmt.Errorf("mixed operand types in relay guard: %s", exprString(x))
		}
		if typ == "uint8" {
			return rgVal{"((" + a.lean + " + " + b.lean + ") % 256)", "uint8"}, nil
		}
		return rgVal{"(" + a.lean + " + " + b.lean + ")", typ}, nil
	}
	return rgVal{}, fmt.Errorf("unsupported expression %s in relay guard", exprString(e))
}

func isReturnNil(b *ast.BlockStmt) bool {
	if b == nil || len(b.List) != 1 {
		return false
	}
	r, ok := b.List[0].(*ast.ReturnStmt)
	if !ok || len(r.Results) != 1 {
		return false
	}
	id, ok := r.Results[0].(*ast.Ident)
	return ok && id.Name == "nil"
}

func genRelayGuard(repo string) (string, error) {
	_, f, err := parseFile(repo + "/serf/query.go")
	if err != nil {
		return "", err
	}
	fd := findFunc(f, "Serf", "relayResponse")
	if fd == nil || fd.Body == nil {
		return "", fmt.Errorf("(Serf).relayResponse not found")
	}
	// the relay factor parameter must be a uint8
	env := map[string]rgVal{}
	for _, p := range fd.Type.Params.List {
		for _, n := range p.Names {
			if n.Name == "relayFactor" {
				if id, ok := p.Type.(*ast.Ident); !ok || id.Name != "uint8" {
					return "", fmt.Errorf("relayFactor is not a uint8")
				}
				env["relayFactor"] = rgVal{"relayFactor", "uint8"}
			}
		}
	}
	if _, ok := env["relayFactor"]; !ok {
		return "", fmt.Errorf("relayResponse has no relayFactor parameter")
	}
	zero := false
	var guard *ast.IfStmt
	membersDefined := false
	for _, st := range fd.Body.List {
		switch s := st.(type) {
		case *ast.IfStmt:
			c, ok := s.Cond.(*ast.BinaryExpr)
			if !ok || !isReturnNil(s.Body) || s.Else != nil {
				continue
			}
			if c.Op == token.EQL && exprString(c.X) == "relayFactor" && exprString(c.Y) == "0" && s.Init == nil {
				zero = true
				continue
			}
			if c.Op == token.LSS && exprString(c.X) == "len(members)" {
				if guard != nil {
					return "", fmt.Errorf("two member-count guards in relayResponse")
				}
				if !membersDefined {
					return "", fmt.Errorf("member-count guard before members := s.Members()")
				}
				guard = s
			}
		case *ast.AssignStmt:
			if len(s.Lhs) == 1 && exprString(s.Lhs[0]) == "members" {
				if exprString(s.Rhs[0]) != "s.Members()" {
					return "", fmt.Errorf("members is not s.Members()")
				}
				membersDefined = true
			} else if guard == nil {
				// any other assignment before the guard could rebind what the guard reads
				for _, l := range s.Lhs {
					if n := exprString(l); n == "relayFactor" {
						return "", fmt.Errorf("relayFactor reassigned before the guard")
					}
				}
			}
		}
	}
	if guard == nil {
		return "", fmt.Errorf("member-count guard `if len(members) < … { return nil }` not found in relayResponse")
	}
	if guard.Init != nil {
		as, ok := guard.Init.(*ast.AssignStmt)
		if !ok || as.Tok != token.DEFINE || len(as.Lhs) != 1 || len(as.Rhs) != 1 {
			return "", fmt.Errorf("unsupported init statement in the relay guard")
		}
		v, err := rgExpr(as.Rhs[0], env)
		if err != nil {
			return "", err
		}
		if v.typ == "untyped" {
			v.typ = "int"
		}
		env[exprString(as.Lhs[0])] = v
	}
	rhs, err := rgExpr(guard.Cond.(*ast.BinaryExpr).Y, env)
	if err != nil {
		return "", err
	}
	src := strings.Join(strings.Fields(exprString(guard.Cond)), " ")
	if guard.Init != nil {
		src = strings.Join(strings.Fields(exprString(guard.Init)), " ") + "; " + src
	}
	var b strings.Builder
	b.WriteString("-- GENERATED by /verif/extract from serf/query.go (relayResponse) — do not edit.\n")
	b.WriteString("namespace SerfModel.Gen.RelayGuard\n\n")
	fmt.Fprintf(&b, "/-- the guard as written: `if %s { return nil }` -/\ndef guardSource : String := %q\n\n", src, src)
	b.WriteString("/-- relaying proceeds only when `len(members)` is at least this (Go integer typing applied;\n`relayFactor` is a uint8, i.e. < 256) -/\n")
	fmt.Fprintf(&b, "def minMembers (relayFactor : Nat) : Nat := %s\n\n", rhs.lean)
	fmt.Fprintf(&b, "/-- `if relayFactor == 0 { return nil }` is present -/\ndef zeroFactorReturns : Bool := %v\n\n", zero)
	b.WriteString("end SerfModel.Gen.RelayGuard\n")
	return b.String(), nil
}

func init() { addGen("RelayGuard", genRelayGuard) }
