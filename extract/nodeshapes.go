package main

import (
	"fmt"
	"go/ast"
	"go/parser"
	"go/token"
	"os"
	"path/filepath"
	"regexp"
	"sort"
	"strconv"
	"strings"
)

// Gen/NodeShapes.lean: the decisive code shapes of the membership state machine
// (serf/serf.go: reap, handleReap, handleNodeLeaveIntent, handlePrune, handleNodeJoin,
// handleNodeLeave, removeOldMember, upsertIntent, handleNodeJoinIntent; serf/delegate.go:
// LocalState, MergeRemoteState, NotifyMsg) as canonical one-line strings, ordered
// statement lists, a few derived booleans / numbers and, for removeOldMember, a SEMANTIC
// summary (search predicate, first match, removal statements).
// SerfProofs/Lemmas/NodeShapes.lean states what each must be and what that means for the
// hand-written model (Model/Node.lean).
//
// Every function is NORMALISED on a private copy before any walker looks at it (nsNormalize),
// so that a behaviour-preserving respelling produces the same text:
//   1. constants: function-local `const` declarations and package constants of serf/ whose
//      value is a literal (untyped or of a builtin type; iota enums and constants of a named
//      type such as MemberStatus stay symbolic) are replaced by their value;
//   2. single-assignment pure locals (`n := len(old)`, `last := n - 1`) are substituted into
//      their uses (only when nothing the expression reads can change in between);
//   3. `a > b` is `b < a`, `a >= b` is `b <= a`, negations are pushed inward, `x += 1` is `x++`,
//      redundant parentheses go;
//   4. no `else` after a branch that ends in return/continue/break/panic, no statement after
//      one that never completes; `if c { a; b; return x }; return y` at the end of a list is the
//      guard clause `if !c { return y }; a; b; return x`; a trailing
//      `if c { X }` of a loop body is the guard clause `if !c { continue }; X`; other
//      `if !c { A } else { B }` become `if c { B } else { A }`;
//   5. `for i := range xs { … xs[i] … }` is `for _, e := range xs { … e … }`;
//   6. alpha-renaming: receiver `recv`, parameters `p0,p1,…`, named results `r0,…`, every
//      other variable `v0,v1,…` in order of first definition (selector fields, struct-literal
//      keys, labels, package names and anything not defined in the function are left alone);
//   7. operands of `==`/`!=` (constant to the right, else textual) and of `x == K || x == L`
//      chains, and the labels of one `case`, are put in textual order.
// A shape the walkers do not understand is an error (nsFail), never a silent default.

type nsErr struct{ msg string }

func nsFail(format string, a ...interface{}) { panic(nsErr{fmt.Sprintf(format, a...)}) }

// ---- copy ------------------------------------------------------------------------------

// nsPkgConsts: literal-valued package constants of serf/ that are resolved to their value.
var nsPkgConsts = map[string]ast.Expr{}

var nsBuiltinTypes = map[string]bool{"int": true, "int8": true, "int16": true, "int32": true, "int64": true,
	"uint": true, "uint8": true, "uint16": true, "uint32": true, "uint64": true, "uintptr": true,
	"float32": true, "float64": true, "string": true, "byte": true, "rune": true}

// nsLitValue: e is a literal (possibly negated / parenthesised).
func nsLitValue(e ast.Expr) bool {
	switch x := e.(type) {
	case *ast.BasicLit:
		return true
	case *ast.ParenExpr:
		return nsLitValue(x.X)
	case *ast.UnaryExpr:
		return (x.Op == token.SUB || x.Op == token.ADD) && nsLitValue(x.X)
	}
	return false
}

// nsValueConst: the spec declares name i with a literal value and without a named type.
func nsValueConst(vs *ast.ValueSpec, i int) bool {
	if i >= len(vs.Values) || !nsLitValue(vs.Values[i]) {
		return false
	}
	if vs.Type == nil {
		return true
	}
	id, ok := vs.Type.(*ast.Ident)
	return ok && nsBuiltinTypes[id.Name]
}

func nsLoadConsts(dir string) {
	nsPkgConsts = map[string]ast.Expr{}
	ents, err := os.ReadDir(dir)
	if err != nil {
		nsFail("cannot read %s: %v", dir, err)
	}
	for _, e := range ents {
		n := e.Name()
		if !strings.HasSuffix(n, ".go") || strings.HasSuffix(n, "_test.go") {
			continue
		}
		_, f, err := parseFile(filepath.Join(dir, n))
		if err != nil {
			nsFail("cannot parse %s: %v", n, err)
		}
		for _, d := range f.Decls {
			gd, ok := d.(*ast.GenDecl)
			if !ok || gd.Tok != token.CONST {
				continue
			}
			for _, sp := range gd.Specs {
				vs := sp.(*ast.ValueSpec)
				for i, id := range vs.Names {
					if nsValueConst(vs, i) {
						nsPkgConsts[id.Name] = vs.Values[i]
					}
				}
			}
		}
	}
}

// nsCopyFn: a private deep copy (print + re-parse; the parser's object resolution then links
// every identifier DEFINED in the function to its definition, and nothing else).
func nsCopyFn(fd *ast.FuncDecl) *ast.FuncDecl {
	c := *fd
	c.Doc = nil
	fset := token.NewFileSet()
	f, err := parser.ParseFile(fset, "", "package p\n\n"+exprString(&c)+"\n", 0)
	if err != nil {
		nsFail("%s: cannot re-parse a copy: %v", fd.Name.Name, err)
	}
	for _, d := range f.Decls {
		if cp, ok := d.(*ast.FuncDecl); ok && cp.Body != nil {
			if nsFlat(cp.Body) != nsFlat(fd.Body) {
				nsFail("%s: copy differs from the original", fd.Name.Name)
			}
			return cp
		}
	}
	nsFail("%s: copy has no function", fd.Name.Name)
	return nil
}

// nsFn finds method recv.name (function name when recv is empty) or fails; the result is a
// NORMALISED private copy.
func nsFn(f *ast.File, recv, name string) *ast.FuncDecl {
	fd := findFunc(f, recv, name)
	if fd == nil || fd.Body == nil {
		nsFail("%s.%s not found", recv, name)
	}
	cp := nsCopyFn(fd)
	nsNormalize(cp)
	return cp
}

func nsNormalize(fd *ast.FuncDecl) {
	nsResolveConsts(fd)
	nsSimplify(fd)
	nsInlineLocals(fd)
	nsSimplify(fd)
	nsApply(fd, nsCanonExpr, nil)
	nsCanonStmts(fd)
	nsCanonRanges(fd)
	nsSimplify(fd)
	nsAlpha(fd)
	nsApply(fd, nsSortOperands, nil)
}

// ---- expression rewriter ---------------------------------------------------------------

// nsRw applies f bottom-up to every VALUE expression (not to selector field names, struct
// literal keys, labels or types) and `top` to the expressions that fill a whole slot
// (statement operands, call arguments, indices).
type nsRw struct {
	f   func(ast.Expr) ast.Expr
	top func(ast.Expr) ast.Expr
}

func nsApply(fd *ast.FuncDecl, f, top func(ast.Expr) ast.Expr) {
	r := &nsRw{f, top}
	r.stmt(fd.Body)
}

func (r *nsRw) t(e ast.Expr) ast.Expr {
	e = r.expr(e)
	if e != nil && r.top != nil {
		e = r.top(e)
	}
	return e
}

func nsKeysAreValues(t ast.Expr) bool {
	switch t.(type) {
	case *ast.MapType, *ast.ArrayType:
		return true
	}
	return false
}

func (r *nsRw) expr(e ast.Expr) ast.Expr {
	if e == nil {
		return nil
	}
	switch x := e.(type) {
	case *ast.Ident, *ast.BasicLit:
	case *ast.ParenExpr:
		x.X = r.expr(x.X)
	case *ast.UnaryExpr:
		x.X = r.expr(x.X)
	case *ast.StarExpr:
		x.X = r.expr(x.X)
	case *ast.BinaryExpr:
		x.X, x.Y = r.expr(x.X), r.expr(x.Y)
	case *ast.CallExpr:
		x.Fun = r.expr(x.Fun)
		for i := range x.Args {
			x.Args[i] = r.t(x.Args[i])
		}
	case *ast.IndexExpr:
		x.X, x.Index = r.expr(x.X), r.t(x.Index)
	case *ast.SliceExpr:
		x.X = r.expr(x.X)
		if x.Low != nil {
			x.Low = r.t(x.Low)
		}
		if x.High != nil {
			x.High = r.t(x.High)
		}
		if x.Max != nil {
			x.Max = r.t(x.Max)
		}
	case *ast.SelectorExpr:
		x.X = r.expr(x.X)
	case *ast.CompositeLit:
		kv := nsKeysAreValues(x.Type)
		for i, el := range x.Elts {
			if p, ok := el.(*ast.KeyValueExpr); ok {
				if _, isID := p.Key.(*ast.Ident); !isID || kv {
					p.Key = r.t(p.Key)
				}
				p.Value = r.t(p.Value)
			} else {
				x.Elts[i] = r.t(el)
			}
		}
	case *ast.KeyValueExpr:
		x.Value = r.t(x.Value)
	case *ast.TypeAssertExpr:
		x.X = r.expr(x.X)
	case *ast.FuncLit:
		r.stmt(x.Body)
	case *ast.ArrayType, *ast.MapType, *ast.StructType, *ast.InterfaceType, *ast.ChanType, *ast.FuncType, *ast.Ellipsis:
		return e
	default:
		nsFail("normalisation: unsupported expression kind %T", e)
	}
	return r.f(e)
}

func (r *nsRw) list(l []ast.Expr) {
	for i := range l {
		l[i] = r.t(l[i])
	}
}

func (r *nsRw) call(c *ast.CallExpr) *ast.CallExpr {
	if n, ok := r.expr(c).(*ast.CallExpr); ok {
		return n
	}
	nsFail("normalisation: a go/defer call was rewritten into something else")
	return nil
}

func (r *nsRw) stmt(s ast.Stmt) {
	switch x := s.(type) {
	case nil:
	case *ast.ExprStmt:
		x.X = r.t(x.X)
	case *ast.AssignStmt:
		r.list(x.Lhs)
		r.list(x.Rhs)
	case *ast.IncDecStmt:
		x.X = r.t(x.X)
	case *ast.ReturnStmt:
		r.list(x.Results)
	case *ast.IfStmt:
		r.stmt(x.Init)
		x.Cond = r.t(x.Cond)
		r.stmt(x.Body)
		r.stmt(x.Else)
	case *ast.BlockStmt:
		if x != nil {
			for _, st := range x.List {
				r.stmt(st)
			}
		}
	case *ast.ForStmt:
		r.stmt(x.Init)
		if x.Cond != nil {
			x.Cond = r.t(x.Cond)
		}
		r.stmt(x.Post)
		r.stmt(x.Body)
	case *ast.RangeStmt:
		x.Key, x.Value = r.expr(x.Key), r.expr(x.Value)
		x.X = r.t(x.X)
		r.stmt(x.Body)
	case *ast.DeclStmt:
		if gd, ok := x.Decl.(*ast.GenDecl); ok {
			for _, sp := range gd.Specs {
				if vs, ok := sp.(*ast.ValueSpec); ok {
					r.list(vs.Values)
				}
			}
		}
	case *ast.DeferStmt:
		x.Call = r.call(x.Call)
	case *ast.GoStmt:
		x.Call = r.call(x.Call)
	case *ast.SwitchStmt:
		r.stmt(x.Init)
		if x.Tag != nil {
			x.Tag = r.t(x.Tag)
		}
		r.stmt(x.Body)
	case *ast.TypeSwitchStmt:
		r.stmt(x.Init)
		r.stmt(x.Assign)
		r.stmt(x.Body)
	case *ast.CaseClause:
		r.list(x.List)
		for _, st := range x.Body {
			r.stmt(st)
		}
	case *ast.SelectStmt:
		r.stmt(x.Body)
	case *ast.CommClause:
		r.stmt(x.Comm)
		for _, st := range x.Body {
			r.stmt(st)
		}
	case *ast.SendStmt:
		x.Chan, x.Value = r.t(x.Chan), r.t(x.Value)
	case *ast.LabeledStmt:
		r.stmt(x.Stmt)
	case *ast.BranchStmt, *ast.EmptyStmt:
	default:
		nsFail("normalisation: unsupported statement kind %T", s)
	}
}

// nsEachList maps every statement list (blocks, case and comm clause bodies, closures),
// innermost first.
func nsEachList(root ast.Node, f func(owner ast.Node, list []ast.Stmt) []ast.Stmt) {
	var owners []ast.Node
	ast.Inspect(root, func(n ast.Node) bool {
		switch n.(type) {
		case *ast.BlockStmt, *ast.CaseClause, *ast.CommClause:
			owners = append(owners, n)
		}
		return true
	})
	for i := len(owners) - 1; i >= 0; i-- {
		switch x := owners[i].(type) {
		case *ast.BlockStmt:
			x.List = f(x, x.List)
		case *ast.CaseClause:
			x.Body = f(x, x.Body)
		case *ast.CommClause:
			x.Body = f(x, x.Body)
		}
	}
}

// nsEachStmt maps every statement, those in Init/Post slots included (f returns the
// replacement; nil keeps the statement).
func nsEachStmt(root ast.Node, f func(ast.Stmt) ast.Stmt) {
	rep := func(s ast.Stmt) ast.Stmt {
		if s == nil {
			return nil
		}
		if n := f(s); n != nil {
			return n
		}
		return s
	}
	ast.Inspect(root, func(n ast.Node) bool {
		switch x := n.(type) {
		case *ast.IfStmt:
			x.Init = rep(x.Init)
		case *ast.ForStmt:
			x.Init, x.Post = rep(x.Init), rep(x.Post)
		case *ast.SwitchStmt:
			x.Init = rep(x.Init)
		}
		return true
	})
	nsEachList(root, func(_ ast.Node, list []ast.Stmt) []ast.Stmt {
		for i := range list {
			list[i] = rep(list[i])
		}
		return list
	})
}

// ---- small expression helpers ----------------------------------------------------------

func nsStrip(e ast.Expr) ast.Expr {
	for {
		p, ok := e.(*ast.ParenExpr)
		if !ok {
			return e
		}
		e = p.X
	}
}

func nsObj(e ast.Expr) *ast.Object {
	if id, ok := nsStrip(e).(*ast.Ident); ok && id.Name != "_" {
		return id.Obj
	}
	return nil
}

// nsBuiltinPure: len(x) / cap(x) of the builtin (no local of that name).
func nsBuiltinPure(c *ast.CallExpr) bool {
	id, ok := c.Fun.(*ast.Ident)
	return ok && id.Obj == nil && (id.Name == "len" || id.Name == "cap") && len(c.Args) == 1
}

// nsCallFree: no call other than len/cap, no closure, no channel receive.
func nsCallFree(e ast.Expr) bool {
	free := true
	ast.Inspect(e, func(n ast.Node) bool {
		switch x := n.(type) {
		case *ast.CallExpr:
			if !nsBuiltinPure(x) {
				free = false
			}
		case *ast.FuncLit:
			free = false
		case *ast.UnaryExpr:
			if x.Op == token.ARROW {
				free = false
			}
		}
		return free
	})
	return free
}

// nsPure: identifiers, selectors, literals, len/cap, arithmetic / comparison on these.
func nsPure(e ast.Expr) bool {
	switch x := e.(type) {
	case *ast.Ident, *ast.BasicLit:
		return true
	case *ast.ParenExpr:
		return nsPure(x.X)
	case *ast.SelectorExpr:
		return nsPure(x.X)
	case *ast.StarExpr:
		return nsPure(x.X)
	case *ast.BinaryExpr:
		return nsPure(x.X) && nsPure(x.Y)
	case *ast.UnaryExpr:
		return (x.Op == token.SUB || x.Op == token.ADD || x.Op == token.NOT || x.Op == token.XOR) && nsPure(x.X)
	case *ast.CallExpr:
		return nsBuiltinPure(x) && nsPure(x.Args[0])
	}
	return false
}

// nsClone copies a pure expression (identifiers keep their object).
func nsClone(e ast.Expr) ast.Expr {
	switch x := e.(type) {
	case *ast.Ident:
		c := *x
		return &c
	case *ast.BasicLit:
		c := *x
		return &c
	case *ast.ParenExpr:
		return &ast.ParenExpr{X: nsClone(x.X)}
	case *ast.SelectorExpr:
		s := *x.Sel
		return &ast.SelectorExpr{X: nsClone(x.X), Sel: &s}
	case *ast.StarExpr:
		return &ast.StarExpr{X: nsClone(x.X)}
	case *ast.BinaryExpr:
		return &ast.BinaryExpr{X: nsClone(x.X), Op: x.Op, Y: nsClone(x.Y)}
	case *ast.UnaryExpr:
		return &ast.UnaryExpr{Op: x.Op, X: nsClone(x.X)}
	case *ast.CallExpr:
		c := &ast.CallExpr{Fun: nsClone(x.Fun)}
		for _, a := range x.Args {
			c.Args = append(c.Args, nsClone(a))
		}
		return c
	}
	nsFail("normalisation: cannot copy expression kind %T", e)
	return nil
}

func nsAtomic(e ast.Expr) bool {
	switch e.(type) {
	case *ast.Ident, *ast.BasicLit, *ast.SelectorExpr, *ast.CallExpr, *ast.IndexExpr, *ast.SliceExpr, *ast.TypeAssertExpr, *ast.ParenExpr:
		return true
	}
	return false
}

// nsWrap parenthesises e if it is not atomic.
func nsWrap(e ast.Expr) ast.Expr {
	if nsAtomic(e) {
		return e
	}
	return &ast.ParenExpr{X: e}
}

// ---- 1. constants ----------------------------------------------------------------------

func nsResolveConsts(fd *ast.FuncDecl) {
	local := map[*ast.Object]ast.Expr{}
	nsEachList(fd.Body, func(_ ast.Node, list []ast.Stmt) []ast.Stmt {
		out := list[:0:0]
		for _, s := range list {
			var gd *ast.GenDecl
			if ds, ok := s.(*ast.DeclStmt); ok {
				gd, _ = ds.Decl.(*ast.GenDecl)
			}
			if gd == nil || gd.Tok != token.CONST {
				out = append(out, s)
				continue
			}
			all := true
			for _, sp := range gd.Specs {
				vs := sp.(*ast.ValueSpec)
				for i := range vs.Names {
					all = all && nsValueConst(vs, i)
				}
			}
			if !all {
				out = append(out, s)
				continue
			}
			for _, sp := range gd.Specs {
				vs := sp.(*ast.ValueSpec)
				for i, id := range vs.Names {
					if id.Obj != nil {
						local[id.Obj] = vs.Values[i]
					}
				}
			}
		}
		return out
	})
	nsApply(fd, func(e ast.Expr) ast.Expr {
		id, ok := e.(*ast.Ident)
		if !ok {
			return e
		}
		if id.Obj != nil {
			if v, ok := local[id.Obj]; ok {
				return nsWrap(nsClone(v))
			}
			return e
		}
		if v, ok := nsPkgConsts[id.Name]; ok {
			return nsWrap(nsClone(v))
		}
		return e
	}, nil)
}

// ---- 3a. parentheses, literal spelling, `x += 1` ---------------------------------------

// nsUnOperand: drop the parentheses of an operand of a binary expression of precedence p when
// the parse is the same without them.
func nsUnOperand(e ast.Expr, p int, right bool) ast.Expr {
	par, ok := e.(*ast.ParenExpr)
	if !ok {
		return e
	}
	in := nsStrip(par)
	switch x := in.(type) {
	case *ast.BinaryExpr:
		q := x.Op.Precedence()
		if q > p || (q == p && !right) {
			return in
		}
		return &ast.ParenExpr{X: in}
	case *ast.CompositeLit, *ast.FuncLit:
		return &ast.ParenExpr{X: in}
	}
	return in
}

func nsUnAtomic(e ast.Expr) ast.Expr {
	if in := nsStrip(e); in != e {
		if _, isPar := in.(*ast.ParenExpr); !isPar && nsAtomic(in) {
			return in
		}
		return &ast.ParenExpr{X: in}
	}
	return e
}

func nsSimpExpr(e ast.Expr) ast.Expr {
	switch x := e.(type) {
	case *ast.BasicLit:
		if x.Kind == token.INT {
			if v, err := strconv.ParseUint(x.Value, 0, 64); err == nil {
				x.Value = strconv.FormatUint(v, 10)
			}
		}
	case *ast.BinaryExpr:
		p := x.Op.Precedence()
		x.X, x.Y = nsUnOperand(x.X, p, false), nsUnOperand(x.Y, p, true)
	case *ast.UnaryExpr:
		x.X = nsUnAtomic(x.X)
	case *ast.StarExpr:
		x.X = nsUnAtomic(x.X)
	case *ast.SelectorExpr:
		x.X = nsUnAtomic(x.X)
	case *ast.IndexExpr:
		x.X = nsUnAtomic(x.X)
	case *ast.SliceExpr:
		x.X = nsUnAtomic(x.X)
	case *ast.CallExpr:
		x.Fun = nsUnAtomic(x.Fun)
	}
	return e
}

func nsIsOne(e ast.Expr) bool {
	b, ok := nsStrip(e).(*ast.BasicLit)
	return ok && b.Kind == token.INT && b.Value == "1"
}

func nsSimpStmt(s ast.Stmt) ast.Stmt {
	switch x := s.(type) {
	case *ast.AssignStmt:
		if len(x.Lhs) != 1 || len(x.Rhs) != 1 {
			return nil
		}
		tok := token.ILLEGAL
		switch {
		case x.Tok == token.ADD_ASSIGN && nsIsOne(x.Rhs[0]):
			tok = token.INC
		case x.Tok == token.SUB_ASSIGN && nsIsOne(x.Rhs[0]):
			tok = token.DEC
		case x.Tok == token.ASSIGN:
			b, ok := nsStrip(x.Rhs[0]).(*ast.BinaryExpr)
			l := nsFlat(x.Lhs[0])
			if !ok || !nsCallFree(x.Lhs[0]) {
				break
			}
			switch {
			case b.Op == token.ADD && nsIsOne(b.Y) && nsFlat(b.X) == l, b.Op == token.ADD && nsIsOne(b.X) && nsFlat(b.Y) == l:
				tok = token.INC
			case b.Op == token.SUB && nsIsOne(b.Y) && nsFlat(b.X) == l:
				tok = token.DEC
			}
		}
		if tok != token.ILLEGAL {
			return &ast.IncDecStmt{X: x.Lhs[0], TokPos: x.TokPos, Tok: tok}
		}
	case *ast.DeclStmt: // `var x = e`  is  `x := e`
		gd, ok := x.Decl.(*ast.GenDecl)
		if !ok || gd.Tok != token.VAR || len(gd.Specs) != 1 {
			return nil
		}
		vs := gd.Specs[0].(*ast.ValueSpec)
		if vs.Type != nil || len(vs.Names) != 1 || len(vs.Values) != 1 || vs.Names[0].Name == "_" {
			return nil
		}
		a := &ast.AssignStmt{Lhs: []ast.Expr{vs.Names[0]}, TokPos: vs.Names[0].End(), Tok: token.DEFINE, Rhs: []ast.Expr{vs.Values[0]}}
		if vs.Names[0].Obj != nil {
			vs.Names[0].Obj.Decl = a
		}
		return a
	}
	return nil
}

func nsSimplify(fd *ast.FuncDecl) {
	nsApply(fd, nsSimpExpr, func(e ast.Expr) ast.Expr { return nsStrip(e) })
	nsEachStmt(fd.Body, nsSimpStmt)
}

// ---- 2. single-assignment pure locals --------------------------------------------------

// nsRoot: the base identifier of an addressable expression (x, x.f, x[i], *x, x[a:b]).
func nsRoot(e ast.Expr) *ast.Ident {
	for {
		switch x := e.(type) {
		case *ast.Ident:
			return x
		case *ast.ParenExpr:
			e = x.X
		case *ast.SelectorExpr:
			e = x.X
		case *ast.IndexExpr:
			e = x.X
		case *ast.SliceExpr:
			e = x.X
		case *ast.StarExpr:
			e = x.X
		default:
			return nil
		}
	}
}

// nsWrites: the expressions a statement node writes to (assignment targets, ++/--, a
// `range` with `=`, operands of `&`).
func nsWrites(n ast.Node) []ast.Expr {
	switch x := n.(type) {
	case *ast.AssignStmt:
		if x.Tok != token.DEFINE {
			return x.Lhs
		}
		var out []ast.Expr // `a, err := …` re-assigns an existing err
		for _, l := range x.Lhs {
			if id, ok := l.(*ast.Ident); ok && id.Obj != nil && id.Obj.Decl != x {
				out = append(out, l)
			}
		}
		return out
	case *ast.IncDecStmt:
		return []ast.Expr{x.X}
	case *ast.RangeStmt:
		if x.Tok == token.ASSIGN {
			var out []ast.Expr
			if x.Key != nil {
				out = append(out, x.Key)
			}
			if x.Value != nil {
				out = append(out, x.Value)
			}
			return out
		}
	case *ast.UnaryExpr:
		if x.Op == token.AND {
			return []ast.Expr{x.X}
		}
	}
	return nil
}

type nsReads struct {
	objs    map[*ast.Object]bool // locals the expression mentions
	onlyLen map[*ast.Object]bool // … and only as the argument of len/cap
	deref   bool                 // reads through a selector / pointer
}

func nsReadsOf(e ast.Expr) nsReads {
	r := nsReads{map[*ast.Object]bool{}, map[*ast.Object]bool{}, false}
	var walk func(e ast.Expr, inLen bool)
	walk = func(e ast.Expr, inLen bool) {
		switch x := e.(type) {
		case *ast.Ident:
			if x.Obj != nil {
				if !r.objs[x.Obj] {
					r.objs[x.Obj] = true
					r.onlyLen[x.Obj] = inLen
				} else if !inLen {
					r.onlyLen[x.Obj] = false
				}
			}
		case *ast.ParenExpr:
			walk(x.X, inLen)
		case *ast.SelectorExpr:
			if id, ok := x.X.(*ast.Ident); !ok || id.Obj != nil {
				r.deref = true
			}
			walk(x.X, false)
		case *ast.StarExpr:
			r.deref = true
			walk(x.X, false)
		case *ast.BinaryExpr:
			walk(x.X, false)
			walk(x.Y, false)
		case *ast.UnaryExpr:
			walk(x.X, false)
		case *ast.CallExpr:
			_, direct := nsStrip(x.Args[0]).(*ast.Ident)
			walk(x.Args[0], direct)
		}
	}
	walk(e, false)
	return r
}

// nsInlineOne substitutes one inlinable local; false when there is none left.
func nsInlineOne(fd *ast.FuncDecl) bool {
	type info struct {
		def     *ast.AssignStmt
		defs    int
		uses    []*ast.Ident
		blocked bool
	}
	infos := map[*ast.Object]*info{}
	var order []*ast.Object
	get := func(o *ast.Object) *info {
		if infos[o] == nil {
			infos[o] = &info{}
			order = append(order, o)
		}
		return infos[o]
	}
	defIdent := map[*ast.Ident]bool{}
	var lits []*ast.FuncLit
	ast.Inspect(fd.Body, func(n ast.Node) bool {
		switch x := n.(type) {
		case *ast.AssignStmt:
			if x.Tok == token.DEFINE {
				for _, l := range x.Lhs {
					if id, ok := l.(*ast.Ident); ok && id.Obj != nil {
						in := get(id.Obj)
						in.defs++
						defIdent[id] = true
						if len(x.Lhs) == 1 && len(x.Rhs) == 1 && id.Obj.Decl == x {
							in.def = x
						}
					}
				}
			}
		case *ast.FuncLit:
			lits = append(lits, x)
		case *ast.CallExpr: // x.M(): a pointer-receiver method may change x
			if sel, ok := x.Fun.(*ast.SelectorExpr); ok {
				if o := nsObj(sel.X); o != nil {
					get(o).blocked = true
				}
			}
		}
		for _, w := range nsWrites(n) {
			if id := nsRoot(w); id != nil && id.Obj != nil {
				if as, ok := n.(*ast.AssignStmt); ok && as.Tok == token.DEFINE {
					get(id.Obj).defs++ // re-assignment through `:=`
				}
				get(id.Obj).blocked = true
			}
		}
		return true
	})
	ast.Inspect(fd.Body, func(n ast.Node) bool {
		if id, ok := n.(*ast.Ident); ok && id.Obj != nil && !defIdent[id] {
			get(id.Obj).uses = append(get(id.Obj).uses, id)
		}
		return true
	})
	var loops []ast.Node
	ast.Inspect(fd.Body, func(n ast.Node) bool {
		switch n.(type) {
		case *ast.ForStmt, *ast.RangeStmt:
			loops = append(loops, n)
		}
		return true
	})
	within := func(n ast.Node, p token.Pos) bool { return n.Pos() <= p && p < n.End() }

	for _, o := range order {
		in := infos[o]
		if in.def == nil || in.defs != 1 || in.blocked || len(in.uses) == 0 || o.Kind != ast.Var {
			continue
		}
		rhs := in.def.Rhs[0]
		if !nsPure(rhs) {
			continue
		}
		ok := true
		lo, hi := in.def.End(), token.Pos(0)
		for _, u := range in.uses {
			if u.Pos() > hi {
				hi = u.Pos()
			}
			if u.Pos() < lo {
				ok = false
			}
			for _, l := range lits { // a closure runs later
				ok = ok && !within(l, u.Pos())
			}
		}
		extended := false
		for _, u := range in.uses {
			for _, l := range loops {
				if within(l, u.Pos()) && !within(l, in.def.Pos()) && l.End() > hi {
					hi, extended = l.End(), true
				}
			}
		}
		rd := nsReadsOf(rhs)
		ast.Inspect(fd.Body, func(n ast.Node) bool {
			if n == nil || !ok {
				return false
			}
			if n.End() <= lo || n.Pos() >= hi {
				return n.Pos() < hi // nothing of interest inside / after
			}
			if n.Pos() > lo {
				for _, w := range nsWrites(n) {
					id := nsRoot(w)
					_, bare := nsStrip(w).(*ast.Ident)
					switch {
					case id != nil && id.Obj != nil && rd.objs[id.Obj] && (bare || !rd.onlyLen[id.Obj]):
						ok = false
					case rd.deref && !bare:
						ok = false
					}
				}
				if c, isCall := n.(*ast.CallExpr); isCall && rd.deref && !nsBuiltinPure(c) {
					containsUse := false
					for _, u := range in.uses {
						containsUse = containsUse || within(c, u.Pos())
					}
					if !containsUse || extended {
						ok = false
					}
				}
			}
			return true
		})
		if !ok {
			continue
		}
		// substitute and drop the definition
		nsApply(fd, func(e ast.Expr) ast.Expr {
			if id, isID := e.(*ast.Ident); isID && id.Obj == o && !defIdent[id] {
				return nsWrap(nsClone(nsStrip(rhs)))
			}
			return e
		}, nil)
		nsEachList(fd.Body, func(_ ast.Node, list []ast.Stmt) []ast.Stmt {
			out := list[:0:0]
			for _, s := range list {
				if s != ast.Stmt(in.def) {
					out = append(out, s)
				}
			}
			return out
		})
		return true
	}
	return false
}

func nsInlineLocals(fd *ast.FuncDecl) {
	for i := 0; nsInlineOne(fd); i++ {
		if i > 1000 {
			nsFail("%s: inlining does not terminate", fd.Name.Name)
		}
	}
}

// ---- 3b. comparisons and negations -----------------------------------------------------

// nsBin builds `l op r`, parenthesising operands where the precedence requires it.
func nsBin(op token.Token, l, r ast.Expr) ast.Expr {
	p := op.Precedence()
	fix := func(e ast.Expr, right bool) ast.Expr {
		if b, ok := e.(*ast.BinaryExpr); ok {
			if q := b.Op.Precedence(); q < p || (q == p && right) {
				return &ast.ParenExpr{X: e}
			}
		}
		return e
	}
	return &ast.BinaryExpr{X: fix(l, false), Op: op, Y: fix(r, true)}
}

// nsNot: the canonical negation of a (canonical) condition.
func nsNot(e ast.Expr) ast.Expr {
	e = nsStrip(e)
	switch x := e.(type) {
	case *ast.UnaryExpr:
		if x.Op == token.NOT {
			return nsStrip(x.X)
		}
	case *ast.BinaryExpr:
		switch x.Op {
		case token.EQL:
			return &ast.BinaryExpr{X: x.X, Op: token.NEQ, Y: x.Y}
		case token.NEQ:
			return &ast.BinaryExpr{X: x.X, Op: token.EQL, Y: x.Y}
		case token.LSS: // !(a < b)  is  b <= a
			return &ast.BinaryExpr{X: x.Y, Op: token.LEQ, Y: x.X}
		case token.LEQ: // !(a <= b)  is  b < a
			return &ast.BinaryExpr{X: x.Y, Op: token.LSS, Y: x.X}
		case token.GTR:
			return &ast.BinaryExpr{X: x.X, Op: token.LEQ, Y: x.Y}
		case token.GEQ:
			return &ast.BinaryExpr{X: x.X, Op: token.LSS, Y: x.Y}
		case token.LAND:
			return nsBin(token.LOR, nsNot(x.X), nsNot(x.Y))
		case token.LOR:
			return nsBin(token.LAND, nsNot(x.X), nsNot(x.Y))
		}
	}
	return &ast.UnaryExpr{Op: token.NOT, X: nsWrap(e)}
}

func nsCanonExpr(e ast.Expr) ast.Expr {
	switch x := e.(type) {
	case *ast.UnaryExpr:
		if x.Op != token.NOT {
			break
		}
		switch in := nsStrip(x.X).(type) {
		case *ast.BinaryExpr:
			switch in.Op {
			case token.EQL, token.NEQ, token.LSS, token.LEQ, token.GTR, token.GEQ, token.LAND, token.LOR:
				return nsCanonExpr(nsNot(in))
			}
		case *ast.UnaryExpr:
			if in.Op == token.NOT {
				return nsStrip(in.X)
			}
		}
	case *ast.BinaryExpr:
		// x == true, x != false  is  x;   x == false, x != true  is  !x
		if x.Op == token.EQL || x.Op == token.NEQ {
			for _, side := range [2][2]ast.Expr{{x.X, x.Y}, {x.Y, x.X}} {
				if id, ok := nsStrip(side[1]).(*ast.Ident); ok && id.Obj == nil && (id.Name == "true" || id.Name == "false") {
					if (id.Name == "true") == (x.Op == token.EQL) {
						return nsStrip(side[0])
					}
					return nsCanonExpr(nsNot(side[0]))
				}
			}
		}
		// the order in which a call-free operand and the other one are evaluated is not
		// observable; two operands with calls are left as written
		if (x.Op == token.GTR || x.Op == token.GEQ) && (nsCallFree(x.X) || nsCallFree(x.Y)) {
			x.X, x.Y = x.Y, x.X
			if x.Op == token.GTR {
				x.Op = token.LSS
			} else {
				x.Op = token.LEQ
			}
		}
	}
	return e
}

// ---- 4. early return, guard clauses, if/else orientation -------------------------------

func nsIsCallTo(s ast.Stmt, names ...string) bool {
	e, ok := s.(*ast.ExprStmt)
	if !ok {
		return false
	}
	c, ok := e.X.(*ast.CallExpr)
	if !ok {
		return false
	}
	fn := nsFlat(c.Fun)
	for _, n := range names {
		if fn == n {
			return true
		}
	}
	return false
}

// nsTerminates: control never falls out of the end of the list.
func nsTerminates(list []ast.Stmt) bool {
	for len(list) > 0 {
		if _, ok := list[len(list)-1].(*ast.EmptyStmt); !ok {
			break
		}
		list = list[:len(list)-1]
	}
	if len(list) == 0 {
		return false
	}
	switch x := list[len(list)-1].(type) {
	case *ast.ReturnStmt:
		return true
	case *ast.BranchStmt:
		return x.Tok == token.BREAK || x.Tok == token.CONTINUE || x.Tok == token.GOTO
	case *ast.BlockStmt:
		return nsTerminates(x.List)
	case *ast.IfStmt:
		if x.Else == nil || !nsTerminates(x.Body.List) {
			return false
		}
		switch e := x.Else.(type) {
		case *ast.BlockStmt:
			return nsTerminates(e.List)
		case *ast.IfStmt:
			return nsTerminates([]ast.Stmt{e})
		}
	case *ast.ExprStmt:
		return nsIsCallTo(x, "panic", "os.Exit", "log.Fatal", "log.Fatalf", "log.Panicf")
	case *ast.SwitchStmt: // a default, every clause terminates, nothing breaks out
		def, brk := false, false
		ast.Inspect(x.Body, func(n ast.Node) bool {
			if b, ok := n.(*ast.BranchStmt); ok && b.Tok == token.BREAK {
				brk = true
			}
			return !brk
		})
		for _, c := range x.Body.List {
			cc := c.(*ast.CaseClause)
			def = def || cc.List == nil
			if !nsTerminates(cc.Body) {
				return false
			}
			if len(cc.Body) > 0 {
				if b, ok := cc.Body[len(cc.Body)-1].(*ast.BranchStmt); ok && b.Tok != token.GOTO {
					return false // continue / fallthrough do not end the function
				}
			}
		}
		return def && !brk
	}
	return false
}

// nsDropDead: statements after one that never completes are unreachable (unless labelled).
func nsDropDead(list []ast.Stmt) ([]ast.Stmt, bool) {
	for i := 0; i+1 < len(list); i++ {
		if !nsTerminates(list[:i+1]) {
			continue
		}
		for _, s := range list[i+1:] {
			if _, lab := s.(*ast.LabeledStmt); lab {
				return list, false
			}
		}
		return list[:i+1], true
	}
	return list, false
}

// nsUsesInitVars: does n mention a variable declared by init?
func nsUsesInitVars(init ast.Stmt, n ast.Node) bool {
	if init == nil {
		return false
	}
	decl := map[*ast.Object]bool{}
	if a, ok := init.(*ast.AssignStmt); ok && a.Tok == token.DEFINE {
		for _, l := range a.Lhs {
			if o := nsObj(l); o != nil {
				decl[o] = true
			}
		}
	}
	used := false
	ast.Inspect(n, func(x ast.Node) bool {
		if id, ok := x.(*ast.Ident); ok && id.Obj != nil && decl[id.Obj] {
			used = true
		}
		return !used
	})
	return used
}

func nsNegativeCond(c ast.Expr) bool {
	switch x := nsStrip(c).(type) {
	case *ast.UnaryExpr:
		return x.Op == token.NOT
	case *ast.BinaryExpr:
		return x.Op == token.NEQ || x.Op == token.LEQ
	}
	return false
}

func nsCanonList(list []ast.Stmt, loopBody bool) []ast.Stmt {
	for round := 0; ; round++ {
		if round > 10000 {
			nsFail("normalisation of if/else does not terminate")
		}
		changed := false
		var out []ast.Stmt
		for i, s := range list {
			x, ok := s.(*ast.IfStmt)
			if !ok {
				out = append(out, s)
				continue
			}
			if x.Else != nil {
				eb, elseIsBlock := x.Else.(*ast.BlockStmt)
				thenT := nsTerminates(x.Body.List)
				switch {
				case thenT && !nsUsesInitVars(x.Init, x.Else):
					// if c { …; return } else { B }   is   if c { …; return }; B
					rest := []ast.Stmt{x.Else}
					if elseIsBlock {
						rest = eb.List
					}
					x.Else = nil
					out = append(append(out, x), rest...)
					changed = true
					continue
				case !thenT && elseIsBlock && nsTerminates(eb.List) && x.Init == nil:
					// if c { A } else { …; return }   is   if !c { …; return }; A
					a := x.Body.List
					x.Cond, x.Body, x.Else = nsCanonExpr(nsNot(x.Cond)), eb, nil
					out = append(append(out, x), a...)
					changed = true
					continue
				case elseIsBlock && nsNegativeCond(x.Cond):
					// if !c { A } else { B }   is   if c { B } else { A }
					x.Cond, x.Body, x.Else = nsCanonExpr(nsNot(x.Cond)), eb, x.Body
					changed = true
				}
			} else if x.Init == nil && i == len(list)-2 && len(nsKeep(x.Body.List)) > 1 && nsTerminates(x.Body.List) &&
				len(nsKeep(list[i+1:])) == 1 && nsTerminates(list[i+1:]) {
				// if c { a; b; return x }; return y   is   if !c { return y }; a; b; return x
				// (both parts end the list: the one-statement part is the guard clause)
				a := x.Body.List
				x.Cond, x.Body = nsCanonExpr(nsNot(x.Cond)), &ast.BlockStmt{List: list[i+1:]}
				out = append(append(out, x), a...)
				changed = true
				break
			} else if loopBody && i == len(list)-1 && x.Init == nil && len(x.Body.List) > 0 && !nsTerminates(x.Body.List) {
				// for … { …; if c { X } }   is   for … { …; if !c { continue }; X }
				body := x.Body.List
				x.Cond = nsCanonExpr(nsNot(x.Cond))
				x.Body = &ast.BlockStmt{List: []ast.Stmt{&ast.BranchStmt{Tok: token.CONTINUE}}}
				out = append(append(out, x), body...)
				changed = true
				continue
			}
			out = append(out, s)
		}
		list = out
		if l, dropped := nsDropDead(list); dropped {
			list, changed = l, true
		}
		if !changed {
			return list
		}
	}
}

func nsCanonStmts(fd *ast.FuncDecl) {
	loops := map[ast.Node]bool{}
	ast.Inspect(fd.Body, func(n ast.Node) bool {
		switch x := n.(type) {
		case *ast.ForStmt:
			loops[x.Body] = true
		case *ast.RangeStmt:
			loops[x.Body] = true
		}
		return true
	})
	nsEachList(fd.Body, func(owner ast.Node, list []ast.Stmt) []ast.Stmt {
		return nsCanonList(list, loops[owner])
	})
}

// ---- 5. range loops --------------------------------------------------------------------

func nsPath(e ast.Expr) bool {
	switch x := e.(type) {
	case *ast.Ident:
		return true
	case *ast.SelectorExpr:
		return nsPath(x.X)
	}
	return false
}

// nsChainHas: does the access path of e (x, x.f, x[i], *x …) pass through an expression
// printed as `text`?
func nsChainHas(e ast.Expr, text string) bool {
	for e != nil {
		if nsFlat(e) == text {
			return true
		}
		switch x := e.(type) {
		case *ast.ParenExpr:
			e = x.X
		case *ast.SelectorExpr:
			e = x.X
		case *ast.IndexExpr:
			e = x.X
		case *ast.SliceExpr:
			e = x.X
		case *ast.StarExpr:
			e = x.X
		default:
			return false
		}
	}
	return false
}

// nsCanonRange: `for k := range xs { … xs[k] … }` reads the element through the index; when
// nothing in the body writes to xs or takes an address in it, that is the value form.
func nsCanonRange(r *ast.RangeStmt) {
	key, ok := r.Key.(*ast.Ident)
	if !ok || r.Tok != token.DEFINE || key.Obj == nil || key.Name == "_" || !nsPath(r.X) {
		return
	}
	xs := nsFlat(r.X)
	isOcc := func(e ast.Expr) bool {
		ix, ok := e.(*ast.IndexExpr)
		return ok && nsFlat(ix.X) == xs && nsObj(ix.Index) == key.Obj
	}
	occ, safe := 0, true
	var inLit func(n ast.Node) bool
	inLit = func(n ast.Node) bool {
		found := false
		ast.Inspect(n, func(m ast.Node) bool {
			if e, ok := m.(ast.Expr); ok && isOcc(e) {
				found = true
			}
			return !found
		})
		return found
	}
	ast.Inspect(r.Body, func(n ast.Node) bool {
		if e, ok := n.(ast.Expr); ok && isOcc(e) {
			occ++
		}
		for _, w := range nsWrites(n) {
			if nsChainHas(w, xs) || nsObj(w) == key.Obj {
				safe = false
			}
		}
		switch x := n.(type) {
		case *ast.FuncLit:
			if inLit(x.Body) {
				safe = false
			}
		case *ast.CallExpr: // xs[k].M() may have a pointer receiver
			if sel, ok := x.Fun.(*ast.SelectorExpr); ok && nsChainHas(sel.X, xs) {
				safe = false
			}
		}
		return true
	})
	if occ == 0 || !safe {
		return
	}
	val, _ := r.Value.(*ast.Ident)
	if val == nil || val.Name == "_" || val.Obj == nil {
		if r.Value != nil && (val == nil || val.Name != "_") {
			return
		}
		val = &ast.Ident{Name: "elem", Obj: &ast.Object{Kind: ast.Var, Name: "elem"}}
		r.Value = val
	}
	rw := &nsRw{f: func(e ast.Expr) ast.Expr {
		if isOcc(e) {
			return &ast.Ident{Name: val.Name, Obj: val.Obj}
		}
		return e
	}}
	rw.stmt(r.Body)
	used := false
	ast.Inspect(r.Body, func(n ast.Node) bool {
		if id, ok := n.(*ast.Ident); ok && id.Obj == key.Obj {
			used = true
		}
		return !used
	})
	if !used {
		r.Key = &ast.Ident{Name: "_"}
	}
}

func nsCanonRanges(fd *ast.FuncDecl) {
	var rs []*ast.RangeStmt
	ast.Inspect(fd.Body, func(n ast.Node) bool {
		if r, ok := n.(*ast.RangeStmt); ok {
			rs = append(rs, r)
		}
		return true
	})
	for i := len(rs) - 1; i >= 0; i-- {
		nsCanonRange(rs[i])
	}
}

// ---- 6. alpha-renaming -----------------------------------------------------------------

// nsStructKeys: identifiers that are keys of a composite literal which is not visibly a map
// or array literal (the parser may have resolved such a key to a local of the same name).
func nsStructKeys(n ast.Node) map[*ast.Ident]bool {
	skip := map[*ast.Ident]bool{}
	ast.Inspect(n, func(x ast.Node) bool {
		if c, ok := x.(*ast.CompositeLit); ok && !nsKeysAreValues(c.Type) {
			for _, el := range c.Elts {
				if kv, ok := el.(*ast.KeyValueExpr); ok {
					if id, ok := kv.Key.(*ast.Ident); ok {
						skip[id] = true
					}
				}
			}
		}
		return true
	})
	return skip
}

func nsAlpha(fd *ast.FuncDecl) {
	names := map[*ast.Object]string{}
	fields := func(fl *ast.FieldList, prefix string) {
		if fl == nil {
			return
		}
		k := 0
		for _, f := range fl.List {
			for _, n := range f.Names {
				if n.Obj != nil && n.Name != "_" {
					names[n.Obj] = prefix + strconv.Itoa(k)
				}
				k++
			}
			if len(f.Names) == 0 {
				k++
			}
		}
	}
	if fd.Recv != nil {
		for _, f := range fd.Recv.List {
			for _, n := range f.Names {
				if n.Obj != nil && n.Name != "_" {
					names[n.Obj] = "recv"
				}
			}
		}
	}
	fields(fd.Type.Params, "p")
	fields(fd.Type.Results, "r")
	skip := nsStructKeys(fd)
	k := 0
	ast.Inspect(fd.Body, func(n ast.Node) bool {
		id, ok := n.(*ast.Ident)
		if !ok || id.Obj == nil || id.Obj.Kind != ast.Var || id.Name == "_" || skip[id] {
			return true
		}
		if _, done := names[id.Obj]; !done {
			names[id.Obj] = "v" + strconv.Itoa(k)
			k++
		}
		return true
	})
	ast.Inspect(fd, func(n ast.Node) bool {
		if id, ok := n.(*ast.Ident); ok && id.Obj != nil && !skip[id] {
			if nn, ok := names[id.Obj]; ok {
				id.Name = nn
			}
		}
		return true
	})
}

// ---- 7. operand order ------------------------------------------------------------------

// nsConstLike: a literal, or a name not defined in the function (nil, true, a package
// constant, pkg.Name).
func nsConstLike(e ast.Expr) bool {
	switch x := nsStrip(e).(type) {
	case *ast.BasicLit:
		return true
	case *ast.Ident:
		return x.Obj == nil
	case *ast.UnaryExpr:
		return (x.Op == token.SUB || x.Op == token.ADD) && nsConstLike(x.X)
	case *ast.SelectorExpr:
		id, ok := x.X.(*ast.Ident)
		return ok && id.Obj == nil
	}
	return false
}

func nsChain(e ast.Expr, op token.Token, out []ast.Expr) []ast.Expr {
	if b, ok := nsStrip(e).(*ast.BinaryExpr); ok && b.Op == op {
		return nsChain(b.Y, op, nsChain(b.X, op, out))
	}
	return append(out, nsStrip(e))
}

func nsSortOperands(e ast.Expr) ast.Expr {
	x, ok := e.(*ast.BinaryExpr)
	if !ok {
		return e
	}
	switch x.Op {
	case token.EQL, token.NEQ:
		if !nsCallFree(x.X) || !nsCallFree(x.Y) {
			return e
		}
		cl, cr := nsConstLike(x.X), nsConstLike(x.Y)
		if (cl && !cr) || (cl == cr && nsFlat(x.Y) < nsFlat(x.X)) {
			x.X, x.Y = x.Y, x.X
		}
	case token.LOR, token.LAND:
		// x == K || x == L (x != K && x != L): the tests are independent, order them
		want := token.EQL
		if x.Op == token.LAND {
			want = token.NEQ
		}
		ops := nsChain(x, x.Op, nil)
		for _, o := range ops {
			b, ok := o.(*ast.BinaryExpr)
			f, _ := ops[0].(*ast.BinaryExpr)
			if !ok || b.Op != want || !nsCallFree(b) || !nsConstLike(b.Y) || nsConstLike(b.X) || nsFlat(b.X) != nsFlat(f.X) {
				return e
			}
		}
		sort.SliceStable(ops, func(i, j int) bool { return nsFlat(ops[i]) < nsFlat(ops[j]) })
		var acc ast.Expr = ops[0]
		for _, o := range ops[1:] {
			acc = &ast.BinaryExpr{X: acc, Op: x.Op, Y: o}
		}
		return acc
	}
	return e
}

// ---- printing --------------------------------------------------------------------------

// nsFlat prints a node canonically on one line (go/printer without position information,
// hence without comments and without the source's own line breaks; whitespace collapsed).
func nsFlat(n ast.Node) string {
	if n == nil {
		return ""
	}
	return strings.Join(strings.Fields(exprString(n)), " ")
}

// nsNoise: <…>.logger.Printf(...), metrics.*(...) statements, and an `if` (no init, no else)
// whose body is nothing but such statements.
func nsNoise(s ast.Stmt) bool {
	switch x := s.(type) {
	case *ast.ExprStmt:
		c, ok := x.X.(*ast.CallExpr)
		if !ok {
			return false
		}
		fn := nsFlat(c.Fun)
		return strings.HasSuffix(fn, ".logger.Printf") || strings.HasPrefix(fn, "metrics.")
	case *ast.IfStmt:
		return x.Init == nil && x.Else == nil && len(x.Body.List) > 0 && len(nsKeep(x.Body.List)) == 0
	}
	return false
}

func nsKeep(list []ast.Stmt) []ast.Stmt {
	var out []ast.Stmt
	for _, s := range list {
		if !nsNoise(s) {
			out = append(out, s)
		}
	}
	return out
}

func nsBlock(b *ast.BlockStmt) string {
	l := nsStmts(b.List)
	if len(l) == 0 {
		return "{ }"
	}
	return "{ " + strings.Join(l, "; ") + " }"
}

func nsRangeHeader(r *ast.RangeStmt) string {
	h := "for "
	if r.Key != nil {
		h += nsFlat(r.Key)
		if r.Value != nil {
			h += ", " + nsFlat(r.Value)
		}
		h += " " + r.Tok.String() + " "
	}
	return h + "range " + nsFlat(r.X)
}

// nsCaseLabel: the labels of one clause, in textual order.
func nsCaseLabel(c *ast.CaseClause) string {
	if c.List == nil {
		return "default"
	}
	l := make([]string, len(c.List))
	for i, e := range c.List {
		l[i] = nsFlat(e)
	}
	sort.Strings(l)
	return strings.Join(l, ", ")
}

// nsStmt prints a statement on one line; blocks as `{ s1; s2 }`, noise dropped at every depth.
func nsStmt(s ast.Stmt) string {
	switch x := s.(type) {
	case *ast.BlockStmt:
		return nsBlock(x)
	case *ast.IfStmt:
		h := "if "
		if x.Init != nil {
			h += nsStmt(x.Init) + "; "
		}
		h += nsFlat(x.Cond) + " " + nsBlock(x.Body)
		if x.Else != nil {
			h += " else " + nsStmt(x.Else)
		}
		return h
	case *ast.ForStmt:
		h := "for "
		if x.Init != nil || x.Post != nil {
			h += nsStmtOpt(x.Init) + "; " + nsFlat(x.Cond) + "; " + nsStmtOpt(x.Post) + " "
		} else if x.Cond != nil {
			h += nsFlat(x.Cond) + " "
		}
		return h + nsBlock(x.Body)
	case *ast.RangeStmt:
		return nsRangeHeader(x) + " " + nsBlock(x.Body)
	case *ast.SwitchStmt:
		h := "switch "
		if x.Init != nil {
			h += nsStmt(x.Init) + "; "
		}
		if x.Tag != nil {
			h += nsFlat(x.Tag) + " "
		}
		return h + "{ " + strings.Join(nsClauses(x), " ") + " }"
	case *ast.SelectStmt, *ast.TypeSwitchStmt, *ast.LabeledStmt:
		nsFail("unsupported statement kind %T in an extracted region", s)
	}
	return nsFlat(s)
}

func nsStmtOpt(s ast.Stmt) string {
	if s == nil {
		return ""
	}
	return nsStmt(s)
}

func nsStmts(list []ast.Stmt) []string {
	out := []string{}
	for _, s := range nsKeep(list) {
		out = append(out, nsStmt(s))
	}
	return out
}

// nsClauses: every clause of a switch as "case a, b: s1; s2".
func nsClauses(sw *ast.SwitchStmt) []string {
	var out []string
	for _, c := range sw.Body.List {
		cc := c.(*ast.CaseClause)
		l := nsCaseLabel(cc)
		if l != "default" {
			l = "case " + l
		}
		out = append(out, strings.TrimSpace(l+": "+strings.Join(nsStmts(cc.Body), "; ")))
	}
	return out
}

// nsCases: label -> statements of that clause; the labels must be exactly `want`.
func nsCases(where string, sw *ast.SwitchStmt, want ...string) map[string][]string {
	m := map[string][]string{}
	for _, c := range sw.Body.List {
		cc := c.(*ast.CaseClause)
		l := nsCaseLabel(cc)
		if _, dup := m[l]; dup {
			nsFail("%s: duplicate case %q", where, l)
		}
		m[l] = nsStmts(cc.Body)
	}
	for _, w := range want {
		if _, ok := m[w]; !ok {
			nsFail("%s: switch has no case %q", where, w)
		}
	}
	if len(m) != len(want) {
		nsFail("%s: switch has %d cases, expected %d (%s)", where, len(m), len(want), strings.Join(want, " | "))
	}
	return m
}

// nsCalls: does n contain a call whose function is `name` or ends in `.name`?
func nsCalls(n ast.Node, name string) bool {
	found := false
	ast.Inspect(n, func(x ast.Node) bool {
		if c, ok := x.(*ast.CallExpr); ok {
			fn := nsFlat(c.Fun)
			if fn == name || strings.HasSuffix(fn, "."+name) {
				found = true
			}
		}
		return !found
	})
	return found
}

// nsIndex: index of the only statement satisfying p (-1 if none; failure if several).
func nsIndex(where string, list []ast.Stmt, p func(ast.Stmt) bool) int {
	at := -1
	for i, s := range list {
		if p(s) {
			if at >= 0 {
				nsFail("%s: ambiguous (statements %d and %d both match)", where, at, i)
			}
			at = i
		}
	}
	return at
}

func nsMust(where string, i int) int {
	if i < 0 {
		nsFail("%s: not found", where)
	}
	return i
}

func nsFirst(list []ast.Stmt, p func(ast.Stmt) bool) int {
	for i, s := range list {
		if p(s) {
			return i
		}
	}
	return -1
}

// nsReturnsFalseIf: `if c { return false }` without init/else.
func nsReturnsFalseIf(s ast.Stmt) bool {
	x, ok := s.(*ast.IfStmt)
	if !ok || x.Init != nil || x.Else != nil {
		return false
	}
	b := nsStmts(x.Body.List)
	return len(b) == 1 && b[0] == "return false"
}

func nsIsSwitch(s ast.Stmt) bool { _, ok := s.(*ast.SwitchStmt); return ok }

// nsRange finds the only `range` loop of fd over an expression accepted by `over`.
func nsRange(fd *ast.FuncDecl, what string, over func(x string) bool) *ast.RangeStmt {
	var hit *ast.RangeStmt
	ast.Inspect(fd.Body, func(n ast.Node) bool {
		if r, ok := n.(*ast.RangeStmt); ok && over(nsFlat(r.X)) {
			if hit != nil {
				nsFail("%s: two loops over %s", fd.Name.Name, what)
			}
			hit = r
		}
		return true
	})
	if hit == nil {
		nsFail("%s: no loop over %s", fd.Name.Name, what)
	}
	return hit
}

// nsTopIndex: index of the top-level statement of fd that contains n.
func nsTopIndex(fd *ast.FuncDecl, n ast.Node) int {
	for i, s := range fd.Body.List {
		found := false
		ast.Inspect(s, func(x ast.Node) bool {
			found = found || x == n
			return !found
		})
		if found {
			return i
		}
	}
	nsFail("%s: statement not found at top level", fd.Name.Name)
	return -1
}

func nsIs(t string) func(string) bool { return func(x string) bool { return x == t } }
func nsSuffix(t string) func(string) bool {
	return func(x string) bool { return strings.HasSuffix(x, t) }
}

func nsLoop(r *ast.RangeStmt) []string {
	return append([]string{nsRangeHeader(r)}, nsStmts(r.Body.List)...)
}

var nsVarTok = regexp.MustCompile(`\bv[0-9]+\b`)

// nsLocalNumbering renumbers the canonical variables of one extracted fragment in order of first appearance
// (w0, w1, …), so that the fragment reads the same wherever it stands in its function (two independent loops may
// be written in either order).
func nsLocalNumbering(lines []string) []string {
	m := map[string]string{}
	out := make([]string, len(lines))
	for i, l := range lines {
		out[i] = nsVarTok.ReplaceAllStringFunc(l, func(v string) string {
			if _, ok := m[v]; !ok {
				m[v] = fmt.Sprintf("w%d", len(m))
			}
			return m[v]
		})
	}
	return out
}

// nsSingleAssign: the loop body is one plain assignment (no if / continue / anything else).
func nsSingleAssign(r *ast.RangeStmt) bool {
	if len(r.Body.List) != 1 {
		return false
	}
	a, ok := r.Body.List[0].(*ast.AssignStmt)
	return ok && a.Tok == token.ASSIGN && len(a.Lhs) == 1
}

// nsDefineFrom: index in list of the only `a[, b] := <rhs accepted by p>`, and the names
// defined (structure, not spelling, identifies a variable: "the one assigned from s.State()").
func nsDefineFrom(where string, list []ast.Stmt, p func(rhs ast.Expr) bool) (int, []string) {
	i := nsMust(where, nsIndex(where, list, func(s ast.Stmt) bool {
		a, ok := s.(*ast.AssignStmt)
		return ok && a.Tok == token.DEFINE && len(a.Rhs) == 1 && p(a.Rhs[0])
	}))
	var names []string
	for _, l := range list[i].(*ast.AssignStmt).Lhs {
		names = append(names, nsFlat(l))
	}
	return i, names
}

// nsParamTypes: the parameter types must be exactly `want` (parameters are p0, p1, … after
// normalisation, so "the parameter of type *messageLeave" is identified by position and type).
func nsParamTypes(fd *ast.FuncDecl, want ...string) {
	var got []string
	for _, f := range fd.Type.Params.List {
		n := len(f.Names)
		if n == 0 {
			n = 1
		}
		for ; n > 0; n-- {
			got = append(got, nsFlat(f.Type))
		}
	}
	if strings.Join(got, ", ") != strings.Join(want, ", ") {
		nsFail("%s: parameters (%s), expected (%s)", fd.Name.Name, strings.Join(got, ", "), strings.Join(want, ", "))
	}
}

// ---- Lean output -----------------------------------------------------------------------

type nsOut struct{ b strings.Builder }

func nsLeanStr(s string) string {
	r := strings.NewReplacer("\\", "\\\\", "\"", "\\\"", "\n", "\\n", "\t", "\\t")
	return "\"" + r.Replace(s) + "\""
}

func (o *nsOut) doc(d string) { fmt.Fprintf(&o.b, "\n/-- %s -/\n", d) }
func (o *nsOut) str(name, doc, v string) {
	o.doc(doc)
	fmt.Fprintf(&o.b, "def %s : String := %s\n", name, nsLeanStr(v))
}
func (o *nsOut) boolean(name, doc string, v bool) {
	o.doc(doc)
	fmt.Fprintf(&o.b, "def %s : Bool := %v\n", name, v)
}
func (o *nsOut) nat(name, doc string, v int) {
	o.doc(doc)
	fmt.Fprintf(&o.b, "def %s : Nat := %d\n", name, v)
}
func (o *nsOut) list(name, doc string, v []string) {
	o.doc(doc)
	if len(v) == 0 {
		fmt.Fprintf(&o.b, "def %s : List String := []\n", name)
		return
	}
	q := make([]string, len(v))
	for i, s := range v {
		q[i] = "  " + nsLeanStr(s)
	}
	fmt.Fprintf(&o.b, "def %s : List String := [\n%s]\n", name, strings.Join(q, ",\n"))
}
func (o *nsOut) section(s string) { fmt.Fprintf(&o.b, "\n/-! ## %s -/\n", s) }

// ---- the walkers (all on NORMALISED functions: recv, p0…, v0…) -------------------------

func nsReap(o *nsOut, f *ast.File) {
	o.section("serf.go reap / handleReap")
	fd := nsFn(f, "Serf", "reap")
	nsParamTypes(fd, "[]*memberState", "time.Time", "time.Duration")
	body := fd.Body.List
	fi := nsMust("reap: for loop", nsIndex("reap: for loop", body, func(s ast.Stmt) bool { _, ok := s.(*ast.ForStmt); return ok }))
	loop := body[fi].(*ast.ForStmt)
	ini, ok := loop.Init.(*ast.AssignStmt)
	if !ok || ini.Tok != token.DEFINE || len(ini.Lhs) != 1 {
		nsFail("reap: loop init is not `i := …`")
	}
	iv := nsFlat(ini.Lhs[0])
	o.str("reapInit", "statements of `reap` before its loop", strings.Join(nsStmts(body[:fi]), "; "))
	o.str("reapForInit", "loop init", nsStmt(loop.Init))
	o.str("reapCond", "loop condition", nsFlat(loop.Cond))
	o.str("reapPost", "loop post statement", nsStmtOpt(loop.Post))
	o.list("reapAfterLoop", "statements after the loop", nsStmts(body[fi+1:]))

	lb := loop.Body.List
	gi := nsMust("reap: `if … { continue }`", nsIndex("reap: `if … { continue }`", lb, func(s ast.Stmt) bool {
		x, ok := s.(*ast.IfStmt)
		if !ok || x.Init != nil || x.Else != nil {
			return false
		}
		b := nsStmts(x.Body.List)
		return len(b) == 1 && b[0] == "continue"
	}))
	guard, ok := lb[gi].(*ast.IfStmt).Cond.(*ast.BinaryExpr)
	if !ok {
		nsFail("reap: keep guard is not a comparison")
	}
	o.str("reapKeepGuard", "condition of the `continue` (keep) branch", nsFlat(guard))
	o.boolean("reapKeepsAtEquality", "the keep guard's operator is `<=`: an entry exactly at its timeout is kept", guard.Op == token.LEQ)
	o.list("reapPreGuardStmts", "loop body before the keep guard", nsStmts(lb[:gi]))
	del := nsKeep(lb[gi+1:])
	o.list("reapDeleteStmts", "loop body after the keep guard (the delete branch)", nsStmts(del))

	slice := ""
	shrink := nsFirst(del, func(s ast.Stmt) bool { // S = S[:…]
		a, ok := s.(*ast.AssignStmt)
		if !ok || a.Tok != token.ASSIGN || len(a.Lhs) != 1 || len(a.Rhs) != 1 {
			return false
		}
		sl, ok := a.Rhs[0].(*ast.SliceExpr)
		if ok && sl.Low == nil && sl.High != nil && nsFlat(sl.X) == nsFlat(a.Lhs[0]) {
			slice = nsFlat(a.Lhs[0])
			return true
		}
		return false
	})
	decOf := func(v string) func(ast.Stmt) bool {
		return func(s ast.Stmt) bool {
			d, ok := s.(*ast.IncDecStmt)
			return ok && d.Tok == token.DEC && nsFlat(d.X) == v
		}
	}
	dec := nsFirst(del, decOf(iv))
	o.boolean("reapRechecksSlot", "the loop variable is decremented after the shrink `S = S[:…]` in the delete branch: the element swapped into the freed slot is examined too", shrink >= 0 && dec > shrink)

	// the bound follows the shrinking slice: either `i < len(S)`, or `i < N` with `N := len(S)`
	// before the loop and one `N--` after the shrink
	tracks := false
	if c, ok := loop.Cond.(*ast.BinaryExpr); ok && c.Op == token.LSS && nsFlat(c.X) == iv && shrink >= 0 {
		switch y := c.Y.(type) {
		case *ast.CallExpr:
			tracks = nsFlat(y) == "len("+slice+")"
		case *ast.Ident:
			def := nsFirst(body[:fi], func(s ast.Stmt) bool { return nsStmt(s) == y.Name+" := len("+slice+")" })
			nd := nsIndex("reap: decrement of the bound", del, decOf(y.Name))
			writes := 0
			ast.Inspect(loop, func(n ast.Node) bool {
				for _, w := range nsWrites(n) {
					if nsFlat(w) == y.Name {
						writes++
					}
				}
				return true
			})
			tracks = def >= 0 && nd > shrink && writes == 1
		}
	}
	o.boolean("reapBoundTracksShrink", "the loop bound follows the shrinking slice (a counter `N := len(S)` decremented once after the shrink, or `len(S)` itself)", tracks)

	override := false
	for _, s := range lb[:gi] {
		x, ok := s.(*ast.IfStmt)
		if !ok || !strings.HasSuffix(nsFlat(x.Cond), ".ReconnectTimeoutOverride != nil") || len(x.Body.List) != 1 {
			continue
		}
		a, ok := x.Body.List[0].(*ast.AssignStmt)
		if ok && a.Tok == token.ASSIGN && len(a.Lhs) == 1 && len(a.Rhs) == 1 && nsFlat(a.Lhs[0]) == nsFlat(guard.Y) {
			if c, ok := a.Rhs[0].(*ast.CallExpr); ok && strings.HasSuffix(nsFlat(c.Fun), ".ReconnectTimeoutOverride.ReconnectTimeout") &&
				len(c.Args) == 2 && nsFlat(c.Args[1]) == nsFlat(guard.Y) {
				override = true
			}
		}
	}
	o.boolean("reapOverrideApplied", "the `ReconnectTimeoutOverride != nil` block assigns the guard's right operand from `…ReconnectTimeout(&<element>.Member, <it>)`", override)

	hr := nsFn(f, "Serf", "handleReap")
	var calls []string
	ast.Inspect(hr.Body, func(n ast.Node) bool {
		switch n.(type) {
		case *ast.AssignStmt, *ast.ExprStmt:
			if nsCalls(n, "reap") || nsCalls(n, "reapIntents") {
				calls = append(calls, nsStmt(n.(ast.Stmt)))
				return false
			}
		}
		return true
	})
	if len(calls) == 0 {
		nsFail("handleReap: no reap call")
	}
	o.list("reapCalls", "the reaping statements of `handleReap`, in order", calls)
}

func nsLeaveIntent(o *nsOut, f *ast.File) {
	o.section("serf.go handleNodeLeaveIntent / handlePrune")
	fd := nsFn(f, "Serf", "handleNodeLeaveIntent")
	nsParamTypes(fd, "*messageLeave") // the message is p0
	top := nsKeep(fd.Body.List)
	is := func(text string) func(ast.Stmt) bool { return func(s ast.Stmt) bool { return nsStmt(s) == text } }

	// the variable assigned from recv.State(), the one looked up in recv.members
	st, _ := nsDefineFrom("handleNodeLeaveIntent: `<state> := s.State()`", top, func(e ast.Expr) bool { return nsFlat(e) == "recv.State()" })
	_, mem := nsDefineFrom("handleNodeLeaveIntent: `<member>, ok := s.members[…]`", top, func(e ast.Expr) bool { return nsFlat(e) == "recv.members[p0.Node]" })
	member := mem[0]
	stale := nsMust("handleNodeLeaveIntent: `if … { return false }`", nsFirst(top, nsReturnsFalseIf))
	isGo := func(t ast.Stmt) bool { _, ok := t.(*ast.GoStmt); return ok }
	refute := nsMust("handleNodeLeaveIntent: refutation branch", nsIndex("refute", top, func(s ast.Stmt) bool {
		x, ok := s.(*ast.IfStmt)
		return ok && nsFirst(x.Body.List, isGo) >= 0
	}))
	rb := top[refute].(*ast.IfStmt)
	sw := nsMust("handleNodeLeaveIntent: switch", nsIndex("switch", top, nsIsSwitch))
	set := nsIndex("statusLTime assignment", top, is(member+".statusLTime = p0.LTime"))

	o.str("leaveStaleGuard", "guard of the first top-level `if … { return false }`", nsFlat(top[stale].(*ast.IfStmt).Cond))
	o.str("leaveRefuteGuard", "guard of the branch that starts a goroutine", nsFlat(rb.Cond))
	o.str("leaveRefuteCall", "the `go` statement of that branch", nsStmt(rb.Body.List[nsFirst(rb.Body.List, isGo)]))
	o.list("leaveRefuteStmts", "the whole refutation branch", nsStmts(rb.Body.List))
	o.boolean("leaveWitnessFirst", "the function starts with `<state> := recv.State()` and the next statement is `recv.clock.Witness(p0.LTime)`",
		st == 0 && len(top) > 1 && nsStmt(top[1]) == "recv.clock.Witness(p0.LTime)")
	o.boolean("leaveSetsTimeBeforeSwitch", "`<member>.statusLTime = p0.LTime` is a top-level statement before the `switch`", set >= 0 && set < sw)
	o.boolean("leaveGuardsBeforeSetTime", "stale guard, then refutation, then the statusLTime assignment", set >= 0 && stale < refute && refute < set)

	swst := top[sw].(*ast.SwitchStmt)
	skel := []string{}
	for i, s := range top {
		if i == sw {
			skel = append(skel, "switch "+nsFlat(swst.Tag))
		} else {
			skel = append(skel, nsStmt(s))
		}
	}
	o.list("leaveSkeleton", "top-level statements (the switch abbreviated to its tag)", skel)
	c := nsCases("handleNodeLeaveIntent", swst, "StatusAlive", "StatusFailed", "StatusLeaving, StatusLeft", "default")
	o.list("leaveCaseAlive", "case StatusAlive", c["StatusAlive"])
	o.list("leaveCaseFailed", "case StatusFailed", c["StatusFailed"])
	// in the failed case: failed-list removal and left-list append both precede the prune
	at := func(l []string, pre string) int {
		for i, s := range l {
			if strings.HasPrefix(s, pre) {
				return i
			}
		}
		return -1
	}
	fc := c["StatusFailed"]
	rm, ap, pr := at(fc, "recv.failedMembers = removeOldMember(recv.failedMembers, "), at(fc, "recv.leftMembers = append(recv.leftMembers, "), at(fc, "if p0.Prune { recv.handlePrune(")
	o.boolean("leavePruneAfterListUpdate", "case StatusFailed: `recv.failedMembers = removeOldMember(recv.failedMembers, …)` and `recv.leftMembers = append(recv.leftMembers, …)` both precede `if p0.Prune { recv.handlePrune(…`",
		rm >= 0 && ap >= 0 && pr > rm && pr > ap)
	o.list("leaveCaseLeavingLeft", "case StatusLeaving, StatusLeft", c["StatusLeaving, StatusLeft"])
	o.list("leaveCaseDefault", "default", c["default"])

	hp := nsFn(f, "Serf", "handlePrune")
	nsParamTypes(hp, "*memberState")
	o.list("handlePruneStmts", "body of `handlePrune`", nsStmts(hp.Body.List))
}

// nsRemoveOld: removeOldMember as a SEMANTIC summary.  Two spellings are understood:
//
//	for i, m := range S { if PRED(m) { REMOVE(i); return … } }; return S
//	i := slices.IndexFunc(S, func(m T) bool { return PRED(m) }); if i < 0 { return S }; REMOVE(i); return …
//
// (the second also as `if i >= 0 { REMOVE(i); return … }; return S`).  The index is printed as
// `idx`, the element as `elem`.
func nsRemoveOld(o *nsOut, fd *ast.FuncDecl) {
	nsParamTypes(fd, "[]*memberState", "string")
	body := nsKeep(fd.Body.List)
	bad := func(why string) {
		nsFail("removeOldMember: shape not understood (%s): %s", why, strings.Join(nsStmts(body), "; "))
	}
	var over, pred ast.Expr
	var idx, elem *ast.Object
	var onMatch []ast.Stmt
	var noMatch ast.Stmt
	first := false
	oneReturn := func(l []ast.Stmt) ast.Stmt {
		l = nsKeep(l)
		if len(l) != 1 {
			return nil
		}
		if _, ok := l[0].(*ast.ReturnStmt); !ok {
			return nil
		}
		return l[0]
	}
	if len(body) == 0 {
		bad("empty")
	}
	switch x := body[0].(type) {
	case *ast.RangeStmt:
		if len(body) != 2 || x.Tok != token.DEFINE {
			bad("loop is not followed by exactly one statement")
		}
		idx, elem = nsObj(x.Key), nsObj(x.Value)
		lb := nsKeep(x.Body.List)
		if t, ok := func() (*ast.IfStmt, bool) {
			if len(lb) != 1 {
				return nil, false
			}
			t, ok := lb[0].(*ast.IfStmt)
			return t, ok
		}(); ok && idx != nil && elem == nil && (x.Value == nil || nsFlat(x.Value) == "_") {
			// `for i := range S { if PRED(S[i]) {…} }`: the test reads S[i] before anything is
			// written in that iteration (and an iteration that writes returns): S[i] is the element
			elem = &ast.Object{Kind: ast.Var, Name: "elem"}
			s := nsFlat(x.X)
			rw := &nsRw{f: func(e ast.Expr) ast.Expr {
				if ix, ok := e.(*ast.IndexExpr); ok && nsFlat(ix.X) == s && nsObj(ix.Index) == idx {
					return &ast.Ident{Name: "elem", Obj: elem}
				}
				return e
			}}
			t.Cond = rw.t(t.Cond)
		}
		if idx == nil || elem == nil || len(lb) != 1 {
			bad("loop does not bind index and element, or its body is not a single `if`")
		}
		t, ok := lb[0].(*ast.IfStmt)
		if !ok || t.Init != nil || t.Else != nil {
			bad("loop body is not a plain `if`")
		}
		over, pred, onMatch = x.X, t.Cond, nsKeep(t.Body.List)
		// ascending `range` + `return` inside the branch: the FIRST match is the one removed
		_, first = onMatch[len(onMatch)-1].(*ast.ReturnStmt)
		if noMatch = oneReturn(body[1:]); noMatch == nil {
			bad("no single return after the loop")
		}
	case *ast.AssignStmt:
		if x.Tok != token.DEFINE || len(x.Lhs) != 1 || len(x.Rhs) != 1 {
			bad("first statement")
		}
		c, ok := x.Rhs[0].(*ast.CallExpr)
		if !ok || nsFlat(c.Fun) != "slices.IndexFunc" || len(c.Args) != 2 {
			bad("not slices.IndexFunc")
		}
		fl, ok := c.Args[1].(*ast.FuncLit)
		if !ok || len(fl.Type.Params.List) != 1 || len(fl.Type.Params.List[0].Names) != 1 {
			bad("predicate is not a one-parameter function literal")
		}
		ret, _ := oneReturn(fl.Body.List).(*ast.ReturnStmt)
		if ret == nil || len(ret.Results) != 1 {
			bad("predicate body is not a single return")
		}
		idx, elem = nsObj(x.Lhs[0]), fl.Type.Params.List[0].Names[0].Obj
		over, pred, first = c.Args[0], ret.Results[0], true // slices.IndexFunc: the first index satisfying the predicate
		rest := body[1:]
		if idx == nil || elem == nil || len(rest) < 2 {
			bad("nothing after the search")
		}
		t, ok := rest[0].(*ast.IfStmt)
		if !ok || t.Init != nil || t.Else != nil {
			bad("search is not followed by a plain `if`")
		}
		i := nsFlat(x.Lhs[0])
		switch nsFlat(t.Cond) {
		case i + " < 0", i + " == -1", i + " <= -1":
			noMatch, onMatch = oneReturn(t.Body.List), rest[1:]
		case "0 <= " + i, i + " != -1", "-1 < " + i:
			onMatch = nsKeep(t.Body.List)
			noMatch = oneReturn(rest[1:])
		default:
			bad("test of the index")
		}
		if noMatch == nil || len(onMatch) == 0 {
			bad("no-match branch is not a single return")
		}
		if _, ok := onMatch[len(onMatch)-1].(*ast.ReturnStmt); !ok {
			bad("removal does not end in a return")
		}
	default:
		bad("first statement")
	}
	ast.Inspect(fd, func(n ast.Node) bool {
		if id, ok := n.(*ast.Ident); ok && id.Obj != nil {
			switch id.Obj {
			case idx:
				id.Name = "idx"
			case elem:
				id.Name = "elem"
			}
		}
		return true
	})
	nsApply(fd, nsSortOperands, nil) // the operand order must not depend on what idx / elem were called
	o.str("removeOldSearchOver", "removeOldMember: the slice that is searched", nsFlat(over))
	o.str("removeOldSearchPred", "the predicate on an element `elem`", nsFlat(pred))
	o.boolean("removeOldSearchFirst", "the search stops at the FIRST element (ascending index) satisfying the predicate", first)
	o.list("removeOldOnMatch", "what happens with the index `idx` of that element (single-assignment locals inlined)", nsStmts(onMatch))
	o.str("removeOldNoMatch", "what happens when no element satisfies the predicate", nsStmt(noMatch))
}

func nsJoinLeave(o *nsOut, f *ast.File) {
	o.section("serf.go handleNodeJoin / handleNodeLeave / removeOldMember / upsertIntent / handleNodeJoinIntent")
	fd := nsFn(f, "Serf", "handleNodeJoin")
	nsParamTypes(fd, "*memberlist.Node")
	top := nsKeep(fd.Body.List)
	_, look := nsDefineFrom("handleNodeJoin: `<member>, <ok> := s.members[…]`", top, func(e ast.Expr) bool { return nsFlat(e) == "recv.members[p0.Name]" })
	if len(look) != 2 {
		nsFail("handleNodeJoin: the member look-up does not define two variables")
	}
	// canonical orientation: `if <ok> { known } else { first seen }`
	br := nsMust("handleNodeJoin: `if <ok> { … } else { … }`", nsIndex("ok", top, func(s ast.Stmt) bool {
		x, ok := s.(*ast.IfStmt)
		return ok && x.Init == nil && nsFlat(x.Cond) == look[1]
	}))
	ifok := top[br].(*ast.IfStmt)
	fresh, ok := ifok.Else.(*ast.BlockStmt)
	if !ok {
		nsFail("handleNodeJoin: the test of the look-up has no plain else block")
	}
	var lookups []string
	for _, s := range nsKeep(fresh.List) {
		if x, ok := s.(*ast.IfStmt); ok && x.Init != nil && nsCalls(x.Init, "recentIntent") {
			lookups = append(lookups, nsStmt(x))
		}
	}
	cl := nsMust("handleNodeJoin: list clean-up", nsIndex("clean-up", top, func(s ast.Stmt) bool { return nsCalls(s, "removeOldMember") }))
	if cl < br {
		nsFail("handleNodeJoin: list clean-up precedes the known / first-seen branch")
	}
	switch x := top[cl].(type) {
	case *ast.IfStmt:
		if x.Init != nil || x.Else != nil {
			nsFail("handleNodeJoin: clean-up `if` has init/else")
		}
		o.str("joinCleanupGuard", "guard of the statement that calls removeOldMember", nsFlat(x.Cond))
		o.list("joinCleanupStmts", "its statements", nsStmts(x.Body.List))
	case *ast.SwitchStmt:
		o.str("joinCleanupGuard", "guard of the statement that calls removeOldMember", "switch "+nsFlat(x.Tag))
		o.list("joinCleanupStmts", "its clauses", nsClauses(x))
	default:
		nsFail("handleNodeJoin: clean-up is neither `if` nor `switch`")
	}
	o.list("joinIntentLookups", "the recentIntent look-ups for a member seen for the first time", lookups)
	o.list("joinKnownStmts", "the branch for a member already known", nsStmts(ifok.Body.List))

	fd = nsFn(f, "Serf", "handleNodeLeave")
	nsParamTypes(fd, "*memberlist.Node")
	top = nsKeep(fd.Body.List)
	sw := nsMust("handleNodeLeave: switch", nsIndex("switch", top, nsIsSwitch))
	c := nsCases("handleNodeLeave", top[sw].(*ast.SwitchStmt), "StatusLeaving", "StatusAlive", "default")
	o.str("nodeLeaveSwitchTag", "handleNodeLeave switches on", nsFlat(top[sw].(*ast.SwitchStmt).Tag))
	o.list("nodeLeaveCaseLeaving", "handleNodeLeave, case StatusLeaving", c["StatusLeaving"])
	o.list("nodeLeaveCaseAlive", "handleNodeLeave, case StatusAlive", c["StatusAlive"])
	o.list("nodeLeaveCaseDefault", "handleNodeLeave, default", c["default"])

	nsRemoveOld(o, nsFn(f, "", "removeOldMember"))

	fd = nsFn(f, "", "upsertIntent")
	nsParamTypes(fd, "map[string]nodeIntent", "string", "messageType", "LamportTime", "func() time.Time")
	top = nsKeep(fd.Body.List)
	g, ok := top[0].(*ast.IfStmt)
	if !ok || g.Else != nil {
		nsFail("upsertIntent: does not start with an else-less `if`")
	}
	gs := nsFlat(g.Cond)
	if g.Init != nil {
		gs = nsStmt(g.Init) + "; " + gs
	}
	o.str("upsertIntentGuard", "init and condition of the leading `if` of `upsertIntent`", gs)
	o.list("upsertIntentThen", "its body", nsStmts(g.Body.List))
	o.list("upsertIntentRest", "statements after it", nsStmts(top[1:]))

	fd = nsFn(f, "Serf", "handleNodeJoinIntent")
	nsParamTypes(fd, "*messageJoin")
	top = nsKeep(fd.Body.List)
	stale := nsMust("handleNodeJoinIntent: `if … { return false }`", nsFirst(top, nsReturnsFalseIf))
	o.str("joinIntentStaleGuard", "guard of the first top-level `if … { return false }` of handleNodeJoinIntent", nsFlat(top[stale].(*ast.IfStmt).Cond))
	o.list("joinIntentStmts", "top-level statements of handleNodeJoinIntent", nsStmts(top))
}

func nsDelegate(o *nsOut, f *ast.File) {
	o.section("delegate.go LocalState / MergeRemoteState / NotifyMsg")
	fd := nsFn(f, "delegate", "LocalState")
	r := nsRange(fd, "recv.serf.members", nsIs("recv.serf.members"))
	o.list("localStateStatusLoop", "LocalState: loop over the member map (header, body)", nsLocalNumbering(nsLoop(r)))
	o.boolean("localStateStatusLoopUnconditional", "its body is a single assignment: every member is reported", nsSingleAssign(r))
	r = nsRange(fd, "recv.serf.leftMembers", nsIs("recv.serf.leftMembers"))
	o.list("localStateLeftLoop", "LocalState: loop over the left list (header, body)", nsLocalNumbering(nsLoop(r)))
	o.boolean("localStateLeftLoopUnconditional", "its body is a single assignment: every left entry is reported", nsSingleAssign(r))

	fd = nsFn(f, "delegate", "MergeRemoteState")
	left, join := nsRange(fd, "<pp>.LeftMembers", nsSuffix(".LeftMembers")), nsRange(fd, "<pp>.StatusLTimes", nsSuffix(".StatusLTimes"))
	ti := nsMust("MergeRemoteState: leave time assignment", nsIndex("leave time", left.Body.List, func(s ast.Stmt) bool {
		a, ok := s.(*ast.AssignStmt)
		return ok && len(a.Lhs) == 1 && len(a.Rhs) == 1 && strings.HasSuffix(nsFlat(a.Lhs[0]), ".LTime")
	}))
	te := left.Body.List[ti].(*ast.AssignStmt).Rhs[0]
	off := 0
	switch x := te.(type) {
	case *ast.BinaryExpr:
		k, ok := intLit(x.Y)
		if x.Op != token.ADD || !ok {
			nsFail("MergeRemoteState: leave time %s is not `<expr> + <int literal>`", nsFlat(te))
		}
		off = k
	case *ast.IndexExpr, *ast.Ident, *ast.SelectorExpr:
	default:
		nsFail("MergeRemoteState: leave time %s has an unsupported shape", nsFlat(te))
	}
	o.str("mergeLeaveTimeExpr", "Lamport time given to the artificial leave message", nsFlat(te))
	o.nat("mergeLeaveOffset", "the integer added to the status time (constants resolved; 0 if none)", off)
	o.list("mergeLeftLoopStmts", "loop over <pp>.LeftMembers (header, body)", nsLoop(left))
	o.list("mergeJoinLoopStmts", "loop over <pp>.StatusLTimes (header, body)", nsLoop(join))
	li, ji := nsTopIndex(fd, left), nsTopIndex(fd, join)
	o.boolean("mergeLeftsBeforeJoins", "the left loop precedes the status loop", li < ji)
	discarded := func(r *ast.RangeStmt, h string) bool {
		i := nsMust("MergeRemoteState: call of "+h, nsIndex(h, r.Body.List, func(s ast.Stmt) bool { return nsCalls(s, h) }))
		e, ok := r.Body.List[i].(*ast.ExprStmt)
		if !ok {
			return false
		}
		c, ok := e.X.(*ast.CallExpr)
		return ok && strings.HasSuffix(nsFlat(c.Fun), "."+h)
	}
	o.boolean("mergeIgnoresResults", "both handler calls are expression statements (results discarded)",
		discarded(left, "handleNodeLeaveIntent") && discarded(join, "handleNodeJoinIntent"))
	var wit []string
	witFirst := true
	for i, s := range fd.Body.List {
		if nsCalls(s, "Witness") {
			wit = append(wit, nsStmt(s))
			witFirst = witFirst && i < li
		}
	}
	o.list("mergeWitnessStmts", "top-level statements that witness a clock", wit)
	o.boolean("mergeWitnessBeforeLoops", "all of them precede the left loop", witFirst && len(wit) > 0)

	fd = nsFn(f, "delegate", "NotifyMsg")
	top := fd.Body.List
	gi := nsMust("NotifyMsg: rebroadcast branch", nsIndex("rebroadcast", top, func(s ast.Stmt) bool {
		_, ok := s.(*ast.IfStmt)
		return ok && nsCalls(s, "QueueBroadcast")
	}))
	guard := nsFlat(top[gi].(*ast.IfStmt).Cond)
	si := nsMust("NotifyMsg: switch", nsIndex("switch", top, nsIsSwitch))
	if si > gi {
		nsFail("NotifyMsg: rebroadcast branch precedes the switch")
	}
	handler := func(label, h string) (string, bool) {
		for _, c := range top[si].(*ast.SwitchStmt).Body.List {
			cc := c.(*ast.CaseClause)
			if nsCaseLabel(cc) != label {
				continue
			}
			i := nsMust("NotifyMsg: call of "+h, nsIndex(h, cc.Body, func(s ast.Stmt) bool { return nsCalls(s, h) }))
			a, ok := cc.Body[i].(*ast.AssignStmt)
			return nsStmt(cc.Body[i]), ok && a.Tok == token.ASSIGN && len(a.Lhs) == 1 && nsFlat(a.Lhs[0]) == guard
		}
		nsFail("NotifyMsg: no case %s", label)
		return "", false
	}
	ls, lok := handler("messageLeaveType", "handleNodeLeaveIntent")
	js, jok := handler("messageJoinType", "handleNodeJoinIntent")
	ini := nsFirst(top, func(s ast.Stmt) bool {
		a, ok := s.(*ast.AssignStmt)
		return ok && a.Tok == token.DEFINE && len(a.Lhs) == 1 && nsFlat(a.Lhs[0]) == guard
	})
	o.str("notifyRebroadcastGuard", "condition of the branch that re-queues the received message", guard)
	o.str("notifyRebroadcastInit", "where that variable is defined", nsStmtOpt(func() ast.Stmt {
		if ini < 0 {
			return nil
		}
		return top[ini]
	}()))
	o.str("notifyLeaveHandler", "case messageLeaveType: the handler statement", ls)
	o.str("notifyJoinHandler", "case messageJoinType: the handler statement", js)
	o.boolean("notifyHandlersAssignGuard", "both are assignments to the guard variable", lok && jok)
}

func genNodeShapes(repo string) (src string, err error) {
	defer func() {
		if r := recover(); r != nil {
			e, ok := r.(nsErr)
			if !ok {
				panic(r)
			}
			src, err = "", fmt.Errorf("NodeShapes: %s", e.msg)
		}
	}()
	_, sf, err := parseFile(repo + "/serf/serf.go")
	if err != nil {
		return "", err
	}
	_, df, err := parseFile(repo + "/serf/delegate.go")
	if err != nil {
		return "", err
	}
	nsLoadConsts(repo + "/serf")
	o := &nsOut{}
	o.b.WriteString("-- GENERATED by /verif/extract (nodeshapes.go) from serf/serf.go and serf/delegate.go — do not edit.\n")
	o.b.WriteString("-- Every function is NORMALISED first: receiver `recv`, parameters `p0,p1,…`, other variables `v0,v1,…` in order of\n")
	o.b.WriteString("-- definition; literal constants resolved; single-assignment pure locals inlined; `a > b` written `b < a`; no else after\n")
	o.b.WriteString("-- a returning branch; `xs[i]` of a range loop written as the loop's value variable.  Statements are printed on one\n")
	o.b.WriteString("-- line; <…>.logger.Printf / metrics.* statements are dropped.\n")
	o.b.WriteString("namespace SerfModel.Gen.NodeShapes\n")
	nsReap(o, sf)
	nsLeaveIntent(o, sf)
	nsJoinLeave(o, sf)
	nsDelegate(o, df)
	o.b.WriteString("\nend SerfModel.Gen.NodeShapes\n")
	return o.b.String(), nil
}

func init() { addGen("NodeShapes", genNodeShapes) }
