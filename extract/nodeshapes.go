package main

import (
	"fmt"
	"go/ast"
	"go/token"
	"strings"
)

// Gen/NodeShapes.lean: the decisive code shapes of the membership state machine
// (serf/serf.go: reap, handleReap, handleNodeLeaveIntent, handlePrune, handleNodeJoin,
// handleNodeLeave, removeOldMember, upsertIntent, handleNodeJoinIntent; serf/delegate.go:
// LocalState, MergeRemoteState, NotifyMsg) as canonical one-line strings, ordered
// statement lists and a few derived booleans / numbers.  SerfProofs/Lemmas/NodeShapes.lean
// states what each must be and what that means for the hand-written model (Model/Node.lean).
// A shape the walkers do not understand is an error (nsFail), never a silent default.

type nsErr struct{ msg string }

func nsFail(format string, a ...interface{}) { panic(nsErr{fmt.Sprintf(format, a...)}) }

// ---- generic helpers -------------------------------------------------------------------

// nsFn finds method recv.name (function name when recv is empty) or fails.
func nsFn(f *ast.File, recv, name string) *ast.FuncDecl {
	fd := findFunc(f, recv, name)
	if fd == nil || fd.Body == nil {
		nsFail("%s.%s not found", recv, name)
	}
	return fd
}

// nsFlat prints a node canonically on one line (go/printer without position information,
// hence without comments and without the source's own line breaks; whitespace collapsed).
func nsFlat(n ast.Node) string {
	if n == nil {
		return ""
	}
	return strings.Join(strings.Fields(exprString(n)), " ")
}

// nsNoise: s.logger.Printf(...), d.serf.logger.Printf(...), metrics.*(...) statements, and
// an `if` (no init, no else) whose body is nothing but such statements.
func nsNoise(s ast.Stmt) bool {
	switch x := s.(type) {
	case *ast.ExprStmt:
		c, ok := x.X.(*ast.CallExpr)
		if !ok {
			return false
		}
		fn := nsFlat(c.Fun)
		return strings.HasSuffix(fn, ".logger.Printf") || strings.HasPrefix(fn, "metrics.")
	case *ast.IfStmt:
		return x.Init == nil && x.Else == nil && len(x.Body.List) > 0 && len(nsKeep(x.Body.List)) == 0
	}
	return false
}

func nsKeep(list []ast.Stmt) []ast.Stmt {
	var out []ast.Stmt
	for _, s := range list {
		if !nsNoise(s) {
			out = append(out, s)
		}
	}
	return out
}

func nsBlock(b *ast.BlockStmt) string {
	l := nsStmts(b.List)
	if len(l) == 0 {
		return "{ }"
	}
	return "{ " + strings.Join(l, "; ") + " }"
}

func nsRangeHeader(r *ast.RangeStmt) string {
	h := "for "
	if r.Key != nil {
		h += nsFlat(r.Key)
		if r.Value != nil {
			h += ", " + nsFlat(r.Value)
		}
		h += " " + r.Tok.String() + " "
	}
	return h + "range " + nsFlat(r.X)
}

func nsCaseLabel(c *ast.CaseClause) string {
	if c.List == nil {
		return "default"
	}
	l := make([]string, len(c.List))
	for i, e := range c.List {
		l[i] = nsFlat(e)
	}
	return strings.Join(l, ", ")
}

// nsStmt prints a statement on one line; blocks as `{ s1; s2 }`, noise dropped at every depth.
func nsStmt(s ast.Stmt) string {
	switch x := s.(type) {
	case *ast.BlockStmt:
		return nsBlock(x)
	case *ast.IfStmt:
		h := "if "
		if x.Init != nil {
			h += nsStmt(x.Init) + "; "
		}
		h += nsFlat(x.Cond) + " " + nsBlock(x.Body)
		if x.Else != nil {
			h += " else " + nsStmt(x.Else)
		}
		return h
	case *ast.ForStmt:
		h := "for "
		if x.Init != nil || x.Post != nil {
			h += nsStmtOpt(x.Init) + "; " + nsFlat(x.Cond) + "; " + nsStmtOpt(x.Post) + " "
		} else if x.Cond != nil {
			h += nsFlat(x.Cond) + " "
		}
		return h + nsBlock(x.Body)
	case *ast.RangeStmt:
		return nsRangeHeader(x) + " " + nsBlock(x.Body)
	case *ast.SwitchStmt:
		h := "switch "
		if x.Init != nil {
			h += nsStmt(x.Init) + "; "
		}
		if x.Tag != nil {
			h += nsFlat(x.Tag) + " "
		}
		return h + "{ " + strings.Join(nsClauses(x), " ") + " }"
	case *ast.SelectStmt, *ast.TypeSwitchStmt, *ast.LabeledStmt:
		nsFail("unsupported statement kind %T in an extracted region", s)
	}
	return nsFlat(s)
}

func nsStmtOpt(s ast.Stmt) string {
	if s == nil {
		return ""
	}
	return nsStmt(s)
}

func nsStmts(list []ast.Stmt) []string {
	out := []string{}
	for _, s := range nsKeep(list) {
		out = append(out, nsStmt(s))
	}
	return out
}

// nsClauses: every clause of a switch as "case a, b: s1; s2".
func nsClauses(sw *ast.SwitchStmt) []string {
	var out []string
	for _, c := range sw.Body.List {
		cc := c.(*ast.CaseClause)
		l := nsCaseLabel(cc)
		if l != "default" {
			l = "case " + l
		}
		out = append(out, strings.TrimSpace(l+": "+strings.Join(nsStmts(cc.Body), "; ")))
	}
	return out
}

// nsCases: label -> statements of that clause; the labels must be exactly `want`.
func nsCases(where string, sw *ast.SwitchStmt, want ...string) map[string][]string {
	m := map[string][]string{}
	for _, c := range sw.Body.List {
		cc := c.(*ast.CaseClause)
		l := nsCaseLabel(cc)
		if _, dup := m[l]; dup {
			nsFail("%s: duplicate case %q", where, l)
		}
		m[l] = nsStmts(cc.Body)
	}
	for _, w := range want {
		if _, ok := m[w]; !ok {
			nsFail("%s: switch has no case %q", where, w)
		}
	}
	if len(m) != len(want) {
		nsFail("%s: switch has %d cases, expected %d (%s)", where, len(m), len(want), strings.Join(want, " | "))
	}
	return m
}

// nsCalls: does n contain a call whose function is `name` or ends in `.name`?
func nsCalls(n ast.Node, name string) bool {
	found := false
	ast.Inspect(n, func(x ast.Node) bool {
		if c, ok := x.(*ast.CallExpr); ok {
			fn := nsFlat(c.Fun)
			if fn == name || strings.HasSuffix(fn, "."+name) {
				found = true
			}
		}
		return !found
	})
	return found
}

// nsIndex: index of the only statement satisfying p (-1 if none; failure if several).
func nsIndex(where string, list []ast.Stmt, p func(ast.Stmt) bool) int {
	at := -1
	for i, s := range list {
		if p(s) {
			if at >= 0 {
				nsFail("%s: ambiguous (statements %d and %d both match)", where, at, i)
			}
			at = i
		}
	}
	return at
}

func nsMust(where string, i int) int {
	if i < 0 {
		nsFail("%s: not found", where)
	}
	return i
}

func nsFirst(list []ast.Stmt, p func(ast.Stmt) bool) int {
	for i, s := range list {
		if p(s) {
			return i
		}
	}
	return -1
}

// nsReturnsFalseIf: `if c { return false }` without init/else.
func nsReturnsFalseIf(s ast.Stmt) bool {
	x, ok := s.(*ast.IfStmt)
	if !ok || x.Init != nil || x.Else != nil {
		return false
	}
	b := nsStmts(x.Body.List)
	return len(b) == 1 && b[0] == "return false"
}

func nsIsSwitch(s ast.Stmt) bool { _, ok := s.(*ast.SwitchStmt); return ok }

// nsRange finds the only `range` over expression x inside fd.
func nsRange(fd *ast.FuncDecl, x string) *ast.RangeStmt {
	var hit *ast.RangeStmt
	ast.Inspect(fd.Body, func(n ast.Node) bool {
		if r, ok := n.(*ast.RangeStmt); ok && nsFlat(r.X) == x {
			if hit != nil {
				nsFail("%s: two loops over %s", fd.Name.Name, x)
			}
			hit = r
		}
		return true
	})
	if hit == nil {
		nsFail("%s: no loop over %s", fd.Name.Name, x)
	}
	return hit
}

func nsLoop(r *ast.RangeStmt) []string {
	return append([]string{nsRangeHeader(r)}, nsStmts(r.Body.List)...)
}

// nsSingleAssign: the loop body is one plain assignment (no if / continue / anything else).
func nsSingleAssign(r *ast.RangeStmt) bool {
	if len(r.Body.List) != 1 {
		return false
	}
	a, ok := r.Body.List[0].(*ast.AssignStmt)
	return ok && a.Tok == token.ASSIGN && len(a.Lhs) == 1
}

// ---- Lean output -----------------------------------------------------------------------

type nsOut struct{ b strings.Builder }

func nsLeanStr(s string) string {
	r := strings.NewReplacer("\\", "\\\\", "\"", "\\\"", "\n", "\\n", "\t", "\\t")
	return "\"" + r.Replace(s) + "\""
}

func (o *nsOut) doc(d string) { fmt.Fprintf(&o.b, "\n/-- %s -/\n", d) }
func (o *nsOut) str(name, doc, v string) {
	o.doc(doc)
	fmt.Fprintf(&o.b, "def %s : String := %s\n", name, nsLeanStr(v))
}
func (o *nsOut) boolean(name, doc string, v bool) {
	o.doc(doc)
	fmt.Fprintf(&o.b, "def %s : Bool := %v\n", name, v)
}
func (o *nsOut) nat(name, doc string, v int) {
	o.doc(doc)
	fmt.Fprintf(&o.b, "def %s : Nat := %d\n", name, v)
}
func (o *nsOut) list(name, doc string, v []string) {
	o.doc(doc)
	if len(v) == 0 {
		fmt.Fprintf(&o.b, "def %s : List String := []\n", name)
		return
	}
	q := make([]string, len(v))
	for i, s := range v {
		q[i] = "  " + nsLeanStr(s)
	}
	fmt.Fprintf(&o.b, "def %s : List String := [\n%s]\n", name, strings.Join(q, ",\n"))
}
func (o *nsOut) section(s string) { fmt.Fprintf(&o.b, "\n/-! ## %s -/\n", s) }

// ---- the walkers -----------------------------------------------------------------------

func nsReap(o *nsOut, f *ast.File) {
	o.section("serf.go reap / handleReap")
	fd := nsFn(f, "Serf", "reap")
	body := fd.Body.List
	fi := nsMust("reap: for loop", nsIndex("reap: for loop", body, func(s ast.Stmt) bool { _, ok := s.(*ast.ForStmt); return ok }))
	loop := body[fi].(*ast.ForStmt)
	ini, ok := loop.Init.(*ast.AssignStmt)
	if !ok || ini.Tok != token.DEFINE || len(ini.Lhs) != 1 {
		nsFail("reap: loop init is not `i := …`")
	}
	iv := nsFlat(ini.Lhs[0])
	o.str("reapInit", "statements of `reap` before its loop", strings.Join(nsStmts(body[:fi]), "; "))
	o.str("reapForInit", "loop init", nsStmt(loop.Init))
	o.str("reapCond", "loop condition", nsFlat(loop.Cond))
	o.str("reapPost", "loop post statement", nsStmtOpt(loop.Post))
	o.list("reapAfterLoop", "statements after the loop", nsStmts(body[fi+1:]))

	lb := loop.Body.List
	gi := nsMust("reap: `if … { continue }`", nsIndex("reap: `if … { continue }`", lb, func(s ast.Stmt) bool {
		x, ok := s.(*ast.IfStmt)
		if !ok || x.Init != nil || x.Else != nil {
			return false
		}
		b := nsStmts(x.Body.List)
		return len(b) == 1 && b[0] == "continue"
	}))
	guard, ok := lb[gi].(*ast.IfStmt).Cond.(*ast.BinaryExpr)
	if !ok {
		nsFail("reap: keep guard is not a comparison")
	}
	o.str("reapKeepGuard", "condition of the `continue` (keep) branch", nsFlat(guard))
	o.boolean("reapKeepsAtEquality", "the keep guard's operator is `<=`: an entry exactly at its timeout is kept", guard.Op == token.LEQ)
	o.list("reapPreGuardStmts", "loop body before the keep guard", nsStmts(lb[:gi]))
	del := nsKeep(lb[gi+1:])
	o.list("reapDeleteStmts", "loop body after the keep guard (the delete branch)", nsStmts(del))

	shrink := nsFirst(del, func(s ast.Stmt) bool { // old = old[:…]
		a, ok := s.(*ast.AssignStmt)
		if !ok || a.Tok != token.ASSIGN || len(a.Lhs) != 1 || len(a.Rhs) != 1 {
			return false
		}
		sl, ok := a.Rhs[0].(*ast.SliceExpr)
		return ok && sl.Low == nil && sl.High != nil && nsFlat(sl.X) == nsFlat(a.Lhs[0])
	})
	dec := nsFirst(del, func(s ast.Stmt) bool {
		d, ok := s.(*ast.IncDecStmt)
		return ok && d.Tok == token.DEC && nsFlat(d.X) == iv
	})
	o.boolean("reapRechecksSlot", "`"+iv+"--` follows the shrink `old = old[:…]` in the delete branch: the element swapped into the freed slot is examined too", shrink >= 0 && dec > shrink)

	override := false
	for _, s := range lb[:gi] {
		x, ok := s.(*ast.IfStmt)
		if !ok || !strings.HasSuffix(nsFlat(x.Cond), ".ReconnectTimeoutOverride != nil") || len(x.Body.List) != 1 {
			continue
		}
		a, ok := x.Body.List[0].(*ast.AssignStmt)
		if ok && a.Tok == token.ASSIGN && len(a.Lhs) == 1 && len(a.Rhs) == 1 && nsFlat(a.Lhs[0]) == nsFlat(guard.Y) {
			if c, ok := a.Rhs[0].(*ast.CallExpr); ok && strings.HasSuffix(nsFlat(c.Fun), ".ReconnectTimeoutOverride.ReconnectTimeout") &&
				len(c.Args) == 2 && nsFlat(c.Args[1]) == nsFlat(guard.Y) {
				override = true
			}
		}
	}
	o.boolean("reapOverrideApplied", "the `ReconnectTimeoutOverride != nil` block assigns the guard's right operand from `…ReconnectTimeout(&m.Member, <it>)`", override)

	hr := nsFn(f, "Serf", "handleReap")
	var calls []string
	ast.Inspect(hr.Body, func(n ast.Node) bool {
		switch n.(type) {
		case *ast.AssignStmt, *ast.ExprStmt:
			if nsCalls(n, "reap") || nsCalls(n, "reapIntents") {
				calls = append(calls, nsStmt(n.(ast.Stmt)))
				return false
			}
		}
		return true
	})
	if len(calls) == 0 {
		nsFail("handleReap: no reap call")
	}
	o.list("reapCalls", "the reaping statements of `handleReap`, in order", calls)
}

func nsLeaveIntent(o *nsOut, f *ast.File) {
	o.section("serf.go handleNodeLeaveIntent / handlePrune")
	fd := nsFn(f, "Serf", "handleNodeLeaveIntent")
	if len(fd.Type.Params.List) != 1 || len(fd.Type.Params.List[0].Names) != 1 {
		nsFail("handleNodeLeaveIntent: unexpected parameters")
	}
	p := fd.Type.Params.List[0].Names[0].Name
	top := nsKeep(fd.Body.List)
	is := func(text string) func(ast.Stmt) bool { return func(s ast.Stmt) bool { return nsStmt(s) == text } }

	st := nsMust("handleNodeLeaveIntent: state := s.State()", nsIndex("state", top, is("state := s.State()")))
	stale := nsMust("handleNodeLeaveIntent: `if … { return false }`", nsFirst(top, nsReturnsFalseIf))
	refute := nsMust("handleNodeLeaveIntent: refutation branch", nsIndex("refute", top, func(s ast.Stmt) bool {
		x, ok := s.(*ast.IfStmt)
		return ok && nsFirst(x.Body.List, func(t ast.Stmt) bool { _, ok := t.(*ast.GoStmt); return ok }) >= 0
	}))
	rb := top[refute].(*ast.IfStmt)
	sw := nsMust("handleNodeLeaveIntent: switch", nsIndex("switch", top, nsIsSwitch))
	set := nsIndex("statusLTime assignment", top, is("member.statusLTime = "+p+".LTime"))

	o.str("leaveStaleGuard", "guard of the first top-level `if … { return false }`", nsFlat(top[stale].(*ast.IfStmt).Cond))
	o.str("leaveRefuteGuard", "guard of the branch that starts a goroutine", nsFlat(rb.Cond))
	o.str("leaveRefuteCall", "the `go` statement of that branch", nsStmt(rb.Body.List[nsFirst(rb.Body.List, func(t ast.Stmt) bool { _, ok := t.(*ast.GoStmt); return ok })]))
	o.list("leaveRefuteStmts", "the whole refutation branch", nsStmts(rb.Body.List))
	o.boolean("leaveWitnessFirst", "the statement right after `state := s.State()` is `s.clock.Witness("+p+".LTime)`",
		st == 0 && len(top) > 1 && nsStmt(top[1]) == "s.clock.Witness("+p+".LTime)")
	o.boolean("leaveSetsTimeBeforeSwitch", "`member.statusLTime = "+p+".LTime` is a top-level statement before the `switch`", set >= 0 && set < sw)
	o.boolean("leaveGuardsBeforeSetTime", "stale guard, then refutation, then the statusLTime assignment", set >= 0 && stale < refute && refute < set)

	swst := top[sw].(*ast.SwitchStmt)
	skel := []string{}
	for i, s := range top {
		if i == sw {
			skel = append(skel, "switch "+nsFlat(swst.Tag))
		} else {
			skel = append(skel, nsStmt(s))
		}
	}
	o.list("leaveSkeleton", "top-level statements (the switch abbreviated to its tag)", skel)
	c := nsCases("handleNodeLeaveIntent", swst, "StatusAlive", "StatusFailed", "StatusLeaving, StatusLeft", "default")
	o.list("leaveCaseAlive", "case StatusAlive", c["StatusAlive"])
	o.list("leaveCaseFailed", "case StatusFailed", c["StatusFailed"])
	// in the failed case: failed-list removal and left-list append both precede the prune
	at := func(l []string, pre string) int {
		for i, s := range l {
			if strings.HasPrefix(s, pre) {
				return i
			}
		}
		return -1
	}
	fc := c["StatusFailed"]
	rm, ap, pr := at(fc, "s.failedMembers = removeOldMember(s.failedMembers, "), at(fc, "s.leftMembers = append(s.leftMembers, "), at(fc, "if "+p+".Prune { s.handlePrune(")
	o.boolean("leavePruneAfterListUpdate", "case StatusFailed: `s.failedMembers = removeOldMember(s.failedMembers, …)` and `s.leftMembers = append(s.leftMembers, …)` both precede `if "+p+".Prune { s.handlePrune(…`",
		rm >= 0 && ap >= 0 && pr > rm && pr > ap)
	o.list("leaveCaseLeavingLeft", "case StatusLeaving, StatusLeft", c["StatusLeaving, StatusLeft"])
	o.list("leaveCaseDefault", "default", c["default"])

	o.list("handlePruneStmts", "body of `handlePrune`", nsStmts(nsFn(f, "Serf", "handlePrune").Body.List))
}

func nsJoinLeave(o *nsOut, f *ast.File) {
	o.section("serf.go handleNodeJoin / handleNodeLeave / removeOldMember / upsertIntent / handleNodeJoinIntent")
	fd := nsFn(f, "Serf", "handleNodeJoin")
	top := nsKeep(fd.Body.List)
	br := nsMust("handleNodeJoin: `if !ok { … } else { … }`", nsIndex("!ok", top, func(s ast.Stmt) bool {
		x, ok := s.(*ast.IfStmt)
		return ok && nsFlat(x.Cond) == "!ok"
	}))
	ifok := top[br].(*ast.IfStmt)
	els, ok := ifok.Else.(*ast.BlockStmt)
	if !ok {
		nsFail("handleNodeJoin: `if !ok` has no plain else block")
	}
	var lookups []string
	for _, s := range nsKeep(ifok.Body.List) {
		if x, ok := s.(*ast.IfStmt); ok && x.Init != nil && nsCalls(x.Init, "recentIntent") {
			lookups = append(lookups, nsStmt(x))
		}
	}
	cl := nsMust("handleNodeJoin: list clean-up", nsIndex("clean-up", top, func(s ast.Stmt) bool { return nsCalls(s, "removeOldMember") }))
	if cl < br {
		nsFail("handleNodeJoin: list clean-up precedes the `if !ok` branch")
	}
	switch x := top[cl].(type) {
	case *ast.IfStmt:
		if x.Init != nil || x.Else != nil {
			nsFail("handleNodeJoin: clean-up `if` has init/else")
		}
		o.str("joinCleanupGuard", "guard of the statement that calls removeOldMember", nsFlat(x.Cond))
		o.list("joinCleanupStmts", "its statements", nsStmts(x.Body.List))
	case *ast.SwitchStmt:
		o.str("joinCleanupGuard", "guard of the statement that calls removeOldMember", "switch "+nsFlat(x.Tag))
		o.list("joinCleanupStmts", "its clauses", nsClauses(x))
	default:
		nsFail("handleNodeJoin: clean-up is neither `if` nor `switch`")
	}
	o.list("joinIntentLookups", "the recentIntent look-ups for a member seen for the first time", lookups)
	o.list("joinKnownStmts", "the else branch (member already known)", nsStmts(els.List))

	fd = nsFn(f, "Serf", "handleNodeLeave")
	top = nsKeep(fd.Body.List)
	sw := nsMust("handleNodeLeave: switch", nsIndex("switch", top, nsIsSwitch))
	c := nsCases("handleNodeLeave", top[sw].(*ast.SwitchStmt), "StatusLeaving", "StatusAlive", "default")
	o.str("nodeLeaveSwitchTag", "handleNodeLeave switches on", nsFlat(top[sw].(*ast.SwitchStmt).Tag))
	o.list("nodeLeaveCaseLeaving", "handleNodeLeave, case StatusLeaving", c["StatusLeaving"])
	o.list("nodeLeaveCaseAlive", "handleNodeLeave, case StatusAlive", c["StatusAlive"])
	o.list("nodeLeaveCaseDefault", "handleNodeLeave, default", c["default"])

	o.list("removeOldMemberStmts", "body of `removeOldMember`", nsStmts(nsFn(f, "", "removeOldMember").Body.List))

	fd = nsFn(f, "", "upsertIntent")
	top = nsKeep(fd.Body.List)
	g, ok := top[0].(*ast.IfStmt)
	if !ok || g.Else != nil {
		nsFail("upsertIntent: does not start with an else-less `if`")
	}
	gs := nsFlat(g.Cond)
	if g.Init != nil {
		gs = nsStmt(g.Init) + "; " + gs
	}
	o.str("upsertIntentGuard", "init and condition of the leading `if` of `upsertIntent`", gs)
	o.list("upsertIntentThen", "its body", nsStmts(g.Body.List))
	o.list("upsertIntentRest", "statements after it", nsStmts(top[1:]))

	fd = nsFn(f, "Serf", "handleNodeJoinIntent")
	top = nsKeep(fd.Body.List)
	stale := nsMust("handleNodeJoinIntent: `if … { return false }`", nsFirst(top, nsReturnsFalseIf))
	o.str("joinIntentStaleGuard", "guard of the first top-level `if … { return false }` of handleNodeJoinIntent", nsFlat(top[stale].(*ast.IfStmt).Cond))
	o.list("joinIntentStmts", "top-level statements of handleNodeJoinIntent", nsStmts(top))
}

func nsDelegate(o *nsOut, f *ast.File) {
	o.section("delegate.go LocalState / MergeRemoteState / NotifyMsg")
	fd := nsFn(f, "delegate", "LocalState")
	r := nsRange(fd, "d.serf.members")
	o.list("localStateStatusLoop", "LocalState: loop over the member map (header, body)", nsLoop(r))
	o.boolean("localStateStatusLoopUnconditional", "its body is a single assignment: every member is reported", nsSingleAssign(r))
	r = nsRange(fd, "d.serf.leftMembers")
	o.list("localStateLeftLoop", "LocalState: loop over the left list (header, body)", nsLoop(r))
	o.boolean("localStateLeftLoopUnconditional", "its body is a single assignment: every left entry is reported", nsSingleAssign(r))

	fd = nsFn(f, "delegate", "MergeRemoteState")
	left, join := nsRange(fd, "pp.LeftMembers"), nsRange(fd, "pp.StatusLTimes")
	ti := nsMust("MergeRemoteState: leave time assignment", nsIndex("leave time", left.Body.List, func(s ast.Stmt) bool {
		a, ok := s.(*ast.AssignStmt)
		return ok && len(a.Lhs) == 1 && len(a.Rhs) == 1 && strings.HasSuffix(nsFlat(a.Lhs[0]), ".LTime")
	}))
	te := left.Body.List[ti].(*ast.AssignStmt).Rhs[0]
	off := 0
	switch x := te.(type) {
	case *ast.BinaryExpr:
		k, ok := intLit(x.Y)
		if x.Op != token.ADD || !ok {
			nsFail("MergeRemoteState: leave time %s is not `<expr> + <int literal>`", nsFlat(te))
		}
		off = k
	case *ast.IndexExpr, *ast.Ident, *ast.SelectorExpr:
	default:
		nsFail("MergeRemoteState: leave time %s has an unsupported shape", nsFlat(te))
	}
	o.str("mergeLeaveTimeExpr", "Lamport time given to the artificial leave message", nsFlat(te))
	o.nat("mergeLeaveOffset", "the integer literal added to the status time (0 if none)", off)
	o.list("mergeLeftLoopStmts", "loop over pp.LeftMembers (header, body)", nsLoop(left))
	o.list("mergeJoinLoopStmts", "loop over pp.StatusLTimes (header, body)", nsLoop(join))
	o.boolean("mergeLeftsBeforeJoins", "the left loop precedes the status loop", left.Pos() < join.Pos())
	discarded := func(r *ast.RangeStmt, h string) bool {
		i := nsMust("MergeRemoteState: call of "+h, nsIndex(h, r.Body.List, func(s ast.Stmt) bool { return nsCalls(s, h) }))
		e, ok := r.Body.List[i].(*ast.ExprStmt)
		if !ok {
			return false
		}
		c, ok := e.X.(*ast.CallExpr)
		return ok && strings.HasSuffix(nsFlat(c.Fun), "."+h)
	}
	o.boolean("mergeIgnoresResults", "both handler calls are expression statements (results discarded)",
		discarded(left, "handleNodeLeaveIntent") && discarded(join, "handleNodeJoinIntent"))
	var wit []string
	witFirst := true
	for _, s := range fd.Body.List {
		if nsCalls(s, "Witness") {
			wit = append(wit, nsStmt(s))
			witFirst = witFirst && s.End() < left.Pos()
		}
	}
	o.list("mergeWitnessStmts", "top-level statements that witness a clock", wit)
	o.boolean("mergeWitnessBeforeLoops", "all of them precede the left loop", witFirst && len(wit) > 0)

	fd = nsFn(f, "delegate", "NotifyMsg")
	top := fd.Body.List
	gi := nsMust("NotifyMsg: rebroadcast branch", nsIndex("rebroadcast", top, func(s ast.Stmt) bool {
		_, ok := s.(*ast.IfStmt)
		return ok && nsCalls(s, "QueueBroadcast")
	}))
	guard := nsFlat(top[gi].(*ast.IfStmt).Cond)
	si := nsMust("NotifyMsg: switch", nsIndex("switch", top, nsIsSwitch))
	if si > gi {
		nsFail("NotifyMsg: rebroadcast branch precedes the switch")
	}
	handler := func(label, h string) (string, bool) {
		for _, c := range top[si].(*ast.SwitchStmt).Body.List {
			cc := c.(*ast.CaseClause)
			if nsCaseLabel(cc) != label {
				continue
			}
			i := nsMust("NotifyMsg: call of "+h, nsIndex(h, cc.Body, func(s ast.Stmt) bool { return nsCalls(s, h) }))
			a, ok := cc.Body[i].(*ast.AssignStmt)
			return nsStmt(cc.Body[i]), ok && a.Tok == token.ASSIGN && len(a.Lhs) == 1 && nsFlat(a.Lhs[0]) == guard
		}
		nsFail("NotifyMsg: no case %s", label)
		return "", false
	}
	ls, lok := handler("messageLeaveType", "handleNodeLeaveIntent")
	js, jok := handler("messageJoinType", "handleNodeJoinIntent")
	ini := nsFirst(top, func(s ast.Stmt) bool {
		a, ok := s.(*ast.AssignStmt)
		return ok && a.Tok == token.DEFINE && len(a.Lhs) == 1 && nsFlat(a.Lhs[0]) == guard
	})
	o.str("notifyRebroadcastGuard", "condition of the branch that re-queues the received message", guard)
	o.str("notifyRebroadcastInit", "where that variable is defined", nsStmtOpt(func() ast.Stmt {
		if ini < 0 {
			return nil
		}
		return top[ini]
	}()))
	o.str("notifyLeaveHandler", "case messageLeaveType: the handler statement", ls)
	o.str("notifyJoinHandler", "case messageJoinType: the handler statement", js)
	o.boolean("notifyHandlersAssignGuard", "both are assignments to the guard variable", lok && jok)
}

func genNodeShapes(repo string) (src string, err error) {
	defer func() {
		if r := recover(); r != nil {
			e, ok := r.(nsErr)
			if !ok {
				panic(r)
			}
			src, err = "", fmt.Errorf("NodeShapes: %s", e.msg)
		}
	}()
	_, sf, err := parseFile(repo + "/serf/serf.go")
	if err != nil {
		return "", err
	}
	_, df, err := parseFile(repo + "/serf/delegate.go")
	if err != nil {
		return "", err
	}
	o := &nsOut{}
	o.b.WriteString("-- GENERATED by /verif/extract (nodeshapes.go) from serf/serf.go and serf/delegate.go — do not edit.\n")
	o.b.WriteString("-- Statements are printed canonically on one line; s.logger.Printf / metrics.* statements are dropped.\n")
	o.b.WriteString("namespace SerfModel.Gen.NodeShapes\n")
	nsReap(o, sf)
	nsLeaveIntent(o, sf)
	nsJoinLeave(o, sf)
	nsDelegate(o, df)
	o.b.WriteString("\nend SerfModel.Gen.NodeShapes\n")
	return o.b.String(), nil
}

func init() { addGen("NodeShapes", genNodeShapes) }
