package main

import (
	"fmt"
	"go/ast"
	"go/token"
	"sort"
	"strconv"
	"strings"
)

// IPC gate (C24): the decisive shapes of cmd/serf/command/agent/ipc.go
//   - handleRequest: the two gate conditions, what each gate replies and whether it closes the
//     connection (returns a non-nil error), their order before the dispatch switch, and the
//     dispatch table (command constant -> handler);
//   - every handler: does it decode a request body, does it send a response body;
//   - handleHandshake: the if / else-if chain (condition -> what happens), i.e. the version range
//     check comes before anything assigns client.version and the assignment sits in the final else;
//   - handleAuth: the comparison that sets client.didAuth;
//   - MinIPCVersion / MaxIPCVersion; the command and error string constants;
//   - how often client.version / client.didAuth are written in the whole file.

func ipcConsts(f *ast.File) map[string]string {
	out := map[string]string{}
	for _, d := range f.Decls {
		gd, ok := d.(*ast.GenDecl)
		if !ok || gd.Tok != token.CONST {
			continue
		}
		for _, sp := range gd.Specs {
			vs := sp.(*ast.ValueSpec)
			for i, n := range vs.Names {
				if i < len(vs.Values) {
					if bl, ok := vs.Values[i].(*ast.BasicLit); ok {
						if bl.Kind == token.STRING {
							if s, err := strconv.Unquote(bl.Value); err == nil {
								out[n.Name] = s
							}
						} else if bl.Kind == token.INT {
							out[n.Name] = bl.Value
						}
					}
				}
			}
		}
	}
	return out
}

// All expression text is normalised first (normalise.go): roles instead of identifier names,
// constants replaced by their values, operands ordered — so renaming a local, the receiver or a
// parameter, hoisting a literal into a constant, flipping a comparison or reordering a
// conjunction leaves the generated facts unchanged.

var ipcParamRoles = map[string]string{"IPCClient": "$client", "requestHeader": "$hdr", "string": "$command", "uint64": "$seq"}
var ipcLocalTypes = map[string]string{"responseHeader": "$resp", "handshakeRequest": "$req", "authRequest": "$req"}
var ipcLocalDefs = map[string]string{"$hdr.Command": "$command", "$hdr.Seq": "$seq"}

func ipcEnv(f *ast.File, fd *ast.FuncDecl) *nenv {
	env := newEnv(constLiterals(f, fd)).withHelpers(f)
	env.bindSignature(fd, "$ipc", ipcParamRoles)
	env.bindLocals(fd.Body, ipcLocalTypes, ipcLocalDefs)
	return env
}

func unq(s string) string {
	if u, err := strconv.Unquote(s); err == nil {
		return u
	}
	return s
}

// branchAction summarises a branch: `$resp.Error = X` -> "error:<text of X>", `a = b` -> "assign:a=b".
// A trailing `return $client.Send(&$resp, nil)` is reported separately.
func branchAction(env *nenv, list []ast.Stmt) (string, bool) {
	var parts []string
	returnsSend := false
	for i, st := range list {
		if as, ok := st.(*ast.AssignStmt); ok && len(as.Lhs) == 1 && len(as.Rhs) == 1 && as.Tok == token.ASSIGN {
			l, r := env.expr(as.Lhs[0]), env.expr(as.Rhs[0])
			if l == "$resp.Error" {
				parts = append(parts, "error:"+unq(r))
			} else {
				parts = append(parts, "assign:"+l+"="+r)
			}
			continue
		}
		if r, ok := st.(*ast.ReturnStmt); ok && i == len(list)-1 && len(r.Results) == 1 && env.expr(r.Results[0]) == "$client.Send(&$resp, nil)" {
			returnsSend = true
			continue
		}
		parts = append(parts, "stmt:"+fmt.Sprintf("%T", st))
	}
	return strings.Join(parts, ";"), returnsSend
}

// decisionChain normalises the decision part of handleHandshake / handleAuth into
// (condition, action) pairs ending with ("else", action).  Accepted spellings:
//
//	if c1 {a1} else if c2 {a2} else {a3}; return Send        (non-returning branches)
//	if c1 {a1; return Send}; if c2 {a2; return Send}; a3; return Send    (early returns)
//
// and a two-way decision written with the negated condition is turned round.  Anything else —
// in particular a statement between the checks — is reported with a "seq:" marker and matches
// no canonical chain.
func decisionChain(env *nenv, fd *ast.FuncDecl) ([][2]string, error) {
	var chain [][2]string
	var stmts []ast.Stmt
	for _, st := range fd.Body.List {
		switch s := st.(type) {
		case *ast.DeclStmt:
			continue
		case *ast.IfStmt:
			if s.Init != nil && s.Else == nil {
				continue // `if err := $client.dec.Decode(&$req); err != nil { return … }`
			}
		case *ast.AssignStmt:
			if s.Tok == token.DEFINE && len(s.Lhs) == 1 && env.expr(s.Lhs[0]) == "$resp" {
				continue // resp := responseHeader{…}
			}
		}
		stmts = append(stmts, st)
	}
	if len(stmts) == 0 {
		return nil, fmt.Errorf("%s: no decision", fd.Name.Name)
	}
	last, ok := stmts[len(stmts)-1].(*ast.ReturnStmt)
	if !ok || len(last.Results) != 1 || env.expr(last.Results[0]) != "$client.Send(&$resp, nil)" {
		return nil, fmt.Errorf("%s: does not end with `return client.Send(&resp, nil)`", fd.Name.Name)
	}
	stmts = stmts[:len(stmts)-1]
	// spelling 1: one if/else-if/else chain
	if len(stmts) == 1 {
		if is, ok := stmts[0].(*ast.IfStmt); ok && is.Init == nil && is.Else != nil {
			for {
				a, ret := branchAction(env, is.Body.List)
				if ret {
					a += ";return"
				}
				chain = append(chain, [2]string{env.expr(is.Cond), a})
				if e, ok := is.Else.(*ast.IfStmt); ok && e.Init == nil {
					is = e
					continue
				}
				if b, ok := is.Else.(*ast.BlockStmt); ok {
					a, ret := branchAction(env, b.List)
					if ret {
						a += ";return"
					}
					chain = append(chain, [2]string{"else", a})
				} else if is.Else != nil {
					chain = append(chain, [2]string{"else", "unsupported"})
				} else {
					chain = append(chain, [2]string{"else", ""})
				}
				break
			}
			return turnRound(chain), nil
		}
	}
	// spelling 2: early returns, then the remaining actions
	i := 0
	for ; i < len(stmts); i++ {
		is, ok := stmts[i].(*ast.IfStmt)
		if !ok || is.Init != nil || is.Else != nil {
			break
		}
		a, ret := branchAction(env, is.Body.List)
		if !ret {
			break
		}
		chain = append(chain, [2]string{env.expr(is.Cond), a})
	}
	rest, ret := branchAction(env, stmts[i:])
	hasIf := false
	for _, st := range stmts[i:] {
		if _, ok := st.(*ast.IfStmt); ok {
			hasIf = true
		}
	}
	if ret || hasIf {
		// an unconditional statement between the checks, or a non-returning check after one: spell it out
		var seq [][2]string
		for _, c := range chain {
			seq = append(seq, [2]string{"seq:if " + c[0], c[1] + ";return"})
		}
		for _, st := range stmts[i:] {
			if is, ok := st.(*ast.IfStmt); ok && is.Init == nil {
				a, r := branchAction(env, is.Body.List)
				if r {
					a += ";return"
				}
				seq = append(seq, [2]string{"seq:if " + env.expr(is.Cond), a})
				if is.Else != nil {
					seq = append(seq, [2]string{"seq:else", "…"})
				}
				continue
			}
			a, _ := branchAction(env, []ast.Stmt{st})
			seq = append(seq, [2]string{"seq:do", a})
		}
		return seq, nil
	}
	chain = append(chain, [2]string{"else", rest})
	return turnRound(chain), nil
}

// turnRound: `if a != b {X} else {Y}` and `if !c {X} else {Y}` are reported as the positive test.
func turnRound(chain [][2]string) [][2]string {
	if len(chain) != 2 || chain[1][0] != "else" {
		return chain
	}
	c := chain[0][0]
	if strings.ContainsAny(c, "&|") {
		return chain
	}
	switch {
	case strings.HasPrefix(c, "!"):
		return [][2]string{{c[1:], chain[1][1]}, {"else", chain[0][1]}}
	case strings.Contains(c, " != "):
		return [][2]string{{strings.Replace(c, " != ", " == ", 1), chain[1][1]}, {"else", chain[0][1]}}
	}
	return chain
}

type gateFacts struct {
	cond, errText string
	closes        bool
}

// gateOf reads `if cond { <build a responseHeader with Error X>; $client.Send(…, nil); return <e> }`.
func gateOf(env *nenv, is *ast.IfStmt) (gateFacts, error) {
	g := gateFacts{cond: env.expr(is.Cond)}
	if is.Init != nil || is.Else != nil {
		return g, fmt.Errorf("gate with init/else")
	}
	sent := false
	ast.Inspect(is.Body, func(n ast.Node) bool {
		if cl, ok := n.(*ast.CompositeLit); ok && typeName(cl.Type) == "responseHeader" {
			for _, el := range cl.Elts {
				if kv, ok := el.(*ast.KeyValueExpr); ok && exprString(kv.Key) == "Error" {
					g.errText = unq(env.expr(kv.Value))
				}
			}
		}
		return true
	})
	for _, st := range is.Body.List {
		switch s := st.(type) {
		case *ast.AssignStmt, *ast.DeclStmt:
		case *ast.ExprStmt:
			c, ok := s.X.(*ast.CallExpr)
			if !ok {
				return g, fmt.Errorf("gate: unexpected statement")
			}
			fn := env.expr(c.Fun)
			if fn == "$client.Send" {
				if len(c.Args) != 2 || env.expr(c.Args[1]) != "nil" {
					return g, fmt.Errorf("gate reply carries a body")
				}
				sent = true
			} else if !strings.HasPrefix(fn, "$ipc.logger.") {
				return g, fmt.Errorf("gate: unexpected call %s", fn)
			}
		case *ast.ReturnStmt:
			if len(s.Results) != 1 {
				return g, fmt.Errorf("gate: return shape")
			}
			g.closes = env.expr(s.Results[0]) != "nil"
		default:
			return g, fmt.Errorf("gate: unexpected statement %T", st)
		}
	}
	if !sent || g.errText == "" {
		return g, fmt.Errorf("gate without error reply")
	}
	return g, nil
}

func genIpcGate(repo string) (string, error) {
	_, f, err := parseFile(repo + "/cmd/serf/command/agent/ipc.go")
	if err != nil {
		return "", err
	}
	consts := constLiterals(f, nil)
	q := func(s string) string { return strconv.Quote(s) }

	// ---- handleRequest
	hr := findFunc(f, "AgentIPC", "handleRequest")
	if hr == nil {
		return "", fmt.Errorf("handleRequest not found")
	}
	henv := ipcEnv(f, hr)
	var gates []gateFacts
	var sw *ast.SwitchStmt
	for _, st := range hr.Body.List {
		switch s := st.(type) {
		case *ast.IfStmt:
			if sw != nil {
				return "", fmt.Errorf("handleRequest: if after the dispatch switch")
			}
			g, err := gateOf(henv, s)
			if err != nil {
				return "", err
			}
			gates = append(gates, g)
		case *ast.SwitchStmt:
			if sw != nil {
				return "", fmt.Errorf("handleRequest: more than one switch")
			}
			sw = s
		}
	}
	if len(gates) != 2 || sw == nil || henv.expr(sw.Tag) != "$command" {
		return "", fmt.Errorf("handleRequest: expected two gates and a switch on the command (got %d gates)", len(gates))
	}
	type disp struct {
		cmd, handler string
	}
	var table []disp
	defaultErr, defaultCloses := "", false
	for _, cc := range sw.Body.List {
		c := cc.(*ast.CaseClause)
		if c.List == nil {
			ast.Inspect(c, func(n ast.Node) bool {
				if cl, ok := n.(*ast.CompositeLit); ok && typeName(cl.Type) == "responseHeader" {
					for _, el := range cl.Elts {
						if kv, ok := el.(*ast.KeyValueExpr); ok && exprString(kv.Key) == "Error" {
							defaultErr = unq(henv.expr(kv.Value))
						}
					}
				}
				return true
			})
			for _, st := range c.Body {
				if r, ok := st.(*ast.ReturnStmt); ok && len(r.Results) == 1 {
					defaultCloses = henv.expr(r.Results[0]) != "nil"
				}
			}
			continue
		}
		if len(c.Body) != 1 {
			return "", fmt.Errorf("dispatch case with %d statements", len(c.Body))
		}
		r, ok := c.Body[0].(*ast.ReturnStmt)
		if !ok || len(r.Results) != 1 {
			return "", fmt.Errorf("dispatch case is not `return i.handleX(...)`")
		}
		call, ok := r.Results[0].(*ast.CallExpr)
		if !ok {
			return "", fmt.Errorf("dispatch case does not call a handler")
		}
		sel, ok := call.Fun.(*ast.SelectorExpr)
		if !ok {
			return "", fmt.Errorf("dispatch callee shape")
		}
		for _, e := range c.List {
			v := henv.expr(e)
			if !isLitText(v) {
				return "", fmt.Errorf("dispatch on a non-constant %s", v)
			}
			table = append(table, disp{unq(v), sel.Sel.Name})
		}
	}

	// ---- handlers: body decoded? response body sent?
	type hinfo struct{ decodes, data bool }
	handlers := map[string]hinfo{}
	writes := map[string]int{}
	for _, d := range f.Decls {
		fd, ok := d.(*ast.FuncDecl)
		if !ok || fd.Body == nil {
			continue
		}
		env := ipcEnv(f, fd)
		var hi hinfo
		ast.Inspect(fd.Body, func(n ast.Node) bool {
			switch s := n.(type) {
			case *ast.CallExpr:
				switch env.expr(s.Fun) {
				case "$client.dec.Decode":
					hi.decodes = true
				case "$client.Send":
					if len(s.Args) == 2 && env.expr(s.Args[1]) != "nil" {
						hi.data = true
					}
				}
			case *ast.AssignStmt:
				for _, l := range s.Lhs {
					if sel, ok := l.(*ast.SelectorExpr); ok && (sel.Sel.Name == "version" || sel.Sel.Name == "didAuth") {
						writes[sel.Sel.Name]++
					}
				}
			case *ast.IncDecStmt:
				if sel, ok := s.X.(*ast.SelectorExpr); ok && (sel.Sel.Name == "version" || sel.Sel.Name == "didAuth") {
					writes[sel.Sel.Name]++
				}
			case *ast.UnaryExpr:
				if sel, ok := s.X.(*ast.SelectorExpr); ok && s.Op == token.AND && (sel.Sel.Name == "version" || sel.Sel.Name == "didAuth") {
					writes[sel.Sel.Name] += 100 // address taken
				}
			}
			return true
		})
		if strings.HasPrefix(fd.Name.Name, "handle") {
			handlers[fd.Name.Name] = hi
		}
	}
	sort.SliceStable(table, func(a, b int) bool { return table[a].cmd < table[b].cmd })
	membersFiltered := unq(consts["membersFilteredCommand"])
	var rows []string
	membersHandler := ""
	for _, t := range table {
		hi, ok := handlers[t.handler]
		if !ok {
			return "", fmt.Errorf("handler %s not found", t.handler)
		}
		decodes := hi.decodes
		if t.cmd == "members" || t.cmd == membersFiltered {
			membersHandler = t.handler
		}
		rows = append(rows, fmt.Sprintf("  (%s, %v, %v)", q(t.cmd), decodes, hi.data))
	}
	// one handler serves members and members-filtered: the body is decoded only under a guard on the command
	membersGuard := ""
	if hm := findFunc(f, "AgentIPC", membersHandler); hm != nil {
		env := ipcEnv(f, hm)
		ast.Inspect(hm.Body, func(n ast.Node) bool {
			if is, ok := n.(*ast.IfStmt); ok && membersGuard == "" {
				found := false
				ast.Inspect(is.Body, func(m ast.Node) bool {
					if c, ok := m.(*ast.CallExpr); ok && env.expr(c.Fun) == "$client.dec.Decode" {
						found = true
					}
					return true
				})
				if found {
					membersGuard = env.expr(is.Cond)
				}
			}
			return true
		})
	}
	for i, t := range table {
		if t.cmd == "members" && membersGuard != "" {
			rows[i] = fmt.Sprintf("  (%s, %v, %v)", q(t.cmd), false, handlers[t.handler].data)
		}
	}

	// ---- handleHandshake / handleAuth decisions (the handlers the switch dispatches these commands to)
	handlerOf := func(cmd string) *ast.FuncDecl {
		for _, t := range table {
			if t.cmd == cmd {
				return findFunc(f, "AgentIPC", t.handler)
			}
		}
		return nil
	}
	hsCmd, auCmd := unq(consts["handshakeCommand"]), unq(consts["authCommand"])
	hsFd, auFd := handlerOf(hsCmd), handlerOf(auCmd)
	if hsFd == nil || auFd == nil {
		return "", fmt.Errorf("handshake / auth handler not found")
	}
	hsChain, err := decisionChain(ipcEnv(f, hsFd), hsFd)
	if err != nil {
		return "", err
	}
	auChain, err := decisionChain(ipcEnv(f, auFd), auFd)
	if err != nil {
		return "", err
	}
	chainLean := func(ch [][2]string) string {
		var xs []string
		for _, c := range ch {
			xs = append(xs, fmt.Sprintf("(%s, %s)", q(c[0]), q(c[1])))
		}
		return "[" + strings.Join(xs, ", ") + "]"
	}

	var b strings.Builder
	b.WriteString("-- GENERATED by /verif/extract from cmd/serf/command/agent/ipc.go — do not edit.\n")
	b.WriteString("-- Expression text is normalised: roles ($ipc $client $hdr $command $seq $req $resp) for names, constants by value, operands ordered.\n")
	b.WriteString("namespace SerfModel.Gen.IpcGate\n\n")
	fmt.Fprintf(&b, "def minIPCVersion : Int := %s\ndef maxIPCVersion : Int := %s\n\n", consts["MinIPCVersion"], consts["MaxIPCVersion"])
	fmt.Fprintf(&b, "/-- first gate of handleRequest: condition, error string replied, connection closed afterwards -/\ndef handshakeGate : String × String × Bool := (%s, %s, %v)\n", q(gates[0].cond), q(gates[0].errText), gates[0].closes)
	fmt.Fprintf(&b, "/-- second gate -/\ndef authGate : String × String × Bool := (%s, %s, %v)\n\n", q(gates[1].cond), q(gates[1].errText), gates[1].closes)
	fmt.Fprintf(&b, "/-- `default:` of the dispatch switch: error string, connection closed -/\ndef unknownCommand : String × Bool := (%s, %v)\n\n", q(defaultErr), defaultCloses)
	fmt.Fprintf(&b, "def handshakeCommand : String := %s\ndef authCommand : String := %s\n\n", q(hsCmd), q(auCmd))
	b.WriteString("/-- dispatch switch: (command string, handler decodes a request body, handler sends a response body) -/\n")
	b.WriteString("def dispatch : List (String × Bool × Bool) := [\n" + strings.Join(rows, ",\n") + "\n]\n\n")
	fmt.Fprintf(&b, "/-- guard under which the members handler decodes a body -/\ndef membersBodyGuard : String := %s\n\n", q(membersGuard))
	fmt.Fprintf(&b, "/-- decisions of the handshake handler after the decode: (condition, what the branch does) -/\ndef handshakeChain : List (String × String) := %s\n", chainLean(hsChain))
	fmt.Fprintf(&b, "/-- decisions of the auth handler -/\ndef authChain : List (String × String) := %s\n\n", chainLean(auChain))
	fmt.Fprintf(&b, "/-- writes to the fields version / didAuth anywhere in ipc.go (address-of counts 100) -/\ndef versionWrites : Nat := %d\ndef didAuthWrites : Nat := %d\n\nend SerfModel.Gen.IpcGate\n",
		writes["version"], writes["didAuth"])
	return b.String(), nil
}

func init() { addGen("IpcGate", genIpcGate) }
