package main

import (
	"fmt"
	"go/ast"
	"go/token"
	"sort"
	"strconv"
	"strings"
)

// IPC gate (C24): the decisive shapes of cmd/serf/command/agent/ipc.go
//   - handleRequest: the two gate conditions, what each gate replies and whether it closes the
//     connection (returns a non-nil error), their order before the dispatch switch, and the
//     dispatch table (command constant -> handler);
//   - every handler: does it decode a request body, does it send a response body;
//   - handleHandshake: the if / else-if chain (condition -> what happens), i.e. the version range
//     check comes before anything assigns client.version and the assignment sits in the final else;
//   - handleAuth: the comparison that sets client.didAuth;
//   - MinIPCVersion / MaxIPCVersion; the command and error string constants;
//   - how often client.version / client.didAuth are written in the whole file.

func ipcConsts(f *ast.File) map[string]string {
	out := map[string]string{}
	for _, d := range f.Decls {
		gd, ok := d.(*ast.GenDecl)
		if !ok || gd.Tok != token.CONST {
			continue
		}
		for _, sp := range gd.Specs {
			vs := sp.(*ast.ValueSpec)
			for i, n := range vs.Names {
				if i < len(vs.Values) {
					if bl, ok := vs.Values[i].(*ast.BasicLit); ok {
						if bl.Kind == token.STRING {
							if s, err := strconv.Unquote(bl.Value); err == nil {
								out[n.Name] = s
							}
						} else if bl.Kind == token.INT {
							out[n.Name] = bl.Value
						}
					}
				}
			}
		}
	}
	return out
}

// branchAction summarises the body of an if branch: `resp.Error = X` -> "error:X",
// `client.f = e` -> "assign:client.f=e"; anything else is spelled out.
func branchAction(b *ast.BlockStmt) string {
	var parts []string
	for _, st := range b.List {
		if as, ok := st.(*ast.AssignStmt); ok && len(as.Lhs) == 1 && len(as.Rhs) == 1 && as.Tok == token.ASSIGN {
			l, r := exprString(as.Lhs[0]), exprString(as.Rhs[0])
			if l == "resp.Error" {
				parts = append(parts, "error:"+r)
			} else {
				parts = append(parts, "assign:"+l+"="+r)
			}
			continue
		}
		parts = append(parts, "stmt:"+fmt.Sprintf("%T", st))
	}
	return strings.Join(parts, ";")
}

// ifChain flattens if / else if / else into (condition, action) pairs; the final else has condition "else".
func ifChain(is *ast.IfStmt) [][2]string {
	var out [][2]string
	for {
		if is.Init != nil {
			out = append(out, [2]string{"<init>", "unsupported"})
		}
		out = append(out, [2]string{exprString(is.Cond), branchAction(is.Body)})
		switch e := is.Else.(type) {
		case nil:
			return out
		case *ast.IfStmt:
			is = e
		case *ast.BlockStmt:
			return append(out, [2]string{"else", branchAction(e)})
		default:
			return append(out, [2]string{"else", "unsupported"})
		}
	}
}

type gateFacts struct {
	cond, errConst string
	closes         bool
}

// gateOf reads `if cond { respHeader := responseHeader{Seq: seq, Error: X}; client.Send(&respHeader, nil); return <e> }`.
func gateOf(is *ast.IfStmt) (gateFacts, error) {
	g := gateFacts{cond: exprString(is.Cond)}
	if is.Init != nil || is.Else != nil {
		return g, fmt.Errorf("gate with init/else")
	}
	sent := false
	for _, st := range is.Body.List {
		switch s := st.(type) {
		case *ast.AssignStmt:
			if len(s.Rhs) == 1 {
				if cl, ok := s.Rhs[0].(*ast.CompositeLit); ok {
					for _, el := range cl.Elts {
						if kv, ok := el.(*ast.KeyValueExpr); ok && exprString(kv.Key) == "Error" {
							g.errConst = exprString(kv.Value)
						}
					}
				}
			}
		case *ast.ExprStmt:
			c, ok := s.X.(*ast.CallExpr)
			if !ok {
				return g, fmt.Errorf("gate: unexpected statement")
			}
			fn := exprString(c.Fun)
			if fn == "client.Send" {
				if len(c.Args) != 2 || exprString(c.Args[1]) != "nil" {
					return g, fmt.Errorf("gate reply carries a body")
				}
				sent = true
			} else if !strings.HasPrefix(fn, "i.logger.") {
				return g, fmt.Errorf("gate: unexpected call %s", fn)
			}
		case *ast.ReturnStmt:
			if len(s.Results) != 1 {
				return g, fmt.Errorf("gate: return shape")
			}
			g.closes = exprString(s.Results[0]) != "nil"
		default:
			return g, fmt.Errorf("gate: unexpected statement %T", st)
		}
	}
	if !sent || g.errConst == "" {
		return g, fmt.Errorf("gate without error reply")
	}
	return g, nil
}

func genIpcGate(repo string) (string, error) {
	_, f, err := parseFile(repo + "/cmd/serf/command/agent/ipc.go")
	if err != nil {
		return "", err
	}
	consts := ipcConsts(f)
	q := func(s string) string { return strconv.Quote(s) }

	// ---- handleRequest
	hr := findFunc(f, "AgentIPC", "handleRequest")
	if hr == nil {
		return "", fmt.Errorf("handleRequest not found")
	}
	var gates []gateFacts
	var sw *ast.SwitchStmt
	for _, st := range hr.Body.List {
		switch s := st.(type) {
		case *ast.IfStmt:
			if sw != nil {
				return "", fmt.Errorf("handleRequest: if after the dispatch switch")
			}
			g, err := gateOf(s)
			if err != nil {
				return "", err
			}
			gates = append(gates, g)
		case *ast.SwitchStmt:
			sw = s
		}
	}
	if len(gates) != 2 || sw == nil || exprString(sw.Tag) != "command" {
		return "", fmt.Errorf("handleRequest: expected two gates and a switch on command (got %d gates)", len(gates))
	}
	type disp struct {
		cmd, handler string
	}
	var table []disp
	defaultErr, defaultCloses := "", false
	for _, cc := range sw.Body.List {
		c := cc.(*ast.CaseClause)
		if c.List == nil {
			for _, st := range c.Body {
				if as, ok := st.(*ast.AssignStmt); ok && len(as.Rhs) == 1 {
					if cl, ok := as.Rhs[0].(*ast.CompositeLit); ok {
						for _, el := range cl.Elts {
							if kv, ok := el.(*ast.KeyValueExpr); ok && exprString(kv.Key) == "Error" {
								defaultErr = exprString(kv.Value)
							}
						}
					}
				}
				if r, ok := st.(*ast.ReturnStmt); ok && len(r.Results) == 1 {
					defaultCloses = exprString(r.Results[0]) != "nil"
				}
			}
			continue
		}
		if len(c.Body) != 1 {
			return "", fmt.Errorf("dispatch case with %d statements", len(c.Body))
		}
		r, ok := c.Body[0].(*ast.ReturnStmt)
		if !ok || len(r.Results) != 1 {
			return "", fmt.Errorf("dispatch case is not `return i.handleX(...)`")
		}
		call, ok := r.Results[0].(*ast.CallExpr)
		if !ok {
			return "", fmt.Errorf("dispatch case does not call a handler")
		}
		sel, ok := call.Fun.(*ast.SelectorExpr)
		if !ok {
			return "", fmt.Errorf("dispatch callee shape")
		}
		for _, e := range c.List {
			name := exprString(e)
			v, ok := consts[name]
			if !ok {
				return "", fmt.Errorf("dispatch on unknown constant %s", name)
			}
			table = append(table, disp{v, sel.Sel.Name})
		}
	}

	// ---- handlers: body decoded? response body sent?
	type hinfo struct{ decodes, data bool }
	handlers := map[string]hinfo{}
	for _, d := range f.Decls {
		fd, ok := d.(*ast.FuncDecl)
		if !ok || fd.Body == nil || !strings.HasPrefix(fd.Name.Name, "handle") {
			continue
		}
		var hi hinfo
		ast.Inspect(fd.Body, func(n ast.Node) bool {
			c, ok := n.(*ast.CallExpr)
			if !ok {
				return true
			}
			switch exprString(c.Fun) {
			case "client.dec.Decode":
				hi.decodes = true
			case "client.Send":
				if len(c.Args) == 2 && exprString(c.Args[1]) != "nil" {
					hi.data = true
				}
			}
			return true
		})
		handlers[fd.Name.Name] = hi
	}
	sort.SliceStable(table, func(a, b int) bool { return table[a].cmd < table[b].cmd })
	var rows []string
	for _, t := range table {
		hi, ok := handlers[t.handler]
		if !ok {
			return "", fmt.Errorf("handler %s not found", t.handler)
		}
		decodes := hi.decodes
		if t.handler == "handleMembers" {
			// one handler for two commands: the body is decoded only `if command == membersFilteredCommand`
			decodes = t.cmd == consts["membersFilteredCommand"]
		}
		rows = append(rows, fmt.Sprintf("  (%s, %s, %v, %v)", q(t.cmd), q(t.handler), decodes, hi.data))
	}
	// the members special case must really be what the source says
	hm := findFunc(f, "AgentIPC", "handleMembers")
	membersGuard := ""
	if hm != nil {
		ast.Inspect(hm.Body, func(n ast.Node) bool {
			if is, ok := n.(*ast.IfStmt); ok && membersGuard == "" {
				found := false
				ast.Inspect(is.Body, func(m ast.Node) bool {
					if c, ok := m.(*ast.CallExpr); ok && exprString(c.Fun) == "client.dec.Decode" {
						found = true
					}
					return true
				})
				if found {
					membersGuard = exprString(is.Cond)
				}
			}
			return true
		})
	}

	// ---- handleHandshake / handleAuth chains
	chainOf := func(name string) ([][2]string, error) {
		fd := findFunc(f, "AgentIPC", name)
		if fd == nil {
			return nil, fmt.Errorf("%s not found", name)
		}
		var chains [][][2]string
		for _, st := range fd.Body.List {
			if is, ok := st.(*ast.IfStmt); ok {
				// skip `if err := client.dec.Decode(&req); err != nil { return … }`
				if is.Init != nil && is.Else == nil {
					continue
				}
				chains = append(chains, ifChain(is))
			}
		}
		if len(chains) != 1 {
			return nil, fmt.Errorf("%s: expected one decision chain, found %d", name, len(chains))
		}
		return chains[0], nil
	}
	hsChain, err := chainOf("handleHandshake")
	if err != nil {
		return "", err
	}
	auChain, err := chainOf("handleAuth")
	if err != nil {
		return "", err
	}
	// statements of handleHandshake / handleAuth outside the chain must not touch the connection state
	writes := map[string]int{}
	ast.Inspect(f, func(n ast.Node) bool {
		switch s := n.(type) {
		case *ast.AssignStmt:
			for _, l := range s.Lhs {
				switch exprString(l) {
				case "client.version", "client.didAuth":
					writes[exprString(l)]++
				}
			}
		case *ast.IncDecStmt:
			switch exprString(s.X) {
			case "client.version", "client.didAuth":
				writes[exprString(s.X)]++
			}
		case *ast.UnaryExpr:
			if s.Op == token.AND {
				switch exprString(s.X) {
				case "client.version", "client.didAuth":
					writes[exprString(s.X)] += 100 // address taken
				}
			}
		}
		return true
	})
	chainLean := func(ch [][2]string) string {
		var xs []string
		for _, c := range ch {
			xs = append(xs, fmt.Sprintf("(%s, %s)", q(c[0]), q(c[1])))
		}
		return "[" + strings.Join(xs, ", ") + "]"
	}
	errStr := func(name string) string { return consts[name] }

	var b strings.Builder
	b.WriteString("-- GENERATED by /verif/extract from cmd/serf/command/agent/ipc.go — do not edit.\n")
	b.WriteString("namespace SerfModel.Gen.IpcGate\n\n")
	fmt.Fprintf(&b, "def minIPCVersion : Int := %s\ndef maxIPCVersion : Int := %s\n\n", consts["MinIPCVersion"], consts["MaxIPCVersion"])
	fmt.Fprintf(&b, "/-- first gate of handleRequest: condition, error string replied, connection closed afterwards -/\ndef handshakeGate : String × String × Bool := (%s, %s, %v)\n", q(gates[0].cond), q(errStr(gates[0].errConst)), gates[0].closes)
	fmt.Fprintf(&b, "/-- second gate -/\ndef authGate : String × String × Bool := (%s, %s, %v)\n\n", q(gates[1].cond), q(errStr(gates[1].errConst)), gates[1].closes)
	fmt.Fprintf(&b, "/-- `default:` of the dispatch switch: error string, connection closed -/\ndef unknownCommand : String × Bool := (%s, %v)\n\n", q(errStr(defaultErr)), defaultCloses)
	fmt.Fprintf(&b, "def handshakeCommand : String := %s\ndef authCommand : String := %s\n\n", q(consts["handshakeCommand"]), q(consts["authCommand"]))
	b.WriteString("/-- dispatch switch: (command string, handler, handler decodes a request body, handler sends a response body) -/\n")
	b.WriteString("def dispatch : List (String × String × Bool × Bool) := [\n" + strings.Join(rows, ",\n") + "\n]\n\n")
	fmt.Fprintf(&b, "/-- guard under which handleMembers decodes a body -/\ndef membersBodyGuard : String := %s\n\n", q(membersGuard))
	fmt.Fprintf(&b, "/-- decision chain of handleHandshake after the decode: (condition, what the branch does) -/\ndef handshakeChain : List (String × String) := %s\n", chainLean(hsChain))
	fmt.Fprintf(&b, "/-- decision chain of handleAuth -/\ndef authChain : List (String × String) := %s\n\n", chainLean(auChain))
	fmt.Fprintf(&b, "/-- error strings named in the chains -/\ndef errorStrings : List (String × String) := [(\"unsupportedIPCVersion\", %s), (\"duplicateHandshake\", %s), (\"invalidAuthToken\", %s)]\n\n",
		q(consts["unsupportedIPCVersion"]), q(consts["duplicateHandshake"]), q(consts["invalidAuthToken"]))
	fmt.Fprintf(&b, "/-- writes to client.version / client.didAuth anywhere in ipc.go (address-of counts 100) -/\ndef versionWrites : Nat := %d\ndef didAuthWrites : Nat := %d\n\nend SerfModel.Gen.IpcGate\n",
		writes["client.version"], writes["client.didAuth"])
	return b.String(), nil
}

func init() { addGen("IpcGate", genIpcGate) }
