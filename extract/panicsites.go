package main

// PanicSites: for the functions reachable from network input, every expression
// that can panic (index, slice, unchecked type assertion, write to a possibly-nil
// map, explicit panic, integer division/modulo by a non-constant, dereference of a
// pointer obtained from a map/slice element, calls whose callee panics by contract)
// together with the path condition a tiny symbolic walk can see.  Each site becomes a
// Lean proposition over Nat; SerfProofs/Props/C09.lean proves every one.  A site the
// walk cannot analyse gets no hypothesis: it must hold unconditionally or the build
// fails (conservative).

import (
	"fmt"
	"go/ast"
	"go/token"
	"regexp"
	"sort"
	"strings"
)

// The walked functions are COMPUTED: the roots are the methods of the types Create hands to memberlist
// (conf.MemberlistConfig.Delegate/Events/Conflict/Ping/Merge/Alive) plus the goroutines that consume the
// channels the network handlers feed; from there every call, `go` and `defer` whose callee resolves to a
// function of the serf or coordinate package is followed (calls through interfaces and function values do
// not resolve and are not followed).

// psHandOff: consumers of channels that carry network-derived values (no call edge leads to them).
var psHandOff = []string{
	"serf.serfQueries.stream",       // reads the event channel handleQuery/handleUserEvent/handleNode* send to
	"serf.coalesceLoop",             // same channel when event coalescing is configured
	"serf.KeyManager.streamKeyResp", // reads the reply channel handleQueryResponse sends to
	"serf.Snapshotter.teeStream",    // same event channel when a snapshot path is configured
	"serf.Snapshotter.stream",
}

// delegateTypes: the T of every `conf.MemberlistConfig.X = &T{…}` / `md := &T{…}; conf.MemberlistConfig.X = md` in Create.
func delegateTypes(p *psPkgs) ([]string, error) {
	fd := p.funcs["serf.Create"]
	if fd == nil {
		return nil, fmt.Errorf("serf.Create not found")
	}
	locals := map[string]string{}
	seen := map[string]bool{}
	var out []string
	litType := func(e ast.Expr) string {
		if u, ok := e.(*ast.UnaryExpr); ok && u.Op == token.AND {
			if cl, ok := u.X.(*ast.CompositeLit); ok {
				if id, ok := cl.Type.(*ast.Ident); ok {
					return id.Name
				}
			}
		}
		if id, ok := e.(*ast.Ident); ok {
			return locals[id.Name]
		}
		return ""
	}
	ast.Inspect(fd.Body, func(n ast.Node) bool {
		as, ok := n.(*ast.AssignStmt)
		if !ok || len(as.Lhs) != 1 || len(as.Rhs) != 1 {
			return true
		}
		if id, ok := as.Lhs[0].(*ast.Ident); ok {
			if t := litType(as.Rhs[0]); t != "" {
				locals[id.Name] = t
			}
			return true
		}
		if strings.HasPrefix(psExpr(as.Lhs[0]), "conf.MemberlistConfig.") {
			if t := litType(as.Rhs[0]); t != "" && !seen[t] {
				seen[t] = true
				out = append(out, t)
			}
		}
		return true
	})
	if len(out) < 4 {
		return nil, fmt.Errorf("Create: expected the memberlist delegates to be assigned as &T{…}, found %v", out)
	}
	return out, nil
}

func psRoots(p *psPkgs) ([]string, error) {
	dts, err := delegateTypes(p)
	if err != nil {
		return nil, err
	}
	var roots []string
	for k := range p.funcs {
		parts := strings.Split(k, ".")
		if len(parts) == 3 && parts[0] == "serf" {
			for _, t := range dts {
				if parts[1] == t {
					roots = append(roots, k)
				}
			}
		}
	}
	sort.Strings(roots)
	for _, h := range psHandOff {
		if p.funcs[h] == nil {
			return nil, fmt.Errorf("hand-off root %s not found", h)
		}
		roots = append(roots, h)
	}
	return roots, nil
}

func psShortKey(k string) string {
	parts := strings.Split(k, ".")
	if len(parts) == 3 {
		return parts[1] + "_" + parts[2]
	}
	return parts[0] + "_" + parts[1]
}

// Hypotheses that are not visible as a dominating guard in the walked function:
// configuration preconditions, state invariants established by the constructor, caller
// contracts.  Keyed by (function short name, Lean variable at its entry version).  Each is
// checked syntactically against the source where stated; a failed check drops the
// hypothesis, so the site becomes unprovable.
type psAmb struct {
	fn, v, prop, tag string
	check            func(p *psPkgs) bool
}

// like: text equals the pattern, where `§` stands for any identifier (locals may be renamed).
func like(text, pattern string) bool {
	re := regexp.MustCompile("^" + strings.ReplaceAll(regexp.QuoteMeta(pattern), "§", `[A-Za-z_][A-Za-z0-9_]*`) + "$")
	return re.MatchString(text)
}

func srcHas(file string, needles ...string) func(p *psPkgs) bool {
	return func(p *psPkgs) bool {
		f, ok := p.files[file]
		if !ok {
			return false
		}
		found := map[string]bool{}
		ast.Inspect(f, func(n ast.Node) bool {
			var s string
			switch x := n.(type) {
			case *ast.AssignStmt:
				if len(x.Lhs) == 1 && len(x.Rhs) == 1 {
					s = psExpr(x.Lhs[0]) + " = " + psExpr(x.Rhs[0])
				}
			case *ast.IfStmt:
				s = "if " + psExpr(x.Cond)
			case *ast.KeyValueExpr:
				s = psExpr(x.Key) + ": " + psExpr(x.Value)
			case *ast.ExprStmt:
				s = psExpr(x.X)
			case *ast.GoStmt:
				s = "go " + psExpr(x.Call)
			}
			for _, nd := range needles {
				// a needle is the statement's text with `§` standing for any identifier (locals may be renamed)
				if like(s, nd) {
					found[nd] = true
				}
			}
			return true
		})
		return len(found) == len(needles)
	}
}

var psAmbient = []psAmb{
	{"Serf_handleUserEvent", "len_recv_eventBuffer", "0 < len_recv_eventBuffer", "config: Config.EventBuffer > 0 (Create: serf.eventBuffer = make([]*userEvents, conf.EventBuffer); never re-assigned)",
		srcHas("serf/serf.go", "§.eventBuffer = make([]*userEvents, §.EventBuffer)")},
	{"Serf_handleQuery", "len_recv_queryBuffer", "0 < len_recv_queryBuffer", "config: Config.QueryBuffer > 0 (Create: serf.queryBuffer = make([]*queries, conf.QueryBuffer); never re-assigned)",
		srcHas("serf/serf.go", "§.queryBuffer = make([]*queries, §.QueryBuffer)")},
	{"delegate_NodeMeta", "v_a0", "len_x0_v1 ≤ v_a0", "config: the local tags fit memberlist's meta limit (Create and SetTags reject larger tags; not a network input)",
		srcHas("serf/serf.go", "if len(§.encodeTags(§.Tags)) > memberlist.MetaMaxSize", "if len(§.encodeTags(§)) > memberlist.MetaMaxSize")},
	{"serfQueries_handleQuery", "len_a0_Name", "v_InternalQueryPrefix ≤ len_a0_Name ∧ v_InternalQueryPrefix = len_InternalQueryPrefix",
		"caller: serfQueries.stream starts handleQuery only under strings.HasPrefix(q.Name, InternalQueryPrefix)",
		srcHas("serf/internal_query.go", "if § && strings.HasPrefix(§.Name, InternalQueryPrefix)", "go §.handleQuery(§)")},
	{"pingDelegate_NotifyPingComplete", "ptr_recv_serf_coordCache", "0 < ptr_recv_serf_coordCache", "config: the ping delegate exists only when coordinates are enabled, and Create then makes coordCache",
		srcHas("serf/serf.go", "§.coordCache = make(map[string]*coordinate.Coordinate)", "§.MemberlistConfig.Ping = &pingDelegate{…}")},
	{"Serf_encodeTags", "ptr_err_v1", "ptr_err_v1 = 0", "library: msgpack-encoding a map[string]string into a bytes.Buffer does not fail", nil},
	{"pingDelegate_NotifyPingComplete", "v_recv_serf_coordClient_config_LatencyFilterSize", "0 < v_recv_serf_coordClient_config_LatencyFilterSize",
		"config: coordinate.Config.LatencyFilterSize > 0 (Create builds the client from coordinate.DefaultConfig(), which sets LatencyFilterSize: 3)",
		func(p *psPkgs) bool {
			return srcHas("serf/serf.go", "§ = coordinate.DefaultConfig()")(p) && srcHas("coordinate/config.go", "LatencyFilterSize: 3")(p)
		}},
	{"delegate_MergeRemoteState", "v_dyn_recv_serf_eventJoinIgnore_Load_is_bool", "v_dyn_recv_serf_eventJoinIgnore_Load_is_bool = 1",
		"inv: every eventJoinIgnore.Store(…) in the package stores a bool literal, and Create stores one before the delegate is handed to memberlist", storesBool},
	{"userEventCoalescer_Handle", "v_dyn_a0_is_UserEvent", "v_a0_EventType = " + "EVENTUSER" + " → v_dyn_a0_is_UserEvent = 1",
		"inv: UserEvent is the only type in the package whose EventType() returns EventUser", onlyUserEventIsEventUser},
	{"userEventCoalescer_Coalesce", "v_dyn_a0_is_UserEvent", "v_dyn_a0_is_UserEvent = 1",
		"caller: coalesceLoop calls Coalesce(e) only after Handle(e) returned true, and userEventCoalescer.Handle returns true only after its own e.(UserEvent) succeeded",
		func(p *psPkgs) bool { return coalesceAfterHandle(p) && handleTrueOnlyAfterAssert(p) }},
	{"memberEventCoalescer_Coalesce", "v_dyn_a0_is_MemberEvent", "v_dyn_a0_is_MemberEvent = 1",
		"caller: coalesceLoop calls Coalesce(e) only after Handle(e) returned true; memberEventCoalescer.Handle returns true only for the EventMember* kinds, which only MemberEvent values carry (UserEvent and *Query return the constants EventUser/EventQuery)",
		func(p *psPkgs) bool {
			return coalesceAfterHandle(p) && memberHandleOnlyMemberKinds(p) && onlyUserEventIsEventUser(p)
		}},
	{"QueryResponse_sendAck", "ptr_recv_ackCh", "0 < ptr_recv_ackCh → 0 < ptr_recv_acks", "inv: newQueryResponse makes ackCh and acks together (if q.Ack()); a send on a nil channel is never selected",
		func(p *psPkgs) bool { return ackPairShape(p) }},
}

// eventTypeReturns: for every method named EventType in package serf, the text of its single returned expression.
func eventTypeReturns(p *psPkgs) map[string]string {
	out := map[string]string{}
	for k, fd := range p.funcs {
		parts := strings.Split(k, ".")
		if len(parts) != 3 || parts[0] != "serf" || parts[2] != "EventType" || fd.Body == nil || len(fd.Body.List) != 1 {
			continue
		}
		if r, ok := fd.Body.List[0].(*ast.ReturnStmt); ok && len(r.Results) == 1 {
			out[parts[1]] = psExpr(r.Results[0])
		}
	}
	return out
}

func onlyUserEventIsEventUser(p *psPkgs) bool {
	rs := eventTypeReturns(p)
	if rs["UserEvent"] != "EventUser" || rs["Query"] != "EventQuery" || len(rs) != 3 {
		return false
	}
	me, ok := rs["MemberEvent"]
	if !ok || !strings.HasSuffix(me, ".Type") {
		return false
	}
	// no MemberEvent literal carries EventUser / EventQuery
	bad := false
	for fn, f := range p.files {
		if !strings.HasPrefix(fn, "serf/") {
			continue
		}
		ast.Inspect(f, func(n ast.Node) bool {
			cl, ok := n.(*ast.CompositeLit)
			if !ok || psExpr(cl.Type) != "MemberEvent" {
				return true
			}
			for _, el := range cl.Elts {
				if kv, ok := el.(*ast.KeyValueExpr); ok && psExpr(kv.Key) == "Type" {
					if v := psExpr(kv.Value); v == "EventUser" || v == "EventQuery" {
						bad = true
					}
				}
			}
			return true
		})
	}
	return !bad
}

// coalesceAfterHandle: in coalesceLoop, `if !c.Handle(e) { …; continue }` precedes `c.Coalesce(e)` in the same clause.
func coalesceAfterHandle(p *psPkgs) bool {
	fd := p.funcs["serf.coalesceLoop"]
	if fd == nil {
		return false
	}
	ok := false
	ast.Inspect(fd.Body, func(n ast.Node) bool {
		cc, is := n.(*ast.CommClause)
		if !is {
			return true
		}
		guarded := false
		for _, s := range cc.Body {
			if ifs, is := s.(*ast.IfStmt); is && like(psExpr(ifs.Cond), "!§.Handle(§)") && len(ifs.Body.List) > 0 {
				if b, is := ifs.Body.List[len(ifs.Body.List)-1].(*ast.BranchStmt); is && b.Tok == token.CONTINUE {
					guarded = true
				}
			}
			if es, is := s.(*ast.ExprStmt); is && like(psExpr(es.X), "§.Coalesce(§)") {
				ok = guarded
			}
		}
		return true
	})
	// and Coalesce is called nowhere else in the package
	n := 0
	for fnm, f := range p.files {
		if !strings.HasPrefix(fnm, "serf/") {
			continue
		}
		ast.Inspect(f, func(nd ast.Node) bool {
			if c, is := nd.(*ast.CallExpr); is {
				if sel, is := c.Fun.(*ast.SelectorExpr); is && sel.Sel.Name == "Coalesce" {
					n++
				}
			}
			return true
		})
	}
	return ok && n == 1
}

// handleTrueOnlyAfterAssert: userEventCoalescer.Handle = { if e.EventType() != EventUser { return false }; user := e.(UserEvent); return user.Coalesce }.
func handleTrueOnlyAfterAssert(p *psPkgs) bool {
	fd := p.funcs["serf.userEventCoalescer.Handle"]
	if fd == nil || len(fd.Body.List) != 3 {
		return false
	}
	as, ok := fd.Body.List[1].(*ast.AssignStmt)
	if !ok || len(as.Rhs) != 1 || !like(psExpr(as.Rhs[0]), "§.(UserEvent)") {
		return false
	}
	ifs, ok := fd.Body.List[0].(*ast.IfStmt)
	return ok && like(psExpr(ifs.Cond), "§.EventType() != EventUser")
}

// memberHandleOnlyMemberKinds: every `return true` of memberEventCoalescer.Handle sits in a case clause that lists only EventMember* constants.
func memberHandleOnlyMemberKinds(p *psPkgs) bool {
	fd := p.funcs["serf.memberEventCoalescer.Handle"]
	if fd == nil || len(fd.Body.List) != 1 {
		return false
	}
	sw, ok := fd.Body.List[0].(*ast.SwitchStmt)
	if !ok || !like(psExpr(sw.Tag), "§.EventType()") {
		return false
	}
	for _, cl := range sw.Body.List {
		cc := cl.(*ast.CaseClause)
		retTrue := false
		for _, s := range cc.Body {
			if r, is := s.(*ast.ReturnStmt); is && len(r.Results) == 1 && psExpr(r.Results[0]) == "true" {
				retTrue = true
			}
		}
		if !retTrue {
			continue
		}
		if cc.List == nil {
			return false
		}
		for _, e := range cc.List {
			if !strings.HasPrefix(psExpr(e), "EventMember") {
				return false
			}
		}
	}
	return true
}

// storesBool: every X.eventJoinIgnore.Store(arg) has a literal true/false argument (at least one such call exists).
func storesBool(p *psPkgs) bool {
	n, bad := 0, false
	for _, f := range p.files {
		ast.Inspect(f, func(nd ast.Node) bool {
			c, ok := nd.(*ast.CallExpr)
			if !ok || len(c.Args) != 1 {
				return true
			}
			if strings.HasSuffix(psExpr(c.Fun), ".eventJoinIgnore.Store") {
				n++
				if a := psExpr(c.Args[0]); a != "true" && a != "false" {
					bad = true
				}
			}
			return true
		})
	}
	return n > 0 && !bad
}

// ackPairShape: newQueryResponse has an if-statement whose body assigns both resp.ackCh and resp.acks with make.
func ackPairShape(p *psPkgs) bool {
	fd := p.funcs["serf.newQueryResponse"]
	if fd == nil {
		return false
	}
	ok := false
	ast.Inspect(fd.Body, func(n ast.Node) bool {
		ifs, is := n.(*ast.IfStmt)
		if !is {
			return true
		}
		a, b := false, false
		for _, s := range ifs.Body.List {
			if as, is := s.(*ast.AssignStmt); is && len(as.Lhs) == 1 && len(as.Rhs) == 1 && isMakeOrLit(as.Rhs[0]) {
				switch l := psExpr(as.Lhs[0]); {
				case like(l, "§.ackCh"):
					a = true
				case like(l, "§.acks"):
					b = true
				}
			}
		}
		if a && b {
			ok = true
		}
		return true
	})
	return ok
}

func (w *psWalker) ambient(goal string, all []psHyp) []psHyp {
	seen := map[string]bool{}
	for _, v := range propVars(goal) {
		seen[v] = true
	}
	for _, h := range all {
		for _, v := range propVars(h.prop) {
			seen[v] = true
		}
	}
	var out []psHyp
	for _, a := range psAmbient {
		if a.fn != w.short || a.v == "" || !seen[a.v] {
			continue
		}
		if a.check != nil && !a.check(w.sh.p) {
			continue
		}
		out = append(out, psHyp{prop: strings.ReplaceAll(a.prop, "EVENTUSER", w.sh.p.consts["serf.EventUser"]), tag: a.tag})
	}
	return out
}

// truncLoop recognises `for i := e; i >= 0; i-- { … K = K[0:i] … }` and proposes the loop
// invariant i ≤ len(K): proved initially and across an iteration by two extra obligations.
func (w *psWalker) truncLoop(x *ast.ForStmt, loopVar, initV string) {
	w.invK = ""
	if loopVar == "" || x.Post == nil {
		return
	}
	id, ok := x.Post.(*ast.IncDecStmt)
	if !ok || id.Tok != token.DEC || key(id.X) != loopVar {
		return
	}
	k, count := "", 0
	ast.Inspect(x.Body, func(n ast.Node) bool {
		as, ok := n.(*ast.AssignStmt)
		if !ok || len(as.Lhs) != 1 || len(as.Rhs) != 1 {
			return true
		}
		lk := key(as.Lhs[0])
		if se, ok := as.Rhs[0].(*ast.SliceExpr); ok && lk != "" && key(se.X) == lk && se.High != nil && key(se.High) == loopVar {
			if lo, isLit := intLitValue(se.Low); se.Low == nil || (isLit && lo == 0) {
				k = lk
			}
		}
		return true
	})
	if k == "" {
		return
	}
	for _, a := range assignedKeys(x.Body) {
		if a == k {
			count++
		}
		if a == loopVar {
			return
		}
	}
	if count != 1 {
		return
	}
	w.emit("loopinv_init", k, "for "+loopVar+" := …; "+loopVar+"-- { "+k+" = "+k+"[0:"+loopVar+"] }", initV+" ≤ "+w.lv("len", k))
	w.sh.names["site_"+w.short+"_loopinv_step"]++
	w.sh.sites = append(w.sh.sites, psSite{name: fmt.Sprintf("site_%s_loopinv_step_%d", w.short, w.sh.names["site_"+w.short+"_loopinv_step"]), kind: "loopinv_step",
		src: "one iteration keeps " + loopVar + " ≤ len(" + k + "): " + k + " is left alone or truncated to " + loopVar + ", then " + loopVar + "--", fn: w.short,
		hyps: []psHyp{{prop: "v_i ≤ len_K", tag: "guard"}, {prop: "0 < v_i", tag: "guard"}}, goal: "v_i - 1 ≤ v_i ∧ v_i - 1 ≤ len_K"})
	w.invK, w.invVar = k, loopVar
}

func (w *psWalker) invFacts(x *ast.ForStmt) {
	if w.invK != "" {
		w.add(w.lv("v", w.invVar)+" ≤ "+w.lv("len", w.invK), "loop invariant (see the loopinv_init / loopinv_step obligations)")
		w.invK = ""
	}
}

func genPanicSites(repo string) (string, error) {
	p, err := loadPkgs(repo, "serf", "coordinate")
	if err != nil {
		return "", err
	}
	p.evalIota()
	{
		// MemberStatus.String panics on values it does not list: its precondition is the disjunction of its cases
		var alts []string
		for _, v := range statusValues(p) {
			alts = append(alts, "{v:$r} = "+v)
		}
		psContracts["serf.MemberStatus.String"] = psContract{requires: strings.Join(alts, " ∨ ")}
	}
	sh := &psShared{p: p, names: map[string]int{}, queued: map[string]bool{}}
	roots, err := psRoots(p)
	if err != nil {
		return "", err
	}
	for _, r := range roots {
		sh.enqueue(r)
	}
	var listed []string
	for qi := 0; qi < len(sh.queue); qi++ {
		k := sh.queue[qi]
		fd := p.funcs[k]
		if fd == nil || fd.Body == nil {
			continue
		}
		sh.opq = 0 // opaque names are local to a function: an edit elsewhere does not rename them
		t := struct{ pkg, name string }{strings.SplitN(k, ".", 2)[0], k[strings.LastIndex(k, ".")+1:]}
		w := &psWalker{sh: sh, pkg: t.pkg, short: psShortKey(k), fd: fd, types: map[string]psType{}, ver: map[string]int{}, next: map[string]int{}, nilable: map[string]bool{}, derefDone: map[string]psDeref{}, used: map[string]bool{}, indexLike: map[string]bool{}}
		w.canon = map[string]string{}
		if fd.Recv != nil {
			for _, fl := range fd.Recv.List {
				for _, n := range fl.Names {
					w.types[n.Name] = psType{fl.Type, t.pkg}
					w.canon[n.Name] = "recv"
				}
			}
		}
		np := 0
		for _, fl := range fd.Type.Params.List {
			for _, n := range fl.Names {
				w.types[n.Name] = psType{fl.Type, t.pkg}
				w.canon[n.Name] = fmt.Sprintf("a%d", np)
				np++
			}
		}
		if fd.Type.Results != nil {
			nr := 0
			for _, fl := range fd.Type.Results.List {
				for _, n := range fl.Names {
					w.types[n.Name] = psType{fl.Type, t.pkg}
					w.canon[n.Name] = fmt.Sprintf("r%d", nr)
					nr++
				}
			}
		}
		if ct, ok := psContracts[k]; ok {
			if ct.requires != "" {
				w.add(w.own(ct.requires), "contract: precondition of "+t.name+", proved at every call site in the walked functions")
			}
			if ct.inv != "" {
				w.add(w.own(ct.inv), "inv: object invariant of the receiver, proved at every exit of its methods")
			}
			if ct.boolMeans != "" {
				if !boolMeansShape(w, fd, ct.boolMeans) {
					return "", fmt.Errorf("%s: body is not `return a == b` matching its contract", k)
				}
			}
		}
		w.gotoLabels = map[string]bool{}
		ast.Inspect(fd.Body, func(n ast.Node) bool {
			if b, ok := n.(*ast.BranchStmt); ok && b.Tok == token.GOTO && b.Label != nil {
				w.gotoLabels[b.Label.Name] = true
			}
			return true
		})
		if !w.block(fd.Body.List) {
			w.atExit(nil)
		}
		listed = append(listed, k)
	}
	if len(sh.errs) > 0 {
		return "", fmt.Errorf("%s", strings.Join(sh.errs, "; "))
	}
	var b strings.Builder
	b.WriteString("-- GENERATED by /verif/extract (panicsites.go) from /repo/serf and /repo/coordinate — do not edit.\n")
	b.WriteString("-- One proposition per expression that can panic in the functions reachable from network input;\n")
	b.WriteString("-- hypotheses are the path conditions a small symbolic walk derives ([config]/[inv]/[contract] ones are listed in the doc comment).\n")
	b.WriteString("-- Variables: len_k = length of k, ptr_k = 0 iff k is nil, v_k = integer value of k, c_n = 1 iff an opaque condition holds, t_n opaque.\n")
	b.WriteString("namespace SerfModel.Gen.PanicSites\n\n")
	fmt.Fprintf(&b, "/-- the walked functions -/\ndef functions : List String := [%s]\n\n", quoteList(listed))
	for _, s := range sh.sites {
		b.WriteString(s.lean())
		b.WriteString("\n")
	}
	var names, cfg []string
	cfgSeen := map[string]bool{}
	for _, s := range sh.sites {
		names = append(names, s.name)
		for _, h := range s.hyps {
			if strings.HasPrefix(h.tag, "config") && !cfgSeen[h.tag] {
				cfgSeen[h.tag] = true
				cfg = append(cfg, h.tag)
			}
		}
	}
	sort.Strings(cfg)
	fmt.Fprintf(&b, "/-- configuration preconditions used as hypotheses (not network inputs) -/\ndef configPreconditions : List String := [%s]\n\n", quoteList(cfg))
	fmt.Fprintf(&b, "def siteNames : List String := [%s]\n\n", quoteList(names))
	// per function: (site name, kind) in source order — the hand-written handler skeleton must embody these
	b.WriteString("/-- the sites of each walked function, with their kind, in source order -/\ndef sitesByFunction : List (String × List (String × String)) := [\n")
	var fns []string
	byFn := map[string][]string{}
	for _, s := range sh.sites {
		if _, ok := byFn[s.fn]; !ok {
			fns = append(fns, s.fn)
		}
		byFn[s.fn] = append(byFn[s.fn], fmt.Sprintf("(%q, %q)", s.name, s.kind))
	}
	for i, f := range fns {
		sep := ","
		if i == len(fns)-1 {
			sep = ""
		}
		fmt.Fprintf(&b, "  (%q, [%s])%s\n", f, strings.Join(byFn[f], ", "), sep)
	}
	b.WriteString("]\n\n")
	b.WriteString("/-- every site obligation -/\ndef allSites : Prop :=\n  " + strings.Join(names, " ∧\n  ") + "\n\n")
	b.WriteString("end SerfModel.Gen.PanicSites\n")
	return b.String(), nil
}

func quoteList(l []string) string {
	q := make([]string, len(l))
	for i, s := range l {
		q[i] = fmt.Sprintf("%q", s)
	}
	return strings.Join(q, ", ")
}

// boolMeansShape: the body is `return <a> == <b>` and translates to the stated contract.
func boolMeansShape(w *psWalker, fd *ast.FuncDecl, contract string) bool {
	if len(fd.Body.List) != 1 {
		return false
	}
	r, ok := fd.Body.List[0].(*ast.ReturnStmt)
	if !ok || len(r.Results) != 1 {
		return false
	}
	return w.cond(r.Results[0]) == w.own(contract)
}

// evalIota fills in the values of iota-defined constants (`X T = iota`, implicit repetition, `1 << iota`).
func (p *psPkgs) evalIota() {
	for fn, f := range p.files {
		pkg := strings.SplitN(fn, "/", 2)[0]
		for _, d := range f.Decls {
			gd, ok := d.(*ast.GenDecl)
			if !ok || gd.Tok != token.CONST {
				continue
			}
			form := ""
			for i, s := range gd.Specs {
				vs := s.(*ast.ValueSpec)
				if len(vs.Values) == 1 {
					form = ""
					switch x := vs.Values[0].(type) {
					case *ast.Ident:
						if x.Name == "iota" {
							form = "iota"
						}
					case *ast.BinaryExpr:
						if x.Op == token.SHL && psExpr(x.X) == "1" && psExpr(x.Y) == "iota" {
							form = "shl"
						}
					case *ast.CallExpr:
						if len(x.Args) == 1 && psExpr(x.Args[0]) == "iota" {
							form = "iota"
						}
					}
				} else if len(vs.Values) > 1 {
					form = ""
				}
				if form == "" || len(vs.Names) != 1 {
					continue
				}
				v := i
				if form == "shl" {
					v = 1 << uint(i)
				}
				p.consts[pkg+"."+vs.Names[0].Name] = fmt.Sprint(v)
			}
		}
	}
}

func init() { addGen("PanicSites", genPanicSites) }
