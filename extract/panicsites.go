package main

// PanicSites: for the functions reachable from network input, every expression
// that can panic (index, slice, unchecked type assertion, write to a possibly-nil
// map, explicit panic, integer division/modulo by a non-constant, dereference of a
// pointer obtained from a map/slice element, calls whose callee panics by contract)
// together with the path condition a tiny symbolic walk can see.  Each site becomes a
// Lean proposition over Nat; SerfProofs/Props/C09.lean proves every one.  A site the
// walk cannot analyse gets no hypothesis: it must hold unconditionally or the build
// fails (conservative).

import (
	"fmt"
	"go/ast"
	"go/token"
	"sort"
	"strings"
)

type psTarget struct{ pkg, recv, name string }

var psTargets = []psTarget{
	{"serf", "delegate", "NodeMeta"}, {"serf", "delegate", "NotifyMsg"}, {"serf", "delegate", "LocalState"}, {"serf", "delegate", "MergeRemoteState"},
	{"serf", "Serf", "handleNodeLeaveIntent"}, {"serf", "Serf", "handleNodeJoinIntent"}, {"serf", "Serf", "handleUserEvent"},
	{"serf", "Serf", "handleQuery"}, {"serf", "Serf", "handleQueryResponse"}, {"serf", "Serf", "handleNodeJoin"}, {"serf", "Serf", "handleNodeLeave"},
	{"serf", "Serf", "handleNodeUpdate"}, {"serf", "Serf", "handleNodeConflict"}, {"serf", "Serf", "resolveNodeConflict"}, {"serf", "Serf", "handlePrune"},
	{"serf", "Serf", "eraseNode"}, {"serf", "Serf", "decodeTags"}, {"serf", "Serf", "encodeTags"}, {"serf", "", "removeOldMember"}, {"serf", "", "upsertIntent"},
	{"serf", "", "recentIntent"}, {"serf", "Serf", "shouldProcessQuery"}, {"serf", "Serf", "relayResponse"}, {"serf", "", "kRandomMembers"},
	{"serf", "QueryResponse", "sendAck"}, {"serf", "QueryResponse", "sendResponse"}, {"serf", "", "newQueryResponse"},
	{"serf", "Query", "createResponse"}, {"serf", "Query", "checkResponseSize"}, {"serf", "Query", "respondWithMessageAndResponse"}, {"serf", "Query", "Respond"},
	{"serf", "serfQueries", "stream"}, {"serf", "serfQueries", "handleQuery"}, {"serf", "serfQueries", "handleConflict"},
	{"serf", "serfQueries", "keyListResponseWithCorrectSize"}, {"serf", "serfQueries", "sendKeyResponse"}, {"serf", "serfQueries", "handleInstallKey"},
	{"serf", "serfQueries", "handleUseKey"}, {"serf", "serfQueries", "handleRemoveKey"}, {"serf", "serfQueries", "handleListKeys"},
	{"serf", "KeyManager", "streamKeyResp"}, {"serf", "pingDelegate", "NotifyPingComplete"}, {"serf", "pingDelegate", "AckPayload"},
	{"serf", "mergeDelegate", "NotifyMerge"}, {"serf", "mergeDelegate", "NotifyAlive"}, {"serf", "mergeDelegate", "nodeToMember"}, {"serf", "mergeDelegate", "validateMemberInfo"},
	{"serf", "eventDelegate", "NotifyJoin"}, {"serf", "eventDelegate", "NotifyLeave"}, {"serf", "eventDelegate", "NotifyUpdate"}, {"serf", "conflictDelegate", "NotifyConflict"},
	{"serf", "", "decodeMessage"}, {"serf", "", "encodeMessage"}, {"serf", "", "encodeRelayMessage"}, {"serf", "", "encodeFilter"},
	{"serf", "messageQuery", "Ack"}, {"serf", "messageQuery", "NoBroadcast"}, {"serf", "messageQueryResponse", "Ack"},
	{"coordinate", "Client", "Update"}, {"coordinate", "Client", "checkCoordinate"}, {"coordinate", "Client", "latencyFilter"}, {"coordinate", "Client", "updateVivaldi"},
	{"coordinate", "Client", "updateAdjustment"}, {"coordinate", "Client", "updateGravity"}, {"coordinate", "Client", "GetCoordinate"}, {"coordinate", "Client", "ForgetNode"},
	{"coordinate", "Coordinate", "DistanceTo"}, {"coordinate", "Coordinate", "IsCompatibleWith"}, {"coordinate", "Coordinate", "IsValid"}, {"coordinate", "Coordinate", "ApplyForce"},
	{"coordinate", "Coordinate", "rawDistanceTo"}, {"coordinate", "Coordinate", "Clone"}, {"coordinate", "", "NewCoordinate"}, {"coordinate", "", "add"}, {"coordinate", "", "diff"},
	{"coordinate", "", "mul"}, {"coordinate", "", "magnitude"}, {"coordinate", "", "unitVectorAt"}, {"coordinate", "", "componentIsValid"},
}

// Hypotheses that are not visible as a dominating guard in the walked function:
// configuration preconditions, state invariants established by the constructor, caller
// contracts.  Keyed by (function short name, Lean variable at its entry version).  Each is
// checked syntactically against the source where stated; a failed check drops the
// hypothesis, so the site becomes unprovable.
type psAmb struct {
	fn, v, prop, tag string
	check            func(p *psPkgs) bool
}

func srcHas(file string, needles ...string) func(p *psPkgs) bool {
	return func(p *psPkgs) bool {
		f, ok := p.files[file]
		if !ok {
			return false
		}
		found := map[string]bool{}
		ast.Inspect(f, func(n ast.Node) bool {
			var s string
			switch x := n.(type) {
			case *ast.AssignStmt:
				if len(x.Lhs) == 1 && len(x.Rhs) == 1 {
					s = psExpr(x.Lhs[0]) + " = " + psExpr(x.Rhs[0])
				}
			case *ast.IfStmt:
				s = "if " + psExpr(x.Cond)
			case *ast.KeyValueExpr:
				s = psExpr(x.Key) + ": " + psExpr(x.Value)
			case *ast.ExprStmt:
				s = psExpr(x.X)
			case *ast.GoStmt:
				s = "go " + psExpr(x.Call)
			}
			for _, nd := range needles {
				if s == nd {
					found[nd] = true
				}
			}
			return true
		})
		return len(found) == len(needles)
	}
}

var psAmbient = []psAmb{
	{"Serf_handleUserEvent", "len_s_eventBuffer", "0 < len_s_eventBuffer", "config: Config.EventBuffer > 0 (Create: serf.eventBuffer = make([]*userEvents, conf.EventBuffer); never re-assigned)",
		srcHas("serf/serf.go", "serf.eventBuffer = make([]*userEvents, conf.EventBuffer)")},
	{"Serf_handleQuery", "len_s_queryBuffer", "0 < len_s_queryBuffer", "config: Config.QueryBuffer > 0 (Create: serf.queryBuffer = make([]*queries, conf.QueryBuffer); never re-assigned)",
		srcHas("serf/serf.go", "serf.queryBuffer = make([]*queries, conf.QueryBuffer)")},
	{"delegate_NodeMeta", "v_limit", "len_roleBytes_v1 ≤ v_limit", "config: the local tags fit memberlist's meta limit (Create and SetTags reject larger tags; not a network input)",
		srcHas("serf/serf.go", "if len(serf.encodeTags(conf.Tags)) > memberlist.MetaMaxSize", "if len(s.encodeTags(tags)) > memberlist.MetaMaxSize")},
	{"serfQueries_handleQuery", "len_q_Name", "v_InternalQueryPrefix ≤ len_q_Name ∧ v_InternalQueryPrefix = len_InternalQueryPrefix",
		"caller: serfQueries.stream starts handleQuery only under strings.HasPrefix(q.Name, InternalQueryPrefix)",
		srcHas("serf/internal_query.go", "if ok && strings.HasPrefix(q.Name, InternalQueryPrefix)", "go s.handleQuery(q)")},
	{"pingDelegate_NotifyPingComplete", "ptr_p_serf_coordCache", "0 < ptr_p_serf_coordCache", "config: the ping delegate exists only when coordinates are enabled, and Create then makes coordCache",
		srcHas("serf/serf.go", "serf.coordCache = make(map[string]*coordinate.Coordinate)", "conf.MemberlistConfig.Ping = &pingDelegate{…}")},
	{"Serf_encodeTags", "ptr_err_v1", "ptr_err_v1 = 0", "library: msgpack-encoding a map[string]string into a bytes.Buffer does not fail", nil},
	{"pingDelegate_NotifyPingComplete", "v_p_serf_coordClient_config_LatencyFilterSize", "0 < v_p_serf_coordClient_config_LatencyFilterSize",
		"config: coordinate.Config.LatencyFilterSize > 0 (Create builds the client from coordinate.DefaultConfig(), which sets LatencyFilterSize: 3)",
		func(p *psPkgs) bool {
			return srcHas("serf/serf.go", "coordinateConfig = coordinate.DefaultConfig()")(p) && srcHas("coordinate/config.go", "LatencyFilterSize: 3")(p)
		}},
	{"delegate_MergeRemoteState", "v_dyn_d_serf_eventJoinIgnore_Load_is_bool", "v_dyn_d_serf_eventJoinIgnore_Load_is_bool = 1",
		"inv: every eventJoinIgnore.Store(…) in the package stores a bool literal, and Create stores one before the delegate is handed to memberlist", storesBool},
	{"QueryResponse_sendAck", "ptr_r_ackCh", "0 < ptr_r_ackCh → 0 < ptr_r_acks", "inv: newQueryResponse makes ackCh and acks together (if q.Ack()); a send on a nil channel is never selected",
		func(p *psPkgs) bool { return ackPairShape(p) }},
}

// storesBool: every X.eventJoinIgnore.Store(arg) has a literal true/false argument (at least one such call exists).
func storesBool(p *psPkgs) bool {
	n, bad := 0, false
	for _, f := range p.files {
		ast.Inspect(f, func(nd ast.Node) bool {
			c, ok := nd.(*ast.CallExpr)
			if !ok || len(c.Args) != 1 {
				return true
			}
			if strings.HasSuffix(psExpr(c.Fun), ".eventJoinIgnore.Store") {
				n++
				if a := psExpr(c.Args[0]); a != "true" && a != "false" {
					bad = true
				}
			}
			return true
		})
	}
	return n > 0 && !bad
}

// ackPairShape: newQueryResponse has an if-statement whose body assigns both resp.ackCh and resp.acks with make.
func ackPairShape(p *psPkgs) bool {
	fd := p.funcs["serf.newQueryResponse"]
	if fd == nil {
		return false
	}
	ok := false
	ast.Inspect(fd.Body, func(n ast.Node) bool {
		ifs, is := n.(*ast.IfStmt)
		if !is {
			return true
		}
		a, b := false, false
		for _, s := range ifs.Body.List {
			if as, is := s.(*ast.AssignStmt); is && len(as.Lhs) == 1 && len(as.Rhs) == 1 && isMakeOrLit(as.Rhs[0]) {
				switch psExpr(as.Lhs[0]) {
				case "resp.ackCh":
					a = true
				case "resp.acks":
					b = true
				}
			}
		}
		if a && b {
			ok = true
		}
		return true
	})
	return ok
}

func (w *psWalker) ambient(goal string, all []psHyp) []psHyp {
	seen := map[string]bool{}
	for _, v := range propVars(goal) {
		seen[v] = true
	}
	for _, h := range all {
		for _, v := range propVars(h.prop) {
			seen[v] = true
		}
	}
	var out []psHyp
	for _, a := range psAmbient {
		if a.fn != w.short || a.v == "" || !seen[a.v] {
			continue
		}
		if a.check != nil && !a.check(w.sh.p) {
			continue
		}
		out = append(out, psHyp{prop: a.prop, tag: a.tag})
	}
	return out
}

// truncLoop recognises `for i := e; i >= 0; i-- { … K = K[0:i] … }` and proposes the loop
// invariant i ≤ len(K): proved initially and across an iteration by two extra obligations.
func (w *psWalker) truncLoop(x *ast.ForStmt, loopVar, initV string) {
	w.invK = ""
	if loopVar == "" || x.Post == nil {
		return
	}
	id, ok := x.Post.(*ast.IncDecStmt)
	if !ok || id.Tok != token.DEC || key(id.X) != loopVar {
		return
	}
	k, count := "", 0
	ast.Inspect(x.Body, func(n ast.Node) bool {
		as, ok := n.(*ast.AssignStmt)
		if !ok || len(as.Lhs) != 1 || len(as.Rhs) != 1 {
			return true
		}
		lk := key(as.Lhs[0])
		if se, ok := as.Rhs[0].(*ast.SliceExpr); ok && lk != "" && key(se.X) == lk && se.High != nil && key(se.High) == loopVar {
			if lo, isLit := intLitValue(se.Low); se.Low == nil || (isLit && lo == 0) {
				k = lk
			}
		}
		return true
	})
	if k == "" {
		return
	}
	for _, a := range assignedKeys(x.Body) {
		if a == k {
			count++
		}
		if a == loopVar {
			return
		}
	}
	if count != 1 {
		return
	}
	w.emit("loopinv_init", k, "for "+loopVar+" := …; "+loopVar+"-- { "+k+" = "+k+"[0:"+loopVar+"] }", initV+" ≤ "+w.lv("len", k))
	w.sh.sites = append(w.sh.sites, psSite{name: "site_" + w.short + "_loopinv_step_" + strings.Trim(psSan.ReplaceAllString(k, "_"), "_"), kind: "loopinv_step",
		src: "one iteration keeps " + loopVar + " ≤ len(" + k + "): " + k + " is left alone or truncated to " + loopVar + ", then " + loopVar + "--", fn: w.short,
		hyps: []psHyp{{prop: "v_i ≤ len_K", tag: "guard"}, {prop: "0 < v_i", tag: "guard"}}, goal: "v_i - 1 ≤ v_i ∧ v_i - 1 ≤ len_K"})
	w.invK, w.invVar = k, loopVar
}

func (w *psWalker) invFacts(x *ast.ForStmt) {
	if w.invK != "" {
		w.add(w.lv("v", w.invVar)+" ≤ "+w.lv("len", w.invK), "loop invariant (see the loopinv_init / loopinv_step obligations)")
		w.invK = ""
	}
}

func psShort(t psTarget) string {
	if t.recv == "" {
		return t.pkg + "_" + t.name
	}
	return t.recv + "_" + t.name
}

func genPanicSites(repo string) (string, error) {
	p, err := loadPkgs(repo, "serf", "coordinate")
	if err != nil {
		return "", err
	}
	p.evalIota()
	sh := &psShared{p: p, names: map[string]int{}}
	var listed []string
	for _, t := range psTargets {
		k := t.pkg + "." + t.name
		if t.recv != "" {
			k = t.pkg + "." + t.recv + "." + t.name
		}
		fd := p.funcs[k]
		if fd == nil || fd.Body == nil {
			return "", fmt.Errorf("%s not found", k)
		}
		w := &psWalker{sh: sh, pkg: t.pkg, short: psShort(t), fd: fd, types: map[string]psType{}, ver: map[string]int{}, next: map[string]int{}, nilable: map[string]bool{}, derefDone: map[string]psDeref{}, used: map[string]bool{}}
		if t.recv == "" {
			w.short = t.pkg + "_" + t.name
			if t.pkg == "serf" {
				w.short = "serf_" + t.name
			}
		}
		if fd.Recv != nil {
			for _, fl := range fd.Recv.List {
				for _, n := range fl.Names {
					w.types[n.Name] = psType{fl.Type, t.pkg}
				}
			}
		}
		for _, fl := range fd.Type.Params.List {
			for _, n := range fl.Names {
				w.types[n.Name] = psType{fl.Type, t.pkg}
			}
		}
		if fd.Type.Results != nil {
			for _, fl := range fd.Type.Results.List {
				for _, n := range fl.Names {
					w.types[n.Name] = psType{fl.Type, t.pkg}
				}
			}
		}
		if ct, ok := psContracts[k]; ok {
			if ct.requires != "" {
				w.add(w.own(ct.requires), "contract: precondition of "+t.name+", proved at every call site in the walked functions")
			}
			if ct.inv != "" {
				w.add(w.own(ct.inv), "inv: object invariant of the receiver, proved at every exit of its methods")
			}
			if ct.boolMeans != "" {
				if !boolMeansShape(w, fd, ct.boolMeans) {
					return "", fmt.Errorf("%s: body is not `return a == b` matching its contract", k)
				}
			}
		}
		w.gotoLabels = map[string]bool{}
		ast.Inspect(fd.Body, func(n ast.Node) bool {
			if b, ok := n.(*ast.BranchStmt); ok && b.Tok == token.GOTO && b.Label != nil {
				w.gotoLabels[b.Label.Name] = true
			}
			return true
		})
		if !w.block(fd.Body.List) {
			w.atExit(nil)
		}
		listed = append(listed, k)
	}
	if len(sh.errs) > 0 {
		return "", fmt.Errorf("%s", strings.Join(sh.errs, "; "))
	}
	var b strings.Builder
	b.WriteString("-- GENERATED by /verif/extract (panicsites.go) from /repo/serf and /repo/coordinate — do not edit.\n")
	b.WriteString("-- One proposition per expression that can panic in the functions reachable from network input;\n")
	b.WriteString("-- hypotheses are the path conditions a small symbolic walk derives ([config]/[inv]/[contract] ones are listed in the doc comment).\n")
	b.WriteString("-- Variables: len_k = length of k, ptr_k = 0 iff k is nil, v_k = integer value of k, c_n = 1 iff an opaque condition holds, t_n opaque.\n")
	b.WriteString("namespace SerfModel.Gen.PanicSites\n\n")
	fmt.Fprintf(&b, "/-- the walked functions -/\ndef functions : List String := [%s]\n\n", quoteList(listed))
	for _, s := range sh.sites {
		b.WriteString(s.lean())
		b.WriteString("\n")
	}
	var names, cfg []string
	cfgSeen := map[string]bool{}
	for _, s := range sh.sites {
		names = append(names, s.name)
		for _, h := range s.hyps {
			if strings.HasPrefix(h.tag, "config") && !cfgSeen[h.tag] {
				cfgSeen[h.tag] = true
				cfg = append(cfg, h.tag)
			}
		}
	}
	sort.Strings(cfg)
	fmt.Fprintf(&b, "/-- configuration preconditions used as hypotheses (not network inputs) -/\ndef configPreconditions : List String := [%s]\n\n", quoteList(cfg))
	fmt.Fprintf(&b, "def siteNames : List String := [%s]\n\n", quoteList(names))
	b.WriteString("/-- every site obligation -/\ndef allSites : Prop :=\n  " + strings.Join(names, " ∧\n  ") + "\n\n")
	b.WriteString("end SerfModel.Gen.PanicSites\n")
	return b.String(), nil
}

func quoteList(l []string) string {
	q := make([]string, len(l))
	for i, s := range l {
		q[i] = fmt.Sprintf("%q", s)
	}
	return strings.Join(q, ", ")
}

// boolMeansShape: the body is `return <a> == <b>` and translates to the stated contract.
func boolMeansShape(w *psWalker, fd *ast.FuncDecl, contract string) bool {
	if len(fd.Body.List) != 1 {
		return false
	}
	r, ok := fd.Body.List[0].(*ast.ReturnStmt)
	if !ok || len(r.Results) != 1 {
		return false
	}
	return w.cond(r.Results[0]) == w.own(contract)
}

// evalIota fills in the values of iota-defined constants (`X T = iota`, implicit repetition, `1 << iota`).
func (p *psPkgs) evalIota() {
	for fn, f := range p.files {
		pkg := strings.SplitN(fn, "/", 2)[0]
		for _, d := range f.Decls {
			gd, ok := d.(*ast.GenDecl)
			if !ok || gd.Tok != token.CONST {
				continue
			}
			form := ""
			for i, s := range gd.Specs {
				vs := s.(*ast.ValueSpec)
				if len(vs.Values) == 1 {
					form = ""
					switch x := vs.Values[0].(type) {
					case *ast.Ident:
						if x.Name == "iota" {
							form = "iota"
						}
					case *ast.BinaryExpr:
						if x.Op == token.SHL && psExpr(x.X) == "1" && psExpr(x.Y) == "iota" {
							form = "shl"
						}
					case *ast.CallExpr:
						if len(x.Args) == 1 && psExpr(x.Args[0]) == "iota" {
							form = "iota"
						}
					}
				} else if len(vs.Values) > 1 {
					form = ""
				}
				if form == "" || len(vs.Names) != 1 {
					continue
				}
				v := i
				if form == "shl" {
					v = 1 << uint(i)
				}
				p.consts[pkg+"."+vs.Names[0].Name] = fmt.Sprint(v)
			}
		}
	}
}

func init() { addGen("PanicSites", genPanicSites) }
