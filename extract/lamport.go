package main

import (
	"fmt"
	"go/ast"
	"go/token"
	"strconv"
	"strings"
)

// Translation of serf/lamport.go into the atomic-instruction IR of
// SerfModel/Model/Atomic.lean.

type lamportTr struct {
	recv   string // receiver name
	param  string // parameter name ("" if none)
	regs   map[string]int
	labels map[string]int
	instrs []string
	// pending gotos: instruction index -> label name
	fix map[int]string
}

func (t *lamportTr) reg(name string) (int, error) {
	if r, ok := t.regs[name]; ok {
		return r, nil
	}
	if len(t.regs) >= 2 {
		return 0, fmt.Errorf("more than two locals (%s)", name)
	}
	r := len(t.regs)
	t.regs[name] = r
	return r, nil
}

// counterCall recognises <recv>.counter.<method>(args…).
func (t *lamportTr) counterCall(e ast.Expr) (string, []ast.Expr, bool) {
	c, ok := e.(*ast.CallExpr)
	if !ok {
		return "", nil, false
	}
	sel, ok := c.Fun.(*ast.SelectorExpr)
	if !ok {
		return "", nil, false
	}
	inner, ok := sel.X.(*ast.SelectorExpr)
	if !ok || inner.Sel.Name != "counter" {
		return "", nil, false
	}
	if id, ok := inner.X.(*ast.Ident); !ok || id.Name != t.recv {
		return "", nil, false
	}
	return sel.Sel.Name, c.Args, true
}

// stripConv removes a conversion T(x) for T in {LamportTime, uint64}.
func stripConv(e ast.Expr) ast.Expr {
	for {
		if p, ok := e.(*ast.ParenExpr); ok {
			e = p.X
			continue
		}
		c, ok := e.(*ast.CallExpr)
		if !ok || len(c.Args) != 1 {
			return e
		}
		id, ok := c.Fun.(*ast.Ident)
		if !ok || (id.Name != "LamportTime" && id.Name != "uint64") {
			return e
		}
		e = c.Args[0]
	}
}

func intLit(e ast.Expr) (int, bool) {
	b, ok := e.(*ast.BasicLit)
	if !ok || b.Kind != token.INT {
		return 0, false
	}
	n, err := strconv.Atoi(b.Value)
	return n, err == nil
}

// valueInto emits instructions computing e into a register and returns it.
func (t *lamportTr) valueInto(e ast.Expr, dstName string) (int, error) {
	e = stripConv(e)
	if id, ok := e.(*ast.Ident); ok {
		if id.Name == t.param {
			r, err := t.reg(dstName)
			if err != nil {
				return 0, err
			}
			t.instrs = append(t.instrs, fmt.Sprintf(".arg %d", r))
			return r, nil
		}
		if r, ok := t.regs[id.Name]; ok {
			return r, nil
		}
		return 0, fmt.Errorf("unknown identifier %s", id.Name)
	}
	if m, args, ok := t.counterCall(e); ok {
		r, err := t.reg(dstName)
		if err != nil {
			return 0, err
		}
		switch m {
		case "Load":
			if len(args) != 0 {
				return 0, fmt.Errorf("Load with arguments")
			}
			t.instrs = append(t.instrs, fmt.Sprintf(".load %d", r))
			return r, nil
		case "Add":
			if len(args) != 1 {
				return 0, fmt.Errorf("Add arity")
			}
			k, ok := intLit(args[0])
			if !ok {
				return 0, fmt.Errorf("Add of a non-literal")
			}
			t.instrs = append(t.instrs, fmt.Sprintf(".add %d %d", r, k))
			return r, nil
		}
		return 0, fmt.Errorf("unsupported atomic method %s", m)
	}
	return 0, fmt.Errorf("unsupported expression %T", e)
}

// casArgs decodes <recv>.counter.CompareAndSwap(old, new [+ k]) into registers.
func (t *lamportTr) casArgs(e ast.Expr) (ro, rn, k int, err error) {
	m, args, ok := t.counterCall(e)
	if !ok || m != "CompareAndSwap" || len(args) != 2 {
		return 0, 0, 0, fmt.Errorf("not a CompareAndSwap on the counter")
	}
	oldID, ok := stripConv(args[0]).(*ast.Ident)
	if !ok {
		return 0, 0, 0, fmt.Errorf("CAS old value is not a local")
	}
	ro, ok = t.regs[oldID.Name]
	if !ok {
		return 0, 0, 0, fmt.Errorf("CAS old value unknown")
	}
	newE := stripConv(args[1])
	if be, ok := newE.(*ast.BinaryExpr); ok && be.Op == token.ADD {
		kk, ok := intLit(be.Y)
		if !ok {
			return 0, 0, 0, fmt.Errorf("CAS new value: non-literal addend")
		}
		k = kk
		newE = stripConv(be.X)
	}
	newID, ok := newE.(*ast.Ident)
	if !ok {
		return 0, 0, 0, fmt.Errorf("CAS new value is not local+k")
	}
	rn, ok = t.regs[newID.Name]
	if !ok {
		return 0, 0, 0, fmt.Errorf("CAS new value unknown")
	}
	return ro, rn, k, nil
}

func (t *lamportTr) stmt(s ast.Stmt) error {
	switch s := s.(type) {
	case *ast.ForStmt:
		// `for { …; if CAS(old, new+k) { return } }`: the retry loop written without goto.  The successful CAS
		// must be the last statement of the body; a failed one falls off the end and starts the body again.
		if s.Init != nil || s.Cond != nil || s.Post != nil || len(s.Body.List) == 0 {
			return fmt.Errorf("unsupported for shape")
		}
		start := len(t.instrs)
		label := fmt.Sprintf("$for%d", start)
		t.labels[label] = start
		for i, b := range s.Body.List {
			if i < len(s.Body.List)-1 {
				if err := t.stmt(b); err != nil {
					return err
				}
				continue
			}
			is, ok := b.(*ast.IfStmt)
			if !ok || is.Init != nil || is.Else != nil || len(is.Body.List) != 1 {
				return fmt.Errorf("for body does not end in `if CAS { return }`")
			}
			if r, ok := is.Body.List[0].(*ast.ReturnStmt); !ok || len(r.Results) != 0 {
				return fmt.Errorf("for body does not end in `if CAS { return }`")
			}
			ro, rn, k, err := t.casArgs(is.Cond)
			if err != nil {
				return err
			}
			t.fix[len(t.instrs)] = label
			t.instrs = append(t.instrs, fmt.Sprintf(".casPlus %d %d %d @", ro, rn, k), ".ret none")
		}
		return nil
	case *ast.ExprStmt:
		// a CAS whose result is ignored: whether it succeeds or not, execution continues with the next statement
		ro, rn, k, err := t.casArgs(s.X)
		if err != nil {
			return fmt.Errorf("unsupported expression statement: %v", err)
		}
		t.instrs = append(t.instrs, fmt.Sprintf(".casPlus %d %d %d %d", ro, rn, k, len(t.instrs)+1))
		return nil
	case *ast.LabeledStmt:
		t.labels[s.Label.Name] = len(t.instrs)
		return t.stmt(s.Stmt)
	case *ast.AssignStmt:
		if len(s.Lhs) != 1 || len(s.Rhs) != 1 {
			return fmt.Errorf("multi-assignment")
		}
		id, ok := s.Lhs[0].(*ast.Ident)
		if !ok {
			return fmt.Errorf("assignment to non-identifier")
		}
		_, err := t.valueInto(s.Rhs[0], id.Name)
		return err
	case *ast.ReturnStmt:
		if len(s.Results) == 0 {
			t.instrs = append(t.instrs, ".ret none")
			return nil
		}
		if len(s.Results) != 1 {
			return fmt.Errorf("multi-value return")
		}
		r, err := t.valueInto(s.Results[0], "$ret")
		if err != nil {
			return err
		}
		t.instrs = append(t.instrs, fmt.Sprintf(".ret (some %d)", r))
		return nil
	case *ast.IfStmt:
		if s.Init != nil || s.Else != nil || len(s.Body.List) != 1 {
			return fmt.Errorf("unsupported if shape")
		}
		switch body := s.Body.List[0].(type) {
		case *ast.ReturnStmt:
			if len(body.Results) != 0 {
				return fmt.Errorf("conditional return with value")
			}
			be, ok := s.Cond.(*ast.BinaryExpr)
			if !ok {
				return fmt.Errorf("unsupported condition")
			}
			xa, ok1 := stripConv(be.X).(*ast.Ident)
			xb, ok2 := stripConv(be.Y).(*ast.Ident)
			if !ok1 || !ok2 {
				return fmt.Errorf("comparison of non-identifiers")
			}
			ra, oka := t.regs[xa.Name]
			rb, okb := t.regs[xb.Name]
			if !oka || !okb {
				return fmt.Errorf("comparison of unknown locals")
			}
			switch be.Op {
			case token.LSS:
				t.instrs = append(t.instrs, fmt.Sprintf(".retIfLt %d %d", ra, rb))
			case token.LEQ:
				t.instrs = append(t.instrs, fmt.Sprintf(".retIfLe %d %d", ra, rb))
			case token.GTR:
				t.instrs = append(t.instrs, fmt.Sprintf(".retIfLt %d %d", rb, ra))
			case token.GEQ:
				t.instrs = append(t.instrs, fmt.Sprintf(".retIfLe %d %d", rb, ra))
			default:
				return fmt.Errorf("unsupported comparison %s", be.Op)
			}
			return nil
		case *ast.BranchStmt:
			if body.Tok != token.GOTO || body.Label == nil {
				return fmt.Errorf("unsupported branch")
			}
			un, ok := s.Cond.(*ast.UnaryExpr)
			if !ok || un.Op != token.NOT {
				return fmt.Errorf("goto not guarded by a negated CAS")
			}
			m, args, ok := t.counterCall(un.X)
			if !ok || m != "CompareAndSwap" || len(args) != 2 {
				return fmt.Errorf("goto not guarded by a negated CAS")
			}
			oldID, ok := stripConv(args[0]).(*ast.Ident)
			if !ok {
				return fmt.Errorf("CAS old value is not a local")
			}
			ro, ok := t.regs[oldID.Name]
			if !ok {
				return fmt.Errorf("CAS old value unknown")
			}
			k := 0
			newE := stripConv(args[1])
			if be, ok := newE.(*ast.BinaryExpr); ok && be.Op == token.ADD {
				kk, ok := intLit(be.Y)
				if !ok {
					return fmt.Errorf("CAS new value: non-literal addend")
				}
				k = kk
				newE = stripConv(be.X)
			}
			newID, ok := newE.(*ast.Ident)
			if !ok {
				return fmt.Errorf("CAS new value is not local+k")
			}
			rn, ok := t.regs[newID.Name]
			if !ok {
				return fmt.Errorf("CAS new value unknown")
			}
			t.fix[len(t.instrs)] = body.Label.Name
			t.instrs = append(t.instrs, fmt.Sprintf(".casPlus %d %d %d @", ro, rn, k))
			return nil
		}
		return fmt.Errorf("unsupported if body")
	}
	return fmt.Errorf("unsupported statement %T", s)
}

func translateClockMethod(fd *ast.FuncDecl) (string, error) {
	t := &lamportTr{regs: map[string]int{}, labels: map[string]int{}, fix: map[int]string{}}
	if fd.Recv != nil && len(fd.Recv.List) == 1 && len(fd.Recv.List[0].Names) == 1 {
		t.recv = fd.Recv.List[0].Names[0].Name
	}
	if fd.Type.Params != nil && len(fd.Type.Params.List) == 1 && len(fd.Type.Params.List[0].Names) == 1 {
		t.param = fd.Type.Params.List[0].Names[0].Name
	} else if fd.Type.Params != nil && len(fd.Type.Params.List) > 0 {
		return "", fmt.Errorf("unexpected parameters")
	}
	for _, s := range fd.Body.List {
		if err := t.stmt(s); err != nil {
			return "", fmt.Errorf("%s: %v", fd.Name.Name, err)
		}
	}
	// implicit return at the end of a function without result
	if n := len(t.instrs); n == 0 || !strings.HasPrefix(t.instrs[n-1], ".ret") {
		t.instrs = append(t.instrs, ".ret none")
	}
	for i, l := range t.fix {
		idx, ok := t.labels[l]
		if !ok {
			return "", fmt.Errorf("goto unknown label %s", l)
		}
		t.instrs[i] = strings.Replace(t.instrs[i], "@", strconv.Itoa(idx), 1)
	}
	return "[" + strings.Join(t.instrs, ", ") + "]", nil
}

func genLamport(repo string) (string, error) {
	_, f, err := parseFile(repo + "/serf/lamport.go")
	if err != nil {
		return "", err
	}
	var b strings.Builder
	b.WriteString("-- GENERATED by /verif/extract from /repo/serf/lamport.go — do not edit.\n")
	b.WriteString("import SerfModel.Model.Atomic\nnamespace SerfModel.Gen.Lamport\nopen SerfModel.Atomic\n\n")
	for _, m := range [][2]string{{"Time", "time"}, {"Increment", "increment"}, {"Witness", "witness"}} {
		fd := findFunc(f, "LamportClock", m[0])
		if fd == nil {
			return "", fmt.Errorf("method LamportClock.%s not found", m[0])
		}
		p, err := translateClockMethod(fd)
		if err != nil {
			return "", err
		}
		fmt.Fprintf(&b, "def %s : Prog := %s\n", m[1], p)
	}
	b.WriteString("\ndef progs : Progs := { time := time, increment := increment, witness := witness }\n\nend SerfModel.Gen.Lamport\n")
	return b.String(), nil
}

func init() { addGen("Lamport", genLamport) }
