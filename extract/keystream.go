package main

import (
	"fmt"
	"go/ast"
	"go/token"
	"strings"
)

// Gen/KeyStream.lean: the receive loop of serf/keymanager.go streamKeyResp.
//   * classified statements of the loop body in order; `var nodeResponse nodeKeyResponse` declared INSIDE
//     the loop (a fresh decode target per reply); `resp.NumResp++` unconditional and first;
//   * both rejection branches (wrong type / decode error) count an error and jump to NEXT;
//   * for a decoded reply, the PATH CONDITION (conjunction of the enclosing if-conditions) under which
//     each effect happens, translated to a Lean Bool function of the decoded reply:
//       resp.NumErr++, resp.Messages[r.From] = nodeResponse.Message,
//       resp.Keys[key]++ for every key, resp.PrimaryKeys[nodeResponse.PrimaryKey]++;
//   * the early return at NEXT;  * the value of messageKeyResponseType.
// Unsupported shapes are an error.

// ksCond translates a condition over nodeResponse to Lean.
func ksCond(e ast.Expr) (string, error) {
	switch x := e.(type) {
	case *ast.ParenExpr:
		return ksCond(x.X)
	case *ast.UnaryExpr:
		if x.Op == token.NOT {
			a, err := ksCond(x.X)
			if err != nil {
				return "", err
			}
			return ksNot(a), nil
		}
	case *ast.SelectorExpr:
		if squash(x) == "nodeResponse.Result" {
			return "n.result", nil
		}
	case *ast.BinaryExpr:
		if x.Op == token.LAND || x.Op == token.LOR {
			a, err := ksCond(x.X)
			if err != nil {
				return "", err
			}
			b, err := ksCond(x.Y)
			if err != nil {
				return "", err
			}
			op := " && "
			if x.Op == token.LOR {
				op = " || "
			}
			return "(" + a + op + b + ")", nil
		}
		l, r := squash(x.X), squash(x.Y)
		op := x.Op
		// constants on the left: swap
		if l == "0" || l == "1" || l == `""` || l == "true" || l == "false" {
			l, r = r, l
			switch op {
			case token.LSS:
				op = token.GTR
			case token.GTR:
				op = token.LSS
			case token.LEQ:
				op = token.GEQ
			case token.GEQ:
				op = token.LEQ
			}
		}
		const nonEmpty = "decide (n.message.length > 0)"
		switch {
		case l == "len(nodeResponse.Message)" && (op == token.GTR && r == "0" || op == token.NEQ && r == "0" || op == token.GEQ && r == "1"):
			return nonEmpty, nil
		case l == "len(nodeResponse.Message)" && (op == token.EQL && r == "0" || op == token.LSS && r == "1" || op == token.LEQ && r == "0"):
			return "(!" + nonEmpty + ")", nil
		case l == "nodeResponse.Message" && op == token.NEQ && r == `""`:
			return nonEmpty, nil // s != "" ⇔ len(s) > 0
		case l == "nodeResponse.Message" && op == token.EQL && r == `""`:
			return "(!" + nonEmpty + ")", nil
		case l == "nodeResponse.Result" && (op == token.EQL && r == "true" || op == token.NEQ && r == "false"):
			return "n.result", nil
		case l == "nodeResponse.Result" && (op == token.EQL && r == "false" || op == token.NEQ && r == "true"):
			return "(!n.result)", nil
		}
	}
	return "", fmt.Errorf("streamKeyResp: unsupported condition %s", squash(e))
}

// ksNot negates a translated condition, cancelling a double negation.
func ksNot(c string) string {
	if strings.HasPrefix(c, "(!") && strings.HasSuffix(c, ")") {
		inner := c[2 : len(c)-1]
		depth, balanced := 0, true
		for _, ch := range inner {
			if ch == '(' {
				depth++
			} else if ch == ')' {
				depth--
				if depth < 0 {
					balanced = false
				}
			}
		}
		if balanced && depth == 0 && !strings.Contains(inner, " && ") && !strings.Contains(inner, " || ") {
			return inner
		}
	}
	return "(!" + c + ")"
}

type ksEffects struct{ err, msg, keys, prim []string }

func ksOr(ps []string) string {
	if len(ps) == 0 {
		return "false"
	}
	return "(" + strings.Join(ps, " || ") + ")"
}

// ksWalk collects, for every effect statement, the path condition under which it runs.
func ksWalk(stmts []ast.Stmt, path string, ef *ksEffects) error {
	and := func(c string) string {
		if path == "true" {
			return c
		}
		return "(" + path + " && " + c + ")"
	}
	for _, s := range stmts {
		t := squash(s)
		switch x := s.(type) {
		case *ast.IfStmt:
			if x.Init != nil {
				return fmt.Errorf("streamKeyResp: unsupported if with init after the decode: %s", t)
			}
			c, err := ksCond(x.Cond)
			if err != nil {
				return err
			}
			if err := ksWalk(x.Body.List, and(c), ef); err != nil {
				return err
			}
			if x.Else != nil {
				var el []ast.Stmt
				switch e := x.Else.(type) {
				case *ast.BlockStmt:
					el = e.List
				case *ast.IfStmt:
					el = []ast.Stmt{e}
				default:
					return fmt.Errorf("streamKeyResp: unsupported else: %s", t)
				}
				if err := ksWalk(el, and(ksNot(c)), ef); err != nil {
					return err
				}
			}
		case *ast.IncDecStmt:
			switch t {
			case "resp.NumErr++":
				ef.err = append(ef.err, path)
			case "resp.PrimaryKeys[nodeResponse.PrimaryKey]++":
				ef.prim = append(ef.prim, path)
			default:
				return fmt.Errorf("streamKeyResp: unsupported statement %s", t)
			}
		case *ast.AssignStmt:
			if t != "resp.Messages[r.From] = nodeResponse.Message" {
				return fmt.Errorf("streamKeyResp: unsupported assignment %s", t)
			}
			ef.msg = append(ef.msg, path)
		case *ast.RangeStmt:
			// `for _, key := range nodeResponse.Keys { resp.Keys[key]++ }` or `for i := range … { resp.Keys[nodeResponse.Keys[i]]++ }`
			okLoop := squash(x.X) == "nodeResponse.Keys" && len(x.Body.List) == 1
			if okLoop {
				b := squash(x.Body.List[0])
				byValue := x.Value != nil && b == "resp.Keys["+squash(x.Value)+"]++"
				byIndex := x.Value == nil && x.Key != nil && b == "resp.Keys[nodeResponse.Keys["+squash(x.Key)+"]]++"
				okLoop = byValue || byIndex
			}
			if !okLoop {
				return fmt.Errorf("streamKeyResp: unsupported loop %s", t)
			}
			ef.keys = append(ef.keys, path)
		case *ast.ExprStmt:
			if !strings.HasPrefix(t, "k.serf.logger.") {
				return fmt.Errorf("streamKeyResp: unsupported call %s", t)
			}
		default:
			return fmt.Errorf("streamKeyResp: unsupported statement %s", t)
		}
	}
	return nil
}

// ksReject recognises a rejection branch: records a message, counts an error, jumps to NEXT.
func ksReject(b *ast.BlockStmt) (countsErr, gotoNext bool) {
	for _, s := range b.List {
		t := squash(s)
		if t == "resp.NumErr++" {
			countsErr = true
		}
		if t == "goto NEXT" {
			gotoNext = true
		}
	}
	return
}

func genKeyStream(repo string) (string, error) {
	_, f, err := parseFile(repo + "/serf/keymanager.go")
	if err != nil {
		return "", err
	}
	fd := findFunc(f, "KeyManager", "streamKeyResp")
	if fd == nil {
		return "", fmt.Errorf("(KeyManager).streamKeyResp not found")
	}
	tv, err := messageTypeValue(repo, "messageKeyResponseType")
	if err != nil {
		return "", err
	}
	// canonical names for the receiver, the parameters, the loop variable and the decode target, so that a
	// renaming does not change the facts; trivial same-file helpers are inlined one level
	ren := map[string]string{}
	if rn := recvName(fd); rn != "" {
		ren[rn] = "k"
	}
	for _, p := range fd.Type.Params.List {
		for _, n := range p.Names {
			switch squash(p.Type) {
			case "*KeyResponse":
				ren[n.Name] = "resp"
			case "<-chan NodeResponse":
				ren[n.Name] = "ch"
			}
		}
	}
	ast.Inspect(fd.Body, func(n ast.Node) bool {
		switch x := n.(type) {
		case *ast.RangeStmt:
			if id, ok := x.Key.(*ast.Ident); ok && x.Value == nil && x.Tok == token.DEFINE {
				if xid, ok := x.X.(*ast.Ident); ok && (xid.Name == "ch" || ren[xid.Name] == "ch") {
					ren[id.Name] = "r"
				}
			}
		case *ast.ValueSpec:
			if x.Type != nil && squash(x.Type) == "nodeKeyResponse" && len(x.Names) == 1 {
				ren[x.Names[0].Name] = "nodeResponse"
			}
		}
		return true
	})
	renameIdentsQ(fd.Body, ren)
	if fd.Body.List, err = inlineHelpers(f, fd.Body.List); err != nil {
		return "", err
	}
	for _, s := range fd.Body.List {
		if rs, ok := s.(*ast.RangeStmt); ok {
			if rs.Body.List, err = inlineHelpers(f, rs.Body.List); err != nil {
				return "", err
			}
		}
	}
	var loop *ast.RangeStmt
	targetOutside := false
	for _, s := range fd.Body.List {
		switch x := s.(type) {
		case *ast.RangeStmt:
			if loop != nil {
				return "", fmt.Errorf("streamKeyResp: two loops")
			}
			loop = x
		case *ast.DeclStmt:
			if squash(x) == "var nodeResponse nodeKeyResponse" {
				targetOutside = true
			} else {
				return "", fmt.Errorf("streamKeyResp: unsupported declaration %s", squash(x))
			}
		default:
			return "", fmt.Errorf("streamKeyResp: unsupported statement outside the loop: %s", squash(s))
		}
	}
	if loop == nil || squash(loop.X) != "ch" || squash(loop.Key) != "r" {
		return "", fmt.Errorf("streamKeyResp: `for r := range ch` not found")
	}
	var order []string
	fresh, typeErr, decErr := false, false, false
	stop := ""
	var ef ksEffects
	var rest []ast.Stmt
	phase := 0 // 0: before decode, 1: effects, 2: after NEXT
	for _, s := range loop.Body.List {
		t := squash(s)
		if ls, ok := s.(*ast.LabeledStmt); ok {
			if ls.Label.Name != "NEXT" {
				return "", fmt.Errorf("streamKeyResp: unexpected label %s", ls.Label.Name)
			}
			is, ok := ls.Stmt.(*ast.IfStmt)
			if !ok || len(is.Body.List) != 1 || squash(is.Body.List[0]) != "return" {
				return "", fmt.Errorf("streamKeyResp: NEXT is not `if … { return }`")
			}
			stop = squash(is.Cond)
			if phase == 1 {
				order = append(order, "effects")
			}
			order = append(order, "next")
			phase = 2
			continue
		}
		if phase == 2 {
			return "", fmt.Errorf("streamKeyResp: statement after NEXT: %s", t)
		}
		if phase == 1 {
			rest = append(rest, s)
			continue
		}
		switch x := s.(type) {
		case *ast.DeclStmt:
			if t != "var nodeResponse nodeKeyResponse" {
				return "", fmt.Errorf("streamKeyResp: unsupported declaration %s", t)
			}
			fresh = true
			order = append(order, "declTarget")
		case *ast.IncDecStmt:
			if t != "resp.NumResp++" {
				return "", fmt.Errorf("streamKeyResp: unsupported statement %s", t)
			}
			order = append(order, "countResp")
		case *ast.IfStmt:
			c := strings.Replace(squash(x.Cond), "len(r.Payload) == 0", "len(r.Payload) < 1", 1)
			switch {
			case x.Init == nil && c == "len(r.Payload) < 1 || messageType(r.Payload[0]) != messageKeyResponseType":
				e, g := ksReject(x.Body)
				typeErr = e && g
				order = append(order, "typeCheck")
			case x.Init != nil && squash(x.Init) == "err := decodeMessage(r.Payload[1:], &nodeResponse)" && c == "err != nil":
				e, g := ksReject(x.Body)
				decErr = e && g
				order = append(order, "decode")
				phase = 1
			default:
				return "", fmt.Errorf("streamKeyResp: unsupported test before the decode: %s", t)
			}
		default:
			return "", fmt.Errorf("streamKeyResp: unsupported statement %s", t)
		}
	}
	if !fresh && !targetOutside {
		return "", fmt.Errorf("streamKeyResp: declaration of nodeResponse not found")
	}
	if phase != 2 {
		return "", fmt.Errorf("streamKeyResp: decode / NEXT not found")
	}
	if err := ksWalk(rest, "true", &ef); err != nil {
		return "", err
	}
	// handleKeyRequest: what follows the call of streamKeyResp
	hk := findFunc(f, "KeyManager", "handleKeyRequest")
	if hk == nil {
		return "", fmt.Errorf("(KeyManager).handleKeyRequest not found")
	}
	var checks [][2]string
	numNodesSrc := ""
	after := false
	for _, s := range hk.Body.List {
		t := squash(s)
		if t == "k.streamKeyResp(resp, queryResp.respCh)" {
			after = true
			continue
		}
		if as, ok := s.(*ast.AssignStmt); ok && len(as.Lhs) == 1 && squash(as.Lhs[0]) == "resp.NumNodes" {
			if after {
				return "", fmt.Errorf("handleKeyRequest: NumNodes is set after the replies were read")
			}
			numNodesSrc = squash(as.Rhs[0])
		}
		if !after {
			continue
		}
		switch x := s.(type) {
		case *ast.IfStmt:
			if x.Init != nil || x.Else != nil || len(x.Body.List) != 1 {
				return "", fmt.Errorf("handleKeyRequest: unsupported check %s", t)
			}
			r, ok := x.Body.List[0].(*ast.ReturnStmt)
			if !ok || len(r.Results) != 2 || squash(r.Results[0]) != "resp" {
				return "", fmt.Errorf("handleKeyRequest: unsupported check %s", t)
			}
			kind := "other"
			if strings.Contains(squash(r.Results[1]), "nodes reported failure") {
				kind = "failure"
			} else if strings.Contains(squash(r.Results[1]), "nodes reported success") {
				kind = "missing"
			}
			checks = append(checks, [2]string{squash(x.Cond), kind})
		case *ast.ReturnStmt:
			if t != "return resp, nil" {
				return "", fmt.Errorf("handleKeyRequest: unsupported final return %s", t)
			}
		default:
			return "", fmt.Errorf("handleKeyRequest: unsupported statement after streamKeyResp: %s", t)
		}
	}
	if !after {
		return "", fmt.Errorf("handleKeyRequest: call of streamKeyResp not found")
	}
	var b strings.Builder
	b.WriteString("-- GENERATED by /verif/extract from serf/keymanager.go (streamKeyResp, handleKeyRequest) and serf/messages.go — do not edit.\n")
	b.WriteString("import SerfModel.Model.KeyAgg\nnamespace SerfModel.Gen.KeyStream\nopen SerfModel.KeyAgg\n\n")
	fmt.Fprintf(&b, "/-- messageKeyResponseType -/\ndef responseType : Nat := %d\n\n", tv)
	b.WriteString("def shape : StreamShape := { order := [")
	for i, o := range order {
		if i > 0 {
			b.WriteString(", ")
		}
		fmt.Fprintf(&b, "%q", o)
	}
	fmt.Fprintf(&b, "], targetFresh := %v, typeErrCounts := %v, decodeErrCounts := %v, stopTest := %q }\n\n", fresh, typeErr, decErr, stop)
	b.WriteString("/-! Path conditions of the effects for a decoded reply `n`. -/\n")
	fmt.Fprintf(&b, "def errGuard (n : NodeKeyResp) : Bool := %s\n", ksOr(ef.err))
	fmt.Fprintf(&b, "def msgGuard (n : NodeKeyResp) : Bool := %s\n", ksOr(ef.msg))
	fmt.Fprintf(&b, "def keysGuard (n : NodeKeyResp) : Bool := %s\n", ksOr(ef.keys))
	fmt.Fprintf(&b, "def primaryGuard (n : NodeKeyResp) : Bool := %s\n\n", ksOr(ef.prim))
	fmt.Fprintf(&b, "/-- handleKeyRequest: `resp.NumNodes = %s` before the replies are read; the checks after streamKeyResp, in order (condition, error kind) -/\n", numNodesSrc)
	fmt.Fprintf(&b, "def numNodesSource : String := %q\ndef errorChecks : List (String × String) := [", numNodesSrc)
	for i, c := range checks {
		if i > 0 {
			b.WriteString(", ")
		}
		fmt.Fprintf(&b, "(%q, %q)", c[0], c[1])
	}
	b.WriteString("]\n\nend SerfModel.Gen.KeyStream\n")
	return b.String(), nil
}

func init() { addGen("KeyStream", genKeyStream) }
