package main

import (
	"go/ast"
	"go/token"
	"regexp"
	"strings"
)

// Contracts of helper functions (assume–guarantee).  Written over the callee's own
// names with `{len:key}`, `{ptr:key}`, `{v:key}` place-holders.
//
//	requires  assumed at the callee's entry, proved at every call site in the walked functions
//	inv       object invariant: assumed at entry, proved at every exit; after a call the caller
//	          forgets what the callee assigns and re-learns the invariant
//	resultLen / resultVec   length of the returned slice / of the returned coordinate's Vec; proved at every return
//	okFact    holds after `if err := f(…); err != nil { return }`; proved at every `return nil` of f
//	boolMeans the meaning of a boolean result (shape-checked: the body is a single `return a == b`)
type psContract struct {
	requires, inv, resultLen, resultVec, okFact, boolMeans string
}

const psClientInv = "{len:$r.coord.Vec} = {v:$r.config.Dimensionality} ∧ {len:$r.origin.Vec} = {v:$r.config.Dimensionality} ∧ 0 < {v:$r.config.Dimensionality} ∧ 0 < {ptr:$r.latencyFilterSamples} ∧ {len:$r.adjustmentSamples} = {v:$r.config.AdjustmentWindowSize} ∧ ({v:$r.config.AdjustmentWindowSize} ≠ 0 → {v:$r.adjustmentIndex} < {v:$r.config.AdjustmentWindowSize})"

var psContracts = map[string]psContract{
	"serf.upsertIntent":                      {requires: "0 < {ptr:$0}"},
	"coordinate.diff":                        {requires: "{len:$0} = {len:$1}", resultLen: "{len:$0}"},
	"coordinate.add":                         {requires: "{len:$0} = {len:$1}", resultLen: "{len:$0}"},
	"coordinate.mul":                         {resultLen: "{len:$0}"},
	"coordinate.unitVectorAt":                {requires: "{len:$1} = {len:$2} ∧ 0 < {len:$1}", resultLen: "{len:$1}"},
	"coordinate.Coordinate.IsCompatibleWith": {boolMeans: "{len:$r.Vec} = {len:$0.Vec}"},
	"coordinate.Coordinate.DistanceTo":       {requires: "{len:$r.Vec} = {len:$0.Vec}"},
	"coordinate.Coordinate.rawDistanceTo":    {requires: "{len:$r.Vec} = {len:$0.Vec}"},
	"coordinate.Coordinate.ApplyForce":       {requires: "{len:$r.Vec} = {len:$2.Vec} ∧ 0 < {len:$r.Vec}", resultVec: "{len:$r.Vec}"},
	"coordinate.Coordinate.Clone":            {resultVec: "{len:$r.Vec}"},
	"coordinate.NewCoordinate":               {resultVec: "{v:$0.Dimensionality}"},
	"coordinate.Client.checkCoordinate":      {inv: psClientInv, okFact: "{len:$r.coord.Vec} = {len:$0.Vec}"},
	"coordinate.Client.latencyFilter":        {inv: psClientInv, requires: "0 < {v:$r.config.LatencyFilterSize}"},
	"coordinate.Client.updateVivaldi":        {inv: psClientInv, requires: "{len:$r.coord.Vec} = {len:$0.Vec}"},
	"coordinate.Client.updateAdjustment":     {inv: psClientInv, requires: "{len:$r.coord.Vec} = {len:$0.Vec}"},
	"coordinate.Client.updateGravity":        {inv: psClientInv},
	"coordinate.Client.Update":               {inv: psClientInv, requires: "0 < {v:$r.config.LatencyFilterSize}", resultVec: "{v:$r.config.Dimensionality}"},
	"coordinate.Client.GetCoordinate":        {inv: psClientInv, resultVec: "{v:$r.config.Dimensionality}"},
}

var psBrace = regexp.MustCompile(`\{(len|ptr|v):([A-Za-z0-9_.]+)\}`)

// positional replaces `$r` (receiver) and `$0`, `$1`, … (parameters) by the names the function declaration uses, so that the
// contracts do not depend on them.
func positional(c string, fd *ast.FuncDecl) string {
	if fd == nil {
		return c
	}
	if fd.Recv != nil && len(fd.Recv.List) == 1 && len(fd.Recv.List[0].Names) == 1 {
		c = strings.ReplaceAll(c, "$r", fd.Recv.List[0].Names[0].Name)
	}
	i := 0
	for _, fl := range fd.Type.Params.List {
		for _, n := range fl.Names {
			c = strings.ReplaceAll(c, "$"+itoa(i), n.Name)
			i++
		}
	}
	return c
}

// own renders a contract over the walked function's own current variables.
func (w *psWalker) own(c string) string {
	c = positional(c, w.fd)
	return psBrace.ReplaceAllStringFunc(c, func(m string) string {
		g := psBrace.FindStringSubmatch(m)
		return w.lv(g[1], g[2])
	})
}

// instantiate renders the callee's contract over the caller's variables.
func (w *psWalker) instantiate(contract string, fd *ast.FuncDecl, c *ast.CallExpr) string {
	contract = positional(contract, fd)
	args := map[string]ast.Expr{}
	if fd.Recv != nil && len(fd.Recv.List) == 1 && len(fd.Recv.List[0].Names) == 1 {
		if sel, ok := c.Fun.(*ast.SelectorExpr); ok {
			args[fd.Recv.List[0].Names[0].Name] = sel.X
		}
	}
	i := 0
	for _, fl := range fd.Type.Params.List {
		for _, n := range fl.Names {
			if i < len(c.Args) {
				args[n.Name] = c.Args[i]
			}
			i++
		}
	}
	return psBrace.ReplaceAllStringFunc(contract, func(m string) string {
		g := psBrace.FindStringSubmatch(m)
		parts := strings.SplitN(g[2], ".", 2)
		a, ok := args[parts[0]]
		if !ok {
			return w.opaque("t")
		}
		if u, ok := a.(*ast.UnaryExpr); ok && u.Op == token.AND {
			a = u.X
		}
		k := key(a)
		if k == "" {
			if len(parts) == 1 && g[1] == "len" {
				if l, ok := w.resultLen(a, false); ok {
					return l
				}
			}
			if len(parts) == 2 && parts[1] == "Vec" && g[1] == "len" {
				if l, ok := w.resultLen(a, true); ok {
					return l
				}
			}
			return w.opaque("t")
		}
		if len(parts) == 2 {
			k += "." + parts[1]
		}
		return w.lv(g[1], k)
	})
}

// resultLen: length of a call result (or of its .Vec) from the callee's contract.
func (w *psWalker) resultLen(e ast.Expr, vec bool) (string, bool) {
	c, ok := e.(*ast.CallExpr)
	if !ok {
		return "", false
	}
	ck := w.calleeKey(c)
	ct, ok := psContracts[ck]
	if !ok {
		return "", false
	}
	s := ct.resultLen
	if vec {
		s = ct.resultVec
	}
	if s == "" {
		return "", false
	}
	return w.instantiate(s, w.sh.p.funcs[ck], c), true
}

func (w *psWalker) fnKey() string {
	k := w.pkg + "."
	if w.fd.Recv != nil && len(w.fd.Recv.List) == 1 {
		t := w.fd.Recv.List[0].Type
		if s, ok := t.(*ast.StarExpr); ok {
			t = s.X
		}
		if id, ok := t.(*ast.Ident); ok {
			k += id.Name + "."
		}
	}
	return k + w.fd.Name.Name
}

// atExit: obligations at a return (or at the end of the body).
func (w *psWalker) atExit(ret *ast.ReturnStmt) {
	ct, ok := psContracts[w.fnKey()]
	if !ok {
		return
	}
	if ct.inv != "" {
		w.emit("inv", "exit", "object invariant at exit", w.own(ct.inv))
	}
	if ret == nil || len(ret.Results) == 0 {
		return
	}
	r0 := ret.Results[0]
	if ct.okFact != "" && isNil(r0) {
		w.emit("ensures", "ok", "return nil", w.own(ct.okFact))
	}
	if ct.resultLen != "" {
		l := ""
		if k := key(r0); k != "" {
			l = w.lv("len", k)
		} else if s, ok := w.resultLen(r0, false); ok {
			l = s
		} else {
			l = w.opaque("t")
		}
		w.emit("ensures", "len", "return "+psExpr(r0), l+" = "+w.own(ct.resultLen))
	}
	if ct.resultVec != "" && !isNil(r0) {
		l := w.opaque("t")
		if k := key(r0); k != "" {
			l = w.lv("len", k+".Vec")
		} else if s, ok := w.resultLen(r0, true); ok {
			l = s
		} else if u, ok := r0.(*ast.UnaryExpr); ok && u.Op == token.AND {
			if cl, ok := u.X.(*ast.CompositeLit); ok {
				for _, el := range cl.Elts {
					if kv, ok := el.(*ast.KeyValueExpr); ok && psExpr(kv.Key) == "Vec" {
						var sub []string
						l = w.sliceLen(kv.Value, &sub)
					}
				}
			}
		}
		w.emit("ensures", "vec", "return "+psExpr(r0), l+" = "+w.own(ct.resultVec))
	}
}

func (w *psWalker) checkEnsures(ret *ast.ReturnStmt) { w.atExit(ret) }

// afterCall: the callee may assign fields of its receiver; forget those and re-learn its invariant.
func (w *psWalker) afterCall(c *ast.CallExpr) {
	ck := w.calleeKey(c)
	ct, ok := psContracts[ck]
	if !ok || ct.inv == "" {
		return
	}
	fd := w.sh.p.funcs[ck]
	sel, ok := c.Fun.(*ast.SelectorExpr)
	if !ok || fd.Recv == nil || len(fd.Recv.List[0].Names) != 1 {
		return
	}
	rk := key(sel.X)
	rn := fd.Recv.List[0].Names[0].Name
	if rk == "" {
		return
	}
	w.havocCallee(fd, rn, rk, 0)
	w.add(w.instantiate(ct.inv, fd, c), "contract")
}

func (w *psWalker) havocCallee(fd *ast.FuncDecl, rn, rk string, depth int) {
	for _, k := range assignedKeys(fd.Body) {
		if k == rn || strings.HasPrefix(k, rn+".") {
			w.bump(rk + strings.TrimPrefix(k, rn))
		}
	}
	if depth > 3 {
		return
	}
	// methods the callee calls on the same receiver
	ast.Inspect(fd.Body, func(n ast.Node) bool {
		c, ok := n.(*ast.CallExpr)
		if !ok {
			return true
		}
		if sel, ok := c.Fun.(*ast.SelectorExpr); ok {
			if id, ok := sel.X.(*ast.Ident); ok && id.Name == rn {
				recvT := strings.TrimSuffix(w.calleeOwner(fd), ".")
				if fd2, ok := w.sh.p.funcs[recvT+"."+sel.Sel.Name]; ok && fd2.Recv != nil && len(fd2.Recv.List[0].Names) == 1 {
					w.havocCallee(fd2, fd2.Recv.List[0].Names[0].Name, rk, depth+1)
				}
			}
		}
		return true
	})
}

func (w *psWalker) calleeOwner(fd *ast.FuncDecl) string {
	for k, f := range w.sh.p.funcs {
		if f == fd {
			return k[:strings.LastIndex(k, ".")]
		}
	}
	return ""
}

// sliceLen describes the length of a slice-valued expression.
func (w *psWalker) sliceLen(r ast.Expr, sub *[]string) string {
	switch x := r.(type) {
	case *ast.ParenExpr:
		return w.sliceLen(x.X, sub)
	case *ast.SliceExpr:
		lo, hi := "0", w.lenOf(x.X)
		if x.Low != nil {
			lo = w.term(x.Low, sub)
		}
		if x.High != nil {
			hi = w.term(x.High, sub)
		}
		if lo == "0" {
			return hi
		}
		return "(" + hi + " - " + lo + ")"
	case *ast.CompositeLit:
		for _, el := range x.Elts {
			if _, ok := el.(*ast.KeyValueExpr); ok {
				return ""
			}
		}
		return itoa(len(x.Elts))
	case *ast.CallExpr:
		if id, ok := x.Fun.(*ast.Ident); ok {
			switch id.Name {
			case "make":
				if len(x.Args) >= 2 {
					return w.term(x.Args[1], sub)
				}
				return ""
			case "append":
				if x.Ellipsis == token.NoPos && len(x.Args) >= 1 {
					return "(" + w.lenOf(x.Args[0]) + " + " + itoa(len(x.Args)-1) + ")"
				}
				return ""
			}
		}
		if w.isTypeExpr(x.Fun) && len(x.Args) == 1 {
			return w.sliceLen(x.Args[0], sub)
		}
		if l, ok := w.resultLen(x, false); ok {
			return l
		}
		return ""
	}
	if k := key(r); k != "" {
		return w.lv("len", k)
	}
	return ""
}

func itoa(n int) string {
	if n == 0 {
		return "0"
	}
	s := ""
	for n > 0 {
		s = string(rune('0'+n%10)) + s
		n /= 10
	}
	return s
}

type psEffect struct {
	ltV              string // strict upper bound of the integer result
	indexOf          string // the result is -1 or an index below this length (slices.Index / IndexFunc)
	lenV, ptrV, intV string // right-hand descriptions over the OLD versions ("" = unknown)
	ptrPos           bool
	appendGE         string // len_new ≥ this
	vecLen           string // length of the .Vec of the assigned coordinate
	nilSrc           bool
	fields           []psFieldEffect
	typ              psType
}

func (w *psWalker) effect(r ast.Expr) psEffect {
	p := w.sh.p
	ef := psEffect{typ: w.typeOf(r)}
	kind := p.kind(ef.typ)
	var lit *ast.CompositeLit
	if cl, ok := r.(*ast.CompositeLit); ok {
		lit = cl
	}
	if u, ok := r.(*ast.UnaryExpr); ok && u.Op == token.AND {
		if cl, ok := u.X.(*ast.CompositeLit); ok {
			lit = cl
		}
	}
	if lit != nil && p.kind(psType{lit.Type, w.pkg}) == "struct" {
		for _, el := range lit.Elts {
			if kv, ok := el.(*ast.KeyValueExpr); ok {
				fe := w.effect(kv.Value)
				if fe.lenV != "" || fe.ptrPos {
					ef.fields = append(ef.fields, psFieldEffect{psExpr(kv.Key), fe})
				}
			}
		}
	}
	switch x := r.(type) {
	case *ast.UnaryExpr:
		if x.Op == token.AND {
			ef.ptrPos = true
			if cl, ok := x.X.(*ast.CompositeLit); ok {
				for _, el := range cl.Elts {
					if kv, ok := el.(*ast.KeyValueExpr); ok && psExpr(kv.Key) == "Vec" {
						ef.vecLen = w.sliceLen(kv.Value, nil)
					}
				}
			}
			return ef
		}
	case *ast.CompositeLit:
		if kind == "map" {
			ef.ptrPos = true
		}
	case *ast.IndexExpr:
		ck := p.kind(w.typeOf(x.X))
		if kind == "ptr" && (ck == "map" || (ck == "slice" && w.sparseSlice(x.X))) {
			ef.nilSrc = true
		}
	case *ast.CallExpr:
		if id, ok := x.Fun.(*ast.Ident); ok {
			if id.Name == "make" && kind == "map" || id.Name == "new" {
				ef.ptrPos = true
			}
			if id.Name == "append" && x.Ellipsis != token.NoPos && len(x.Args) > 0 {
				ef.appendGE = w.lenOf(x.Args[0])
			}
		}
		if l, ok := w.resultLen(x, true); ok {
			ef.vecLen = l
			ef.ptrPos = true
		}
		if psExpr(x.Fun) == "rand.Intn" && len(x.Args) == 1 {
			ef.ltV = w.term(x.Args[0], nil)
		}
		if f := psExpr(x.Fun); (f == "slices.IndexFunc" || f == "slices.Index") && len(x.Args) == 2 {
			ef.indexOf = w.lenOf(x.Args[0])
		}
	}
	switch kind {
	case "slice", "string":
		ef.lenV = w.sliceLen(r, nil)
		if k := key(r); k != "" {
			ef.ptrV = w.lv("ptr", k)
		}
	case "map", "ptr":
		if k := key(r); k != "" {
			ef.ptrV = w.lv("ptr", k)
			if kind == "ptr" {
				ef.vecLen = w.lv("len", k+".Vec")
			}
		}
	case "int", "bool":
		if t := w.term(r, nil); !strings.HasPrefix(t, "t_") {
			ef.intV = t
		}
	case "unknown":
		switch r.(type) {
		case *ast.BinaryExpr, *ast.BasicLit:
			if t := w.term(r, nil); !strings.HasPrefix(t, "t_") {
				ef.intV = t
			}
		}
		if l := w.sliceLen(r, nil); l != "" {
			if _, isKey := r.(*ast.Ident); !isKey {
				ef.lenV = l
			}
		}
	}
	return ef
}

func (w *psWalker) apply(l ast.Expr, ef psEffect, define bool, declType ast.Expr) {
	k := key(l)
	if k == "" {
		return
	}
	w.bump(k)
	if id, ok := l.(*ast.Ident); ok {
		if declType != nil {
			w.types[id.Name] = psType{declType, w.pkg}
		} else if define || w.types[id.Name].e == nil {
			if ef.typ.e != nil || define {
				w.types[id.Name] = ef.typ
			}
		}
		if ef.nilSrc {
			w.nilable[id.Name] = true
		} else if define {
			delete(w.nilable, id.Name)
		}
	}
	if ef.lenV != "" {
		w.add(w.lv("len", k)+" = "+ef.lenV, "guard")
	}
	if ef.appendGE != "" {
		w.add(ef.appendGE+" ≤ "+w.lv("len", k), "guard")
	}
	if ef.ptrPos {
		w.add("0 < "+w.lv("ptr", k), "guard")
	} else if ef.ptrV != "" {
		w.add(w.lv("ptr", k)+" = "+ef.ptrV, "guard")
	}
	if ef.intV != "" {
		w.add(w.lv("v", k)+" = "+ef.intV, "guard")
	}
	if ef.indexOf != "" {
		w.indexLike[k] = true
		w.facts = append(w.facts, psHyp{prop: w.lv("v", "neg."+k) + " = 1 ∨ " + w.lv("v", k) + " < " + ef.indexOf,
			tag: "library: slices.Index/IndexFunc return -1 or an index of the slice"})
	}
	if ef.ltV != "" {
		w.facts = append(w.facts, psHyp{prop: w.lv("v", k) + " < " + ef.ltV, tag: "library: rand.Intn(n) returns a value in [0, n)"})
	}
	if ef.vecLen != "" {
		w.add(w.lv("len", k+".Vec")+" = "+ef.vecLen, "guard")
	}
	for _, fe := range ef.fields {
		if fe.ef.lenV != "" {
			w.add(w.lv("len", k+"."+fe.name)+" = "+fe.ef.lenV, "guard")
		}
		if fe.ef.ptrPos {
			w.add("0 < "+w.lv("ptr", k+"."+fe.name), "guard")
		}
	}
}

type psFieldEffect struct {
	name string
	ef   psEffect
}

// sparseSlice: a slice of pointers that may hold nil entries — a field of a message* struct (filled
// by the decoder from network bytes) or a field the package initialises with make([]*T, n).
func (w *psWalker) sparseSlice(e ast.Expr) bool {
	sel, ok := e.(*ast.SelectorExpr)
	if !ok {
		_, isIdent := e.(*ast.Ident)
		return !isIdent // a slice parameter/local handed in by the caller is taken to hold no nil entries
	}
	sk := w.sh.p.typeKey(w.typeOf(sel.X))
	if sk == "" {
		return true
	}
	if strings.HasPrefix(strings.SplitN(sk, ".", 2)[1], "message") {
		return true
	}
	sparse := false
	for _, f := range w.sh.p.files {
		ast.Inspect(f, func(n ast.Node) bool {
			as, ok := n.(*ast.AssignStmt)
			if !ok || len(as.Lhs) != 1 || len(as.Rhs) != 1 {
				return true
			}
			l, ok := as.Lhs[0].(*ast.SelectorExpr)
			if !ok || l.Sel.Name != sel.Sel.Name {
				return true
			}
			if c, ok := as.Rhs[0].(*ast.CallExpr); ok && psExpr(c.Fun) == "make" && len(c.Args) == 2 {
				if v, lit := intLitValue(c.Args[1]); !lit || v != 0 {
					sparse = true
				}
			}
			return true
		})
	}
	return sparse
}

func (w *psWalker) assign(lhs, rhs []ast.Expr, tok token.Token, declType ast.Expr) {
	p := w.sh.p
	// right-hand sides
	commaOK := len(lhs) == 2 && len(rhs) == 1
	for _, r := range rhs {
		if ta, ok := r.(*ast.TypeAssertExpr); ok && commaOK {
			w.scan(ta.X)
			continue
		}
		w.scan(r)
	}
	// left-hand sides
	for _, l := range lhs {
		switch x := l.(type) {
		case *ast.IndexExpr:
			if p.kind(w.typeOf(x.X)) == "map" {
				w.scan(x.X)
				w.scan(x.Index)
				w.mapWrite(x)
			} else {
				w.scan(x)
			}
		case *ast.Ident:
		default:
			w.scan(l)
		}
	}
	if tok != token.ASSIGN && tok != token.DEFINE {
		// op-assignment
		if len(lhs) == 1 && len(rhs) == 1 {
			if k := key(lhs[0]); k != "" {
				old := w.lv("v", k)
				isInt := p.kind(w.typeOf(lhs[0])) == "int"
				t := w.term(rhs[0], nil)
				w.bump(k)
				if isInt && tok == token.ADD_ASSIGN {
					w.add(w.lv("v", k)+" = "+old+" + "+t, "guard")
				}
			}
		}
		return
	}
	if len(lhs) == len(rhs) {
		efs := make([]psEffect, len(rhs))
		for i, r := range rhs {
			efs[i] = w.effect(r)
		}
		for i, l := range lhs {
			w.apply(l, efs[i], tok == token.DEFINE, declType)
		}
		for _, r := range rhs {
			if c, ok := r.(*ast.CallExpr); ok {
				w.afterCall(c)
			}
		}
		return
	}
	if len(rhs) != 1 {
		return
	}
	// multi-value: call results, v, ok := m[k], v, ok := x.(T), v, ok := <-ch
	switch r := rhs[0].(type) {
	case *ast.CallExpr:
		for i, l := range lhs {
			ef := psEffect{typ: w.callType(r, i)}
			if i == 0 {
				if ln, ok := w.resultLen(r, false); ok {
					ef.lenV = ln
				}
				if ln, ok := w.resultLen(r, true); ok {
					ef.vecLen = ln
					ef.ptrPos = true
				}
			}
			w.apply(l, ef, tok == token.DEFINE, nil)
		}
		w.afterCall(r)
	case *ast.IndexExpr:
		et := w.typeOf(r)
		w.apply(lhs[0], psEffect{typ: et}, tok == token.DEFINE, nil)
		w.apply(lhs[1], psEffect{typ: psType{ast.NewIdent("bool"), w.pkg}}, tok == token.DEFINE, nil)
		if p.kind(et) == "ptr" {
			if id, ok := lhs[0].(*ast.Ident); ok && key(lhs[1]) != "" {
				w.nilable[id.Name] = true
				w.add(w.lv("v", key(lhs[1]))+" = 1 → 0 < "+w.lv("ptr", id.Name), "inv: the map never stores a nil pointer (every insertion in the package stores &T{…} or a checked value)")
			}
		}
	default:
		for i, l := range lhs {
			ef := psEffect{}
			if i == 0 {
				ef.typ = w.typeOf(rhs[0])
			} else {
				ef.typ = psType{ast.NewIdent("bool"), w.pkg}
			}
			w.apply(l, ef, tok == token.DEFINE, nil)
		}
	}
}

// mapWrite: `m[k] = v` panics on a nil map.
func (w *psWalker) mapWrite(x *ast.IndexExpr) {
	k := key(x.X)
	if k == "" {
		w.emit("mapwrite", psExpr(x.X), psExpr(x)+" = …", "0 < "+w.opaque("t"))
		return
	}
	var extra []psHyp
	if sel, ok := x.X.(*ast.SelectorExpr); ok {
		if sk := w.sh.p.typeKey(w.typeOf(sel.X)); sk != "" {
			if why := fieldAlwaysMade(w.sh.p, sk, sel.Sel.Name); why != "" {
				extra = append(extra, psHyp{prop: "0 < " + w.lv("ptr", k), tag: "inv: " + why})
			}
		}
	}
	w.emit("mapwrite", psExpr(x.X), psExpr(x)+" = …", "0 < "+w.lv("ptr", k), extra...)
}

func isMakeOrLit(e ast.Expr) bool {
	switch x := e.(type) {
	case *ast.CallExpr:
		id, ok := x.Fun.(*ast.Ident)
		return ok && id.Name == "make"
	case *ast.CompositeLit:
		return true
	}
	return false
}

// fieldAlwaysMade: non-empty justification when every composite literal of the struct in its
// package sets the field with make(…)/a literal, or (for fields no literal sets) the constructor
// assigns make(…) to it in a top-level statement of its body; and no other assignment stores
// anything else.
func fieldAlwaysMade(p *psPkgs, structKey, field string) string {
	pkg := strings.SplitN(structKey, ".", 2)[0]
	name := strings.SplitN(structKey, ".", 2)[1]
	lits, litsWith := 0, 0
	topLevelMake := ""
	bad := false
	for fn, f := range p.files {
		if !strings.HasPrefix(fn, pkg+"/") {
			continue
		}
		ast.Inspect(f, func(n ast.Node) bool {
			switch x := n.(type) {
			case *ast.CompositeLit:
				if id, ok := x.Type.(*ast.Ident); ok && id.Name == name {
					lits++
					for _, el := range x.Elts {
						if kv, ok := el.(*ast.KeyValueExpr); ok && psExpr(kv.Key) == field {
							if isMakeOrLit(kv.Value) {
								litsWith++
							} else {
								bad = true
							}
						}
					}
				}
			case *ast.FuncDecl:
				if x.Body == nil {
					return true
				}
				for _, s := range x.Body.List {
					if as, ok := s.(*ast.AssignStmt); ok && len(as.Lhs) == 1 && len(as.Rhs) == 1 {
						if sel, ok := as.Lhs[0].(*ast.SelectorExpr); ok && sel.Sel.Name == field && isMakeOrLit(as.Rhs[0]) {
							topLevelMake = x.Name.Name
						}
					}
				}
			}
			return true
		})
	}
	if bad {
		return ""
	}
	if lits > 0 && litsWith == lits {
		return "every " + name + "{…} literal in the package sets " + field + " with make(…)"
	}
	if litsWith == 0 && topLevelMake != "" && lits == 1 {
		return "the only " + name + "{…} literal is in the constructor and " + topLevelMake + " assigns " + field + " = make(…) unconditionally"
	}
	return ""
}
