package main

import (
	"fmt"
	"go/ast"
	"go/token"
	"os"
	"strconv"
	"strings"
)

// Translation of the member filter (cmd/serf/command/agent/ipc.go) into the vocabulary of
// SerfModel/Model/Regex.lean (CompileStep, Guard, FilterShape).
//
// The translation goes by MEANING, not by text: locals, parameters, the receiver, the loop label
// and the helper may have any names (roles are discovered from how a variable is defined), string
// literals may be hoisted into function-local or package constants, `fmt.Sprintf(f, x)` may be
// written as a concatenation, `p != ""` as `len(p) > 0` / `len(p) != 0`, `a && b` guards as nested
// ifs, `for _, m := range ms` as `for i := range ms { m := ms[i] … }`, the validate-alone step as
// an if with init / two statements / a flipped if-else, the helper may be inlined at the call
// sites, error messages are irrelevant.  What is pinned is what the theorems need:
//
//   - how a filter expression becomes a compiled expression: [.validateAlone, .wrap <format>] …
//   - which expressions are compiled (every tag value, status, name), each error return carrying a
//     nil list, the tag loop storing exactly one compiled expression per requested tag;
//   - the member loop, guard by guard (.tags .valueOrEmpty | .tags .presentOnly | .field f skip),
//     each guard using the expression compiled from ITS filter on ITS subject, the survivor appended last;
//   - handleMembers returning the filter's error before anything is sent.
//
// Anything else is an error (the check then reports a broken obligation and looks for a failing input).

type fmCtx struct {
	consts                      map[string]string // constant name → string value
	members, tags, status, name string            // parameter names
	result, tagsRe              string
	siteArg                     map[string]string // compiled-expression variable → role ("status", "name")
	helpers                     map[string][]string
}

// strLit resolves a string literal or a constant with a string value.
func (c *fmCtx) strLit(e ast.Expr) (string, bool) {
	switch x := e.(type) {
	case *ast.BasicLit:
		if x.Kind != token.STRING {
			return "", false
		}
		s, err := strconv.Unquote(x.Value)
		return s, err == nil
	case *ast.Ident:
		s, ok := c.consts[x.Name]
		return s, ok
	case *ast.ParenExpr:
		return c.strLit(x.X)
	}
	return "", false
}

func (c *fmCtx) addConsts(d ast.Decl) bool {
	gd, ok := d.(*ast.GenDecl)
	if !ok || gd.Tok != token.CONST {
		return false
	}
	for _, sp := range gd.Specs {
		vs := sp.(*ast.ValueSpec)
		for i, n := range vs.Names {
			if i < len(vs.Values) {
				if s, ok := c.strLit(vs.Values[i]); ok {
					c.consts[n.Name] = s
				}
			}
		}
	}
	return true
}

// template recognises the anchoring of `arg`: fmt.Sprintf(<format>, arg) or a concatenation
// of string constants and arg; returns the format with %s for arg.
func (c *fmCtx) template(e ast.Expr, arg string) (string, bool) {
	if call, ok := e.(*ast.CallExpr); ok {
		if exprString(call.Fun) != "fmt.Sprintf" || len(call.Args) != 2 || !isIdent(call.Args[1], arg) {
			return "", false
		}
		return c.strLit(call.Args[0])
	}
	var parts func(e ast.Expr) (string, bool)
	parts = func(e ast.Expr) (string, bool) {
		if isIdent(e, arg) {
			return "%s", true
		}
		if s, ok := c.strLit(e); ok {
			return strings.ReplaceAll(s, "%", "%%"), true
		}
		if p, ok := e.(*ast.ParenExpr); ok {
			return parts(p.X)
		}
		if b, ok := e.(*ast.BinaryExpr); ok && b.Op == token.ADD {
			l, ok1 := parts(b.X)
			r, ok2 := parts(b.Y)
			return l + r, ok1 && ok2
		}
		return "", false
	}
	f, ok := parts(e)
	if !ok || strings.Count(f, "%s") != 1 {
		return "", false
	}
	return f, true
}

// compileCall recognises regexp.Compile(<x>) / regexp.MustCompile is not accepted.
func compileCall(e ast.Expr) (ast.Expr, bool) {
	c, ok := e.(*ast.CallExpr)
	if !ok || exprString(c.Fun) != "regexp.Compile" || len(c.Args) != 1 {
		return nil, false
	}
	return c.Args[0], true
}

// errReturn recognises a block `return nil, <non-nil>` (the error text is irrelevant).
func errReturn(b *ast.BlockStmt) bool {
	if len(b.List) != 1 {
		return false
	}
	r, ok := b.List[0].(*ast.ReturnStmt)
	return ok && len(r.Results) == 2 && isIdent(r.Results[0], "nil") && !isIdent(r.Results[1], "nil")
}

// errCheck recognises `if <e> != nil { return nil, … }`.
func errCheck(st ast.Stmt, e string) bool {
	s, ok := st.(*ast.IfStmt)
	if !ok || s.Init != nil || s.Else != nil {
		return false
	}
	b, ok := s.Cond.(*ast.BinaryExpr)
	return ok && b.Op == token.NEQ && isIdent(b.X, e) && isIdent(b.Y, "nil") && errReturn(s.Body)
}

// validateStmts recognises the validate-alone step on `arg` at the head of stmts; returns how many
// statements it takes (0 = not there).
func validateStmts(stmts []ast.Stmt, arg string) int {
	if len(stmts) == 0 {
		return 0
	}
	// if _, err := regexp.Compile(arg); err != nil { return nil, … }
	if s, ok := stmts[0].(*ast.IfStmt); ok && s.Init != nil && s.Else == nil {
		if as, ok := s.Init.(*ast.AssignStmt); ok && len(as.Lhs) == 2 && len(as.Rhs) == 1 && isIdent(as.Lhs[0], "_") {
			if x, ok := compileCall(as.Rhs[0]); ok && isIdent(x, arg) {
				e := exprString(as.Lhs[1])
				if b, ok := s.Cond.(*ast.BinaryExpr); ok && b.Op == token.NEQ && isIdent(b.X, e) && isIdent(b.Y, "nil") && errReturn(s.Body) {
					return 1
				}
			}
		}
	}
	// _, err := regexp.Compile(arg); if err != nil { return nil, … }
	if as, ok := stmts[0].(*ast.AssignStmt); ok && len(stmts) >= 2 && len(as.Lhs) == 2 && len(as.Rhs) == 1 && isIdent(as.Lhs[0], "_") {
		if x, ok := compileCall(as.Rhs[0]); ok && isIdent(x, arg) && errCheck(stmts[1], exprString(as.Lhs[1])) {
			return 2
		}
	}
	return 0
}

// helperSteps translates a helper func(<p> string) (*regexp.Regexp, error).
func (c *fmCtx) helperSteps(fd *ast.FuncDecl) ([]string, error) {
	if fd.Type.Params == nil || len(fd.Type.Params.List) != 1 || len(fd.Type.Params.List[0].Names) != 1 ||
		exprString(fd.Type.Params.List[0].Type) != "string" || fd.Type.Results == nil || len(fd.Type.Results.List) != 2 ||
		exprString(fd.Type.Results.List[0].Type) != "*regexp.Regexp" || exprString(fd.Type.Results.List[1].Type) != "error" {
		return nil, fmt.Errorf("%s: unsupported signature %s", fd.Name.Name, exprString(fd.Type))
	}
	p := fd.Type.Params.List[0].Names[0].Name
	stmts := fd.Body.List
	var steps []string
	// flipped form: if _, err := regexp.Compile(p); err == nil { return <wrap> } [else { return nil, err }] [return nil, err]
	if len(stmts) >= 1 {
		if s, ok := stmts[0].(*ast.IfStmt); ok && s.Init != nil {
			if as, ok := s.Init.(*ast.AssignStmt); ok && len(as.Lhs) == 2 && len(as.Rhs) == 1 && isIdent(as.Lhs[0], "_") {
				if x, ok := compileCall(as.Rhs[0]); ok && isIdent(x, p) {
					e := exprString(as.Lhs[1])
					if b, ok := s.Cond.(*ast.BinaryExpr); ok && b.Op == token.EQL && isIdent(b.X, e) && isIdent(b.Y, "nil") && len(s.Body.List) == 1 {
						tail := stmts[1:]
						okTail := false
						if eb, ok := s.Else.(*ast.BlockStmt); ok && errReturn(eb) && len(tail) == 0 {
							okTail = true
						}
						if s.Else == nil && len(tail) == 1 {
							if r, ok := tail[0].(*ast.ReturnStmt); ok && len(r.Results) == 2 && isIdent(r.Results[0], "nil") && !isIdent(r.Results[1], "nil") {
								okTail = true
							}
						}
						if r, ok := s.Body.List[0].(*ast.ReturnStmt); ok && okTail && len(r.Results) == 1 {
							if x, ok := compileCall(r.Results[0]); ok {
								if f, ok := c.template(x, p); ok {
									return []string{".validateAlone", fmt.Sprintf(".wrap %q", f)}, nil
								}
							}
						}
					}
				}
			}
		}
	}
	for len(stmts) > 0 {
		if _, ok := stmts[0].(*ast.DeclStmt); ok {
			if gd, ok := stmts[0].(*ast.DeclStmt).Decl.(*ast.GenDecl); ok && c.addConsts(gd) {
				stmts = stmts[1:]
				continue
			}
		}
		if n := validateStmts(stmts, p); n > 0 {
			steps = append(steps, ".validateAlone")
			stmts = stmts[n:]
			continue
		}
		if r, ok := stmts[0].(*ast.ReturnStmt); ok && len(stmts) == 1 && len(r.Results) == 1 {
			if x, ok := compileCall(r.Results[0]); ok {
				if f, ok := c.template(x, p); ok {
					steps = append(steps, fmt.Sprintf(".wrap %q", f))
					return steps, nil
				}
			}
		}
		return nil, fmt.Errorf("%s: unsupported statement %s", fd.Name.Name, exprString(stmts[0]))
	}
	return nil, fmt.Errorf("%s: no compiled expression is returned", fd.Name.Name)
}

// site recognises `<v>, <e> := <helper>(<arg>)` or `<v>, <e> := regexp.Compile(<template of arg>)`;
// returns the variable, the error variable, the argument and the compile steps.
func (c *fmCtx) site(f *ast.File, st ast.Stmt) (v, e, arg string, steps []string, ok bool, err error) {
	as, isAs := st.(*ast.AssignStmt)
	if !isAs || len(as.Rhs) != 1 || len(as.Lhs) != 2 {
		return
	}
	call, isCall := as.Rhs[0].(*ast.CallExpr)
	if !isCall {
		return
	}
	v, e = exprString(as.Lhs[0]), exprString(as.Lhs[1])
	if x, isC := compileCall(call); isC {
		// paste-then-compile at the site: find the argument among the identifiers of the template
		var found string
		ast.Inspect(x, func(n ast.Node) bool {
			if id, ok := n.(*ast.Ident); ok && found == "" {
				if _, isConst := c.consts[id.Name]; !isConst && id.Name != "fmt" && id.Name != "Sprintf" {
					found = id.Name
				}
			}
			return true
		})
		fmtS, okT := c.template(x, found)
		if !okT {
			err = fmt.Errorf("unsupported use of package regexp: %s", exprString(call))
			return
		}
		return v, e, found, []string{fmt.Sprintf(".wrap %q", fmtS)}, true, nil
	}
	fn, isId := call.Fun.(*ast.Ident)
	if !isId || len(call.Args) != 1 {
		return
	}
	h := findFunc(f, "", fn.Name)
	if h == nil || h.Type.Results == nil || len(h.Type.Results.List) != 2 || exprString(h.Type.Results.List[0].Type) != "*regexp.Regexp" {
		return
	}
	id, isArg := call.Args[0].(*ast.Ident)
	if !isArg {
		err = fmt.Errorf("%s of a non-identifier: %s", fn.Name, exprString(call))
		return
	}
	st2, ok2 := c.helpers[fn.Name]
	if !ok2 {
		st2, err = c.helperSteps(h)
		if err != nil {
			return
		}
		c.helpers[fn.Name] = st2
	}
	return v, e, id.Name, st2, true, nil
}

// nonEmpty recognises p != "" / "" != p / len(p) > 0 / len(p) != 0 and returns p.
func nonEmpty(e ast.Expr) (string, bool) {
	if p, ok := e.(*ast.ParenExpr); ok {
		return nonEmpty(p.X)
	}
	b, ok := e.(*ast.BinaryExpr)
	if !ok {
		return "", false
	}
	isEmpty := func(x ast.Expr) bool { l, ok := x.(*ast.BasicLit); return ok && l.Value == `""` }
	if b.Op == token.NEQ {
		if id, ok := b.X.(*ast.Ident); ok && isEmpty(b.Y) {
			return id.Name, true
		}
		if id, ok := b.Y.(*ast.Ident); ok && isEmpty(b.X) {
			return id.Name, true
		}
	}
	if (b.Op == token.GTR || b.Op == token.NEQ) && isLit(b.Y, "0") {
		if c, ok := b.X.(*ast.CallExpr); ok && isIdent(c.Fun, "len") && len(c.Args) == 1 {
			if id, ok := c.Args[0].(*ast.Ident); ok {
				return id.Name, true
			}
		}
	}
	return "", false
}

// negMatch recognises !<re>.MatchString(<subject>).
func negMatch(e ast.Expr) (re, subject ast.Expr, ok bool) {
	if p, isP := e.(*ast.ParenExpr); isP {
		return negMatch(p.X)
	}
	u, ok := e.(*ast.UnaryExpr)
	if !ok || u.Op != token.NOT {
		return nil, nil, false
	}
	c, ok := u.X.(*ast.CallExpr)
	if !ok || len(c.Args) != 1 {
		return nil, nil, false
	}
	sel, ok := c.Fun.(*ast.SelectorExpr)
	if !ok || sel.Sel.Name != "MatchString" {
		return nil, nil, false
	}
	return sel.X, c.Args[0], true
}

// isContinue: the block is a single `continue` ("" = to the innermost loop, otherwise to that label;
// anyOuter accepts both a bare continue and a continue to the given label).
func isContinue(b *ast.BlockStmt, label string) bool {
	if len(b.List) != 1 {
		return false
	}
	br, ok := b.List[0].(*ast.BranchStmt)
	if !ok || br.Tok != token.CONTINUE {
		return false
	}
	if label == "" {
		return br.Label == nil
	}
	return br.Label != nil && br.Label.Name == label
}

func sameSteps(a, b []string) bool { return strings.Join(a, "|") == strings.Join(b, "|") }

func genAnchorTemplate(repo string) (string, error) {
	_, f, err := parseFile(repo + "/cmd/serf/command/agent/ipc.go")
	if err != nil {
		return "", err
	}
	fd := findFunc(f, "AgentIPC", "filterMembers")
	if fd == nil {
		return "", fmt.Errorf("filterMembers not found")
	}
	c := &fmCtx{consts: map[string]string{}, siteArg: map[string]string{}, helpers: map[string][]string{}}
	for _, d := range f.Decls {
		c.addConsts(d)
	}
	// parameters by position and type
	var ptypes, pnames []string
	for _, p := range fd.Type.Params.List {
		for _, n := range p.Names {
			pnames = append(pnames, n.Name)
			ptypes = append(ptypes, exprString(p.Type))
		}
	}
	if strings.Join(ptypes, ";") != "[]serf.Member;map[string]string;string;string" || fd.Type.Results == nil || len(fd.Type.Results.List) != 2 ||
		exprString(fd.Type.Results.List[0].Type) != "[]serf.Member" || exprString(fd.Type.Results.List[1].Type) != "error" {
		return "", fmt.Errorf("filterMembers signature %s", exprString(fd.Type))
	}
	c.members, c.tags, c.status, c.name = pnames[0], pnames[1], pnames[2], pnames[3]

	var steps []string
	setSteps := func(s []string) error {
		if steps == nil {
			steps = s
			return nil
		}
		if !sameSteps(steps, s) {
			return fmt.Errorf("the filter expressions are not all compiled the same way: %v vs %v", steps, s)
		}
		return nil
	}
	compiled := map[string]bool{} // roles compiled: "tags[tag]", "status", "name"
	nilOnError := true
	var loop *ast.RangeStmt
	label := ""
	sawReturn := false
	stmts := fd.Body.List
	for i := 0; i < len(stmts); i++ {
		st := stmts[i]
		if sawReturn {
			return "", fmt.Errorf("statement after the final return")
		}
		// inline validation before a site: if _, err := regexp.Compile(p); …
		for _, role := range []string{c.status, c.name} {
			if n := validateStmts(stmts[i:], role); n > 0 && i+n < len(stmts) {
				v, e, arg, st2, ok, err := c.site(f, stmts[i+n])
				if err != nil {
					return "", err
				}
				if ok && arg == role && i+n+1 < len(stmts) && errCheck(stmts[i+n+1], e) {
					if err := setSteps(append([]string{".validateAlone"}, st2...)); err != nil {
						return "", err
					}
					c.siteArg[v] = map[string]string{c.status: "status", c.name: "name"}[arg]
					compiled[c.siteArg[v]] = true
					i += n + 1
					st = nil
				}
				break
			}
		}
		if st == nil {
			continue
		}
		switch s := st.(type) {
		case *ast.DeclStmt:
			gd, ok := s.Decl.(*ast.GenDecl)
			if ok && c.addConsts(gd) {
				continue
			}
			if ok && gd.Tok == token.VAR && len(gd.Specs) == 1 {
				vs := gd.Specs[0].(*ast.ValueSpec)
				if len(vs.Names) == 1 && vs.Type != nil && len(vs.Values) == 0 && exprString(vs.Type) == "[]serf.Member" && c.result == "" {
					c.result = vs.Names[0].Name
					continue
				}
			}
			return "", fmt.Errorf("unsupported declaration %s", exprString(s))
		case *ast.AssignStmt:
			if v, e, arg, st2, ok, err := c.site(f, s); err != nil {
				return "", err
			} else if ok {
				role := map[string]string{c.status: "status", c.name: "name"}[arg]
				if role == "" || compiled[role] {
					return "", fmt.Errorf("unsupported compile statement %s", exprString(s))
				}
				if i+1 >= len(stmts) || !errCheck(stmts[i+1], e) {
					nilOnError = false
					return "", fmt.Errorf("the error of %s is not returned (with a nil list) right away", exprString(s))
				}
				if err := setSteps(st2); err != nil {
					return "", err
				}
				c.siteArg[v] = role
				compiled[role] = true
				i++
				continue
			}
			if len(s.Lhs) == 1 && len(s.Rhs) == 1 && s.Tok == token.DEFINE {
				rhs := exprString(s.Rhs[0])
				lhs := exprString(s.Lhs[0])
				switch {
				case (strings.HasPrefix(rhs, "make([]serf.Member, 0") || rhs == "[]serf.Member{}") && c.result == "":
					c.result = lhs
					continue
				case (strings.HasPrefix(rhs, "make(map[string]*regexp.Regexp") || rhs == "map[string]*regexp.Regexp{}") && c.tagsRe == "":
					c.tagsRe = lhs
					continue
				}
			}
			return "", fmt.Errorf("unsupported statement %s", exprString(s))
		case *ast.RangeStmt:
			if isIdent(s.X, c.members) && loop == nil {
				loop = s // an unlabeled member loop
				continue
			}
			// the tag pre-compile loop: for K, V := range tags { [validate V;] re, err := <compile>(V); if err != nil { return nil, … }; tagsRe[K] = re }
			if !isIdent(s.X, c.tags) || s.Key == nil || s.Value == nil || c.tagsRe == "" || compiled["tags[tag]"] {
				return "", fmt.Errorf("unsupported loop over %s", exprString(s.X))
			}
			k, val := exprString(s.Key), exprString(s.Value)
			body := s.Body.List
			pre := []string{}
			if n := validateStmts(body, val); n > 0 {
				pre = []string{".validateAlone"}
				body = body[n:]
			}
			if len(body) != 3 {
				return "", fmt.Errorf("tag loop: unsupported body %s", exprString(s.Body))
			}
			v, e, arg, st2, ok, err := c.site(f, body[0])
			if err != nil {
				return "", err
			}
			if !ok || arg != val || !errCheck(body[1], e) {
				return "", fmt.Errorf("tag loop does not compile its value and return its error: %s", exprString(s.Body))
			}
			l, r, okA := singleAssign(body[2])
			ix, okI := l.(*ast.IndexExpr)
			if !okA || !okI || !isIdent(ix.X, c.tagsRe) || !isIdent(ix.Index, k) || !isIdent(r, v) {
				return "", fmt.Errorf("tag loop: unsupported %s", exprString(body[2]))
			}
			if err := setSteps(append(pre, st2...)); err != nil {
				return "", err
			}
			compiled["tags[tag]"] = true
		case *ast.LabeledStmt:
			r, ok := s.Stmt.(*ast.RangeStmt)
			if !ok || loop != nil {
				return "", fmt.Errorf("unsupported labeled statement")
			}
			loop, label = r, s.Label.Name
		case *ast.ReturnStmt:
			if len(s.Results) != 2 || !isIdent(s.Results[0], c.result) || !isIdent(s.Results[1], "nil") {
				return "", fmt.Errorf("unsupported final return %s", exprString(s))
			}
			sawReturn = true
		default:
			return "", fmt.Errorf("unsupported statement %s", exprString(st))
		}
	}
	if loop == nil || !sawReturn || c.result == "" {
		return "", fmt.Errorf("member loop, result list or final return not found")
	}
	if !compiled["tags[tag]"] || !compiled["status"] || !compiled["name"] {
		return "", fmt.Errorf("not every filter expression is compiled: %v", compiled)
	}
	// the member loop: for _, m := range members   |   for i := range members { m := members[i]; … }
	body := loop.Body.List
	var m string
	switch {
	case isIdent(loop.X, c.members) && isIdent(loop.Key, "_") && loop.Value != nil:
		m = exprString(loop.Value)
	case isIdent(loop.X, c.members) && loop.Key != nil && loop.Value == nil && len(body) > 0:
		as, ok := body[0].(*ast.AssignStmt)
		if !ok || len(as.Lhs) != 1 || len(as.Rhs) != 1 || exprString(as.Rhs[0]) != c.members+"["+exprString(loop.Key)+"]" {
			return "", fmt.Errorf("unsupported member loop header")
		}
		m = exprString(as.Lhs[0])
		body = body[1:]
	default:
		return "", fmt.Errorf("the member loop does not range over the members")
	}
	if len(body) == 0 || exprString(body[len(body)-1]) != fmt.Sprintf("%s = append(%s, %s)", c.result, c.result, m) {
		return "", fmt.Errorf("member loop does not end by appending the member to the result")
	}
	outerContinue := func(b *ast.BlockStmt, inner bool) bool {
		if inner {
			return label != "" && isContinue(b, label)
		}
		return isContinue(b, "") || (label != "" && isContinue(b, label))
	}
	tagRead := func(e ast.Expr, k string) bool { return exprString(e) == m+".Tags["+k+"]" }
	var guards []string
	seenField := map[string]bool{}
	for _, st := range body[:len(body)-1] {
		switch s := st.(type) {
		case *ast.RangeStmt:
			if s.Key == nil {
				return "", fmt.Errorf("unsupported loop in the member loop: %s", exprString(s))
			}
			k := exprString(s.Key)
			// which compiled expression does the guard use?
			reOK := func(re ast.Expr) bool {
				if isIdent(s.X, c.tags) && (s.Value == nil || isIdent(s.Value, "_")) {
					return exprString(re) == c.tagsRe+"["+k+"]"
				}
				if isIdent(s.X, c.tagsRe) && s.Value != nil {
					return isIdent(re, exprString(s.Value))
				}
				return false
			}
			switch len(s.Body.List) {
			case 1:
				ifs, ok := s.Body.List[0].(*ast.IfStmt)
				if !ok || ifs.Init != nil || ifs.Else != nil || !outerContinue(ifs.Body, true) {
					return "", fmt.Errorf("unsupported tag guard %s", exprString(s))
				}
				re, subj, ok := negMatch(ifs.Cond)
				if !ok || !reOK(re) || !tagRead(subj, k) {
					return "", fmt.Errorf("unsupported tag guard %s", exprString(ifs.Cond))
				}
				guards = append(guards, ".tags .valueOrEmpty")
			case 2:
				as, ok := s.Body.List[0].(*ast.AssignStmt)
				ifs, ok2 := s.Body.List[1].(*ast.IfStmt)
				if !ok || !ok2 || len(as.Lhs) != 2 || len(as.Rhs) != 1 || !tagRead(as.Rhs[0], k) || ifs.Init != nil || ifs.Else != nil || !outerContinue(ifs.Body, true) {
					return "", fmt.Errorf("unsupported tag guard %s", exprString(s))
				}
				val, present := exprString(as.Lhs[0]), exprString(as.Lhs[1])
				be, ok := ifs.Cond.(*ast.BinaryExpr)
				if !ok || be.Op != token.LOR || exprString(be.X) != "!"+present {
					return "", fmt.Errorf("unsupported tag guard %s", exprString(ifs.Cond))
				}
				re, subj, ok := negMatch(be.Y)
				if !ok || !reOK(re) || !isIdent(subj, val) {
					return "", fmt.Errorf("unsupported tag guard %s", exprString(ifs.Cond))
				}
				guards = append(guards, ".tags .presentOnly")
			default:
				return "", fmt.Errorf("unsupported tag guard %s", exprString(s))
			}
		case *ast.IfStmt:
			if s.Init != nil || s.Else != nil {
				return "", fmt.Errorf("unsupported guard %s", exprString(s))
			}
			cond := s.Cond
			blk := s.Body
			skip, pat := "false", ""
			if be, ok := cond.(*ast.BinaryExpr); ok && be.Op == token.LAND {
				p, ok := nonEmpty(be.X)
				if !ok {
					return "", fmt.Errorf("unsupported guard %s", exprString(cond))
				}
				skip, pat, cond = "true", p, be.Y
			} else if p, ok := nonEmpty(cond); ok && len(blk.List) == 1 {
				// nested: if p != "" { if !re.MatchString(subject) { continue } }
				in, ok := blk.List[0].(*ast.IfStmt)
				if !ok || in.Init != nil || in.Else != nil {
					return "", fmt.Errorf("unsupported guard %s", exprString(s))
				}
				skip, pat, cond, blk = "true", p, in.Cond, in.Body
			}
			if !outerContinue(blk, false) {
				return "", fmt.Errorf("unsupported guard %s", exprString(s))
			}
			re, subj, ok := negMatch(cond)
			if !ok {
				return "", fmt.Errorf("unsupported guard %s", exprString(s.Cond))
			}
			role, known := c.siteArg[exprString(re)]
			if !known {
				return "", fmt.Errorf("guard %s: %s is not a compiled filter expression", exprString(s.Cond), exprString(re))
			}
			patRole := map[string]string{c.status: "status", c.name: "name"}[pat]
			if pat != "" && patRole != role {
				return "", fmt.Errorf("guard %s: emptiness of %s guards the %s filter", exprString(s.Cond), pat, role)
			}
			var field string
			switch {
			case role == "status" && exprString(subj) == m+".Status.String()":
				field = ".status"
			case role == "name" && exprString(subj) == m+".Name":
				field = ".name"
			default:
				return "", fmt.Errorf("guard %s: the %s filter is matched against %s", exprString(s.Cond), role, exprString(subj))
			}
			if seenField[field] {
				return "", fmt.Errorf("two guards for %s", field)
			}
			seenField[field] = true
			guards = append(guards, fmt.Sprintf(".field %s %s", field, skip))
		default:
			return "", fmt.Errorf("unsupported statement in the member loop: %s", exprString(st))
		}
	}

	// the guards are independent, side-effect-free conjuncts (a member is kept iff it passes all of them):
	// their order in the source is irrelevant, so they are emitted in a canonical order
	rank := func(g string) int {
		switch {
		case strings.HasPrefix(g, ".tags"):
			return 0
		case strings.HasPrefix(g, ".field .status"):
			return 1
		}
		return 2
	}
	for i := 1; i < len(guards); i++ {
		for j := i; j > 0 && rank(guards[j]) < rank(guards[j-1]); j-- {
			guards[j], guards[j-1] = guards[j-1], guards[j]
		}
	}

	// handleMembers: the filter's error is returned before anything is sent
	hm := findFunc(f, "AgentIPC", "handleMembers")
	if hm == nil {
		return "", fmt.Errorf("handleMembers not found")
	}
	handlerOK, reqFields := false, ""
	ast.Inspect(hm.Body, func(n ast.Node) bool {
		b, ok := n.(*ast.BlockStmt)
		if !ok {
			return true
		}
		for i, st := range b.List {
			as, ok := st.(*ast.AssignStmt)
			if !ok || len(as.Rhs) != 1 || len(as.Lhs) != 2 {
				continue
			}
			call, ok := as.Rhs[0].(*ast.CallExpr)
			if !ok {
				continue
			}
			sel, ok := call.Fun.(*ast.SelectorExpr)
			if !ok || sel.Sel.Name != "filterMembers" || len(call.Args) != 4 {
				continue
			}
			var fs []string
			for _, a := range call.Args[1:] {
				if s, ok := a.(*ast.SelectorExpr); ok {
					fs = append(fs, s.Sel.Name)
				} else {
					fs = append(fs, "?")
				}
			}
			reqFields = strings.Join(fs, ",")
			e := exprString(as.Lhs[1])
			if i+1 < len(b.List) {
				if ifs, ok := b.List[i+1].(*ast.IfStmt); ok && ifs.Init == nil && ifs.Else == nil && len(ifs.Body.List) == 1 {
					if be, ok := ifs.Cond.(*ast.BinaryExpr); ok && be.Op == token.NEQ && isIdent(be.X, e) && isIdent(be.Y, "nil") {
						if r, ok := ifs.Body.List[0].(*ast.ReturnStmt); ok && len(r.Results) == 1 && !isIdent(r.Results[0], "nil") {
							handlerOK = true
						}
					}
				}
			}
		}
		return true
	})

	// docs/commands/members.html.markdown: which filter options are documented as a full match
	docB, err := os.ReadFile(repo + "/docs/commands/members.html.markdown")
	if err != nil {
		return "", err
	}
	var docFacts []string
	for _, para := range strings.Split(string(docB), "\n\n") {
		txt := strings.Join(strings.Fields(para), " ")
		if !strings.HasPrefix(txt, "* `-") {
			continue
		}
		opt := strings.SplitN(strings.TrimPrefix(txt, "* `"), "`", 2)[0]
		if !strings.Contains(txt, "regular expression") {
			continue
		}
		full := strings.Contains(txt, "anchored at the start and end") && strings.Contains(txt, "must be a full match")
		docFacts = append(docFacts, fmt.Sprintf("(%q, %v)", strings.Fields(opt)[0], full))
	}
	q := func(l []string) string { return "[" + strings.Join(l, ", ") + "]" }
	var b strings.Builder
	b.WriteString("-- GENERATED by /verif/extract from /repo/cmd/serf/command/agent/ipc.go (filterMembers, its compile helper, handleMembers) — do not edit.\n")
	b.WriteString("import SerfModel.Model.Regex\nnamespace SerfModel.Gen.AnchorTemplate\nopen SerfModel.Regex\n\n")
	b.WriteString("/-- how a filter expression is compiled (the same way for every tag value, the status and the name\nfilter), step by step, and the member loop of `filterMembers`, guard by guard -/\n")
	fmt.Fprintf(&b, "def shape : FilterShape :=\n  { compile := %s\n    guards := %s }\n\n", q(steps), q(guards))
	b.WriteString("/-- every requested tag value, the status filter and the name filter are compiled, each compile error is\nreturned at once, and with a nil list -/\n")
	fmt.Fprintf(&b, "def compilesAll : Bool := %v\n", compiled["tags[tag]"] && compiled["status"] && compiled["name"] && nilOnError)
	b.WriteString("\n/-- `handleMembers` passes the request's fields to the filter and returns the filter's error before anything is sent -/\n")
	fmt.Fprintf(&b, "def handlerRequestFields : String := %q\ndef handlerReturnsError : Bool := %v\n", reqFields, handlerOK)
	b.WriteString("\n/-- docs/commands/members.html.markdown: every option documented as a regular-expression filter, and\nwhether its paragraph says \"anchored at the start and end, and must be a full match\" -/\n")
	fmt.Fprintf(&b, "def documentedFilters : List (String × Bool) := %s\n", q(docFacts))
	b.WriteString("\nend SerfModel.Gen.AnchorTemplate\n")
	return b.String(), nil
}

func init() { addGen("AnchorTemplate", genAnchorTemplate) }
