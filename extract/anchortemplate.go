package main

import (
	"fmt"
	"go/ast"
	"go/token"
	"os"
	"strconv"
	"strings"
)

// Translation of the member filter (cmd/serf/command/agent/ipc.go) into the vocabulary of
// SerfModel/Model/Regex.lean (CompileStep, Guard, FilterShape):
//   - compileAnchored(expr), statement by statement:
//     if _, err := regexp.Compile(<param>); err != nil { return nil, err }   → .validateAlone
//     return regexp.Compile(fmt.Sprintf(<string literal>, <param>))            → .wrap <format>
//     any other statement is an error;
//   - filterMembers: every place a filter expression is compiled ("site": variable, argument, how —
//     compileAnchored or the pre-990828f `Sprintf:<format>` paste-then-compile), the tag pre-compile loop
//     (for tag, expr := range tags { re, err := <site>(expr); …; tagsRe[tag] = re }), the first result of every
//     `return` under `if err != nil` (must be nil: no list on error);
//   - the member loop, guard by guard:
//     for tag := range tags { if !tagsRe[tag].MatchString(m.Tags[tag]) { continue OUTER } }                         → .tags .valueOrEmpty
//     for tag, re := range tagsRe { val, ok := m.Tags[tag]; if !ok || !re.MatchString(val) { continue OUTER } }       → .tags .presentOnly
//     if [status != "" &&] !statusRe.MatchString(m.Status.String()) { continue }                                      → .field .status <bool>
//     if [name != "" &&] !nameRe.MatchString(m.Name) { continue }                                                     → .field .name <bool>
//     result = append(result, m)                                                                                       (last)
//     where statusRe / nameRe must be the variables compiled from status / name; anything else is an error;
//   - handleMembers: the statement following `raw, err = i.filterMembers(…)` (must return the error before any Send).

// sprintfTemplate recognises regexp.Compile(fmt.Sprintf(<lit>, <ident>)).
func sprintfTemplate(x *ast.CallExpr) (format, arg string, ok bool) {
	if exprString(x.Fun) != "regexp.Compile" || len(x.Args) != 1 {
		return "", "", false
	}
	sp, ok := x.Args[0].(*ast.CallExpr)
	if !ok || exprString(sp.Fun) != "fmt.Sprintf" || len(sp.Args) != 2 {
		return "", "", false
	}
	lit, ok1 := sp.Args[0].(*ast.BasicLit)
	id, ok2 := sp.Args[1].(*ast.Ident)
	if !ok1 || !ok2 || lit.Kind != token.STRING {
		return "", "", false
	}
	s, err := strconv.Unquote(lit.Value)
	if err != nil {
		return "", "", false
	}
	return s, id.Name, true
}

func helperSteps(fd *ast.FuncDecl) ([]string, error) {
	if sig := exprString(fd.Type); sig != "func(expr string) (*regexp.Regexp, error)" {
		return nil, fmt.Errorf("compileAnchored signature %s", sig)
	}
	var steps []string
	for _, st := range fd.Body.List {
		switch s := st.(type) {
		case *ast.IfStmt:
			as, ok := s.Init.(*ast.AssignStmt)
			if !ok || s.Else != nil || len(as.Lhs) != 2 || len(as.Rhs) != 1 || exprString(as.Lhs[0]) != "_" || exprString(as.Lhs[1]) != "err" ||
				exprString(s.Cond) != "err != nil" || len(s.Body.List) != 1 || exprString(s.Body.List[0]) != "return nil, err" {
				return nil, fmt.Errorf("compileAnchored: unsupported statement %s", exprString(s))
			}
			c, ok := as.Rhs[0].(*ast.CallExpr)
			if !ok || exprString(c.Fun) != "regexp.Compile" || len(c.Args) != 1 || !isIdent(c.Args[0], "expr") {
				return nil, fmt.Errorf("compileAnchored: unsupported validation %s", exprString(as))
			}
			steps = append(steps, ".validateAlone")
		case *ast.ReturnStmt:
			if len(s.Results) != 1 {
				return nil, fmt.Errorf("compileAnchored: unsupported return %s", exprString(s))
			}
			c, ok := s.Results[0].(*ast.CallExpr)
			if !ok {
				return nil, fmt.Errorf("compileAnchored: unsupported return %s", exprString(s))
			}
			format, arg, ok := sprintfTemplate(c)
			if !ok || arg != "expr" {
				return nil, fmt.Errorf("compileAnchored: unsupported return %s", exprString(s))
			}
			steps = append(steps, fmt.Sprintf(".wrap %q", format))
		default:
			return nil, fmt.Errorf("compileAnchored: unsupported statement %s", exprString(st))
		}
	}
	return steps, nil
}

type reSite struct{ v, arg, how string }

// compileSite recognises `<v>, err := compileAnchored(<arg>)` / `<v>, err := regexp.Compile(fmt.Sprintf(lit, <arg>))`.
func compileSite(st ast.Stmt) (reSite, bool, error) {
	as, ok := st.(*ast.AssignStmt)
	if !ok || len(as.Rhs) != 1 {
		return reSite{}, false, nil
	}
	c, ok := as.Rhs[0].(*ast.CallExpr)
	if !ok {
		return reSite{}, false, nil
	}
	fn := exprString(c.Fun)
	if fn != "compileAnchored" && !strings.HasPrefix(fn, "regexp.") {
		return reSite{}, false, nil
	}
	if len(as.Lhs) != 2 || exprString(as.Lhs[1]) != "err" {
		return reSite{}, false, fmt.Errorf("unsupported compile statement %s", exprString(st))
	}
	v := exprString(as.Lhs[0])
	if fn == "compileAnchored" {
		if len(c.Args) != 1 {
			return reSite{}, false, fmt.Errorf("unsupported call %s", exprString(c))
		}
		id, ok := c.Args[0].(*ast.Ident)
		if !ok {
			return reSite{}, false, fmt.Errorf("compileAnchored of a non-identifier: %s", exprString(c))
		}
		return reSite{v, id.Name, "compileAnchored"}, true, nil
	}
	format, arg, ok := sprintfTemplate(c)
	if !ok {
		return reSite{}, false, fmt.Errorf("unsupported use of package regexp: %s", exprString(c))
	}
	return reSite{v, arg, "Sprintf:" + format}, true, nil
}

// matchCall recognises !<re>.MatchString(<subject>).
func negMatch(e ast.Expr) (re, subject string, ok bool) {
	u, ok := e.(*ast.UnaryExpr)
	if !ok || u.Op != token.NOT {
		return "", "", false
	}
	c, ok := u.X.(*ast.CallExpr)
	if !ok || len(c.Args) != 1 {
		return "", "", false
	}
	sel, ok := c.Fun.(*ast.SelectorExpr)
	if !ok || sel.Sel.Name != "MatchString" {
		return "", "", false
	}
	return exprString(sel.X), exprString(c.Args[0]), true
}

func isContinue(b *ast.BlockStmt, label string) bool {
	if len(b.List) != 1 {
		return false
	}
	br, ok := b.List[0].(*ast.BranchStmt)
	if !ok || br.Tok != token.CONTINUE {
		return false
	}
	if label == "" {
		return br.Label == nil
	}
	return br.Label != nil && br.Label.Name == label
}

func genAnchorTemplate(repo string) (string, error) {
	_, f, err := parseFile(repo + "/cmd/serf/command/agent/ipc.go")
	if err != nil {
		return "", err
	}
	fd := findFunc(f, "AgentIPC", "filterMembers")
	if fd == nil {
		return "", fmt.Errorf("filterMembers not found")
	}
	if sig := exprString(fd.Type); sig != "func(members []serf.Member, tags map[string]string, status string, name string) ([]serf.Member, error)" {
		return "", fmt.Errorf("filterMembers signature %s", sig)
	}
	var sites []reSite
	var errReturns []string
	var loop *ast.RangeStmt
	label := ""
	sawReturn := false
	for _, st := range fd.Body.List {
		if sawReturn {
			return "", fmt.Errorf("statement after the final return")
		}
		switch s := st.(type) {
		case *ast.AssignStmt:
			if site, ok, err := compileSite(s); err != nil {
				return "", err
			} else if ok {
				sites = append(sites, site)
				continue
			}
			txt := exprString(s)
			if txt != "result := make([]serf.Member, 0, len(members))" && txt != "tagsRe := make(map[string]*regexp.Regexp)" {
				return "", fmt.Errorf("unsupported statement %s", txt)
			}
		case *ast.RangeStmt:
			// the tag pre-compile loop
			if exprString(s.X) != "tags" || exprString(s.Key) != "tag" || s.Value == nil || len(s.Body.List) != 3 {
				return "", fmt.Errorf("unsupported loop over %s", exprString(s.X))
			}
			site, ok, err := compileSite(s.Body.List[0])
			if err != nil || !ok || site.arg != exprString(s.Value) {
				return "", fmt.Errorf("tag loop does not compile its value: %s", exprString(s.Body.List[0]))
			}
			ifs, ok := s.Body.List[1].(*ast.IfStmt)
			if !ok || exprString(ifs.Cond) != "err != nil" || len(ifs.Body.List) != 1 {
				return "", fmt.Errorf("tag loop: unsupported %s", exprString(s.Body.List[1]))
			}
			ret, ok := ifs.Body.List[0].(*ast.ReturnStmt)
			if !ok || len(ret.Results) != 2 {
				return "", fmt.Errorf("tag loop: unsupported %s", exprString(ifs))
			}
			errReturns = append(errReturns, exprString(ret.Results[0]))
			if exprString(s.Body.List[2]) != "tagsRe[tag] = "+site.v {
				return "", fmt.Errorf("tag loop: unsupported %s", exprString(s.Body.List[2]))
			}
			sites = append(sites, reSite{"tagsRe[tag]", "tags[tag]", site.how})
		case *ast.IfStmt:
			if exprString(s.Cond) != "err != nil" || s.Init != nil || s.Else != nil || len(s.Body.List) != 1 {
				return "", fmt.Errorf("unsupported statement %s", exprString(s))
			}
			ret, ok := s.Body.List[0].(*ast.ReturnStmt)
			if !ok || len(ret.Results) != 2 {
				return "", fmt.Errorf("unsupported statement %s", exprString(s))
			}
			errReturns = append(errReturns, exprString(ret.Results[0]))
		case *ast.LabeledStmt:
			r, ok := s.Stmt.(*ast.RangeStmt)
			if !ok || loop != nil {
				return "", fmt.Errorf("unsupported labeled statement")
			}
			loop, label = r, s.Label.Name
		case *ast.ReturnStmt:
			if exprString(s) != "return result, nil" {
				return "", fmt.Errorf("unsupported final return %s", exprString(s))
			}
			sawReturn = true
		default:
			return "", fmt.Errorf("unsupported statement %s", exprString(st))
		}
	}
	if loop == nil || !sawReturn {
		return "", fmt.Errorf("member loop or final return not found")
	}
	if exprString(loop.X) != "members" || exprString(loop.Key) != "_" || exprString(loop.Value) != "m" {
		return "", fmt.Errorf("member loop is not `for _, m := range members`")
	}
	siteArg := map[string]string{}
	for _, s := range sites {
		siteArg[s.v] = s.arg
	}
	var guards []string
	body := loop.Body.List
	if len(body) == 0 || exprString(body[len(body)-1]) != "result = append(result, m)" {
		return "", fmt.Errorf("member loop does not end with result = append(result, m)")
	}
	for _, st := range body[:len(body)-1] {
		switch s := st.(type) {
		case *ast.RangeStmt:
			switch {
			case exprString(s.X) == "tags" && exprString(s.Key) == "tag" && s.Value == nil && len(s.Body.List) == 1:
				ifs, ok := s.Body.List[0].(*ast.IfStmt)
				if !ok || ifs.Init != nil || ifs.Else != nil || !isContinue(ifs.Body, label) {
					return "", fmt.Errorf("unsupported tag guard %s", exprString(s))
				}
				re, subj, ok := negMatch(ifs.Cond)
				if !ok || re != "tagsRe[tag]" || subj != "m.Tags[tag]" {
					return "", fmt.Errorf("unsupported tag guard %s", exprString(ifs.Cond))
				}
				guards = append(guards, ".tags .valueOrEmpty")
			case exprString(s.X) == "tagsRe" && exprString(s.Key) == "tag" && s.Value != nil && len(s.Body.List) == 2:
				re := exprString(s.Value)
				if exprString(s.Body.List[0]) != "val, ok := m.Tags[tag]" {
					return "", fmt.Errorf("unsupported tag guard %s", exprString(s.Body.List[0]))
				}
				ifs, ok := s.Body.List[1].(*ast.IfStmt)
				if !ok || ifs.Init != nil || ifs.Else != nil || !isContinue(ifs.Body, label) {
					return "", fmt.Errorf("unsupported tag guard %s", exprString(s))
				}
				be, ok := ifs.Cond.(*ast.BinaryExpr)
				if !ok || be.Op != token.LOR || exprString(be.X) != "!ok" {
					return "", fmt.Errorf("unsupported tag guard %s", exprString(ifs.Cond))
				}
				r2, subj, ok := negMatch(be.Y)
				if !ok || r2 != re || subj != "val" {
					return "", fmt.Errorf("unsupported tag guard %s", exprString(ifs.Cond))
				}
				guards = append(guards, ".tags .presentOnly")
			default:
				return "", fmt.Errorf("unsupported loop in the member loop: %s", exprString(s))
			}
		case *ast.IfStmt:
			if s.Init != nil || s.Else != nil || !isContinue(s.Body, "") {
				return "", fmt.Errorf("unsupported guard %s", exprString(s))
			}
			cond := s.Cond
			skip, pat := "false", ""
			if be, ok := cond.(*ast.BinaryExpr); ok && be.Op == token.LAND {
				l, ok := be.X.(*ast.BinaryExpr)
				if !ok || l.Op != token.NEQ || exprString(l.Y) != `""` {
					return "", fmt.Errorf("unsupported guard %s", exprString(cond))
				}
				skip, pat, cond = "true", exprString(l.X), be.Y
			}
			re, subj, ok := negMatch(cond)
			if !ok {
				return "", fmt.Errorf("unsupported guard %s", exprString(s.Cond))
			}
			arg, known := siteArg[re]
			if !known || (pat != "" && pat != arg) {
				return "", fmt.Errorf("guard %s: %s is not the expression compiled from %s", exprString(s.Cond), re, pat)
			}
			var field string
			switch {
			case arg == "status" && subj == "m.Status.String()":
				field = ".status"
			case arg == "name" && subj == "m.Name":
				field = ".name"
			default:
				return "", fmt.Errorf("guard %s: the %s filter is matched against %s", exprString(s.Cond), arg, subj)
			}
			guards = append(guards, fmt.Sprintf(".field %s %s", field, skip))
		default:
			return "", fmt.Errorf("unsupported statement in the member loop: %s", exprString(st))
		}
	}
	var steps []string
	usesHelper := false
	for _, s := range sites {
		if s.how == "compileAnchored" {
			usesHelper = true
		}
	}
	if h := findFunc(f, "", "compileAnchored"); h != nil {
		steps, err = helperSteps(h)
		if err != nil {
			return "", err
		}
	} else if usesHelper {
		return "", fmt.Errorf("compileAnchored is called but not declared in ipc.go")
	}
	if !usesHelper {
		// paste-then-compile at the sites: the compile steps are the single wrap of the (common) format
		steps = nil
		for _, s := range sites {
			if s.v == "re" {
				continue
			}
			st := fmt.Sprintf(".wrap %q", strings.TrimPrefix(s.how, "Sprintf:"))
			if len(steps) == 0 {
				steps = []string{st}
			} else if steps[0] != st {
				return "", fmt.Errorf("the compile sites use different templates")
			}
		}
	}
	// handleMembers: what follows the call
	hm := findFunc(f, "AgentIPC", "handleMembers")
	if hm == nil {
		return "", fmt.Errorf("handleMembers not found")
	}
	onError := ""
	ast.Inspect(hm.Body, func(n ast.Node) bool {
		b, ok := n.(*ast.BlockStmt)
		if !ok {
			return true
		}
		for i, st := range b.List {
			if as, ok := st.(*ast.AssignStmt); ok && len(as.Rhs) == 1 && strings.HasPrefix(exprString(as.Rhs[0]), "i.filterMembers(") {
				onError = "call:" + exprString(as)
				if i+1 < len(b.List) {
					onError += " | next:" + strings.Join(strings.Fields(exprString(b.List[i+1])), " ")
				}
			}
		}
		return true
	})
	// docs/commands/members.html.markdown: which filter options are documented as a full match
	docB, err := os.ReadFile(repo + "/docs/commands/members.html.markdown")
	if err != nil {
		return "", err
	}
	var docFacts []string
	for _, para := range strings.Split(string(docB), "\n\n") {
		txt := strings.Join(strings.Fields(para), " ")
		if !strings.HasPrefix(txt, "* `-") {
			continue
		}
		opt := strings.SplitN(strings.TrimPrefix(txt, "* `"), "`", 2)[0]
		if !strings.Contains(txt, "regular expression") {
			continue
		}
		full := strings.Contains(txt, "anchored at the start and end") && strings.Contains(txt, "must be a full match")
		docFacts = append(docFacts, fmt.Sprintf("(%q, %v)", strings.Fields(opt)[0], full))
	}
	q := func(l []string) string { return "[" + strings.Join(l, ", ") + "]" }
	var b strings.Builder
	b.WriteString("-- GENERATED by /verif/extract from /repo/cmd/serf/command/agent/ipc.go (filterMembers, compileAnchored, handleMembers) — do not edit.\n")
	b.WriteString("import SerfModel.Model.Regex\nnamespace SerfModel.Gen.AnchorTemplate\nopen SerfModel.Regex\n\n")
	b.WriteString("/-- `compileAnchored`, statement by statement, and the member loop of `filterMembers`, guard by guard -/\n")
	fmt.Fprintf(&b, "def shape : FilterShape :=\n  { compile := %s\n    guards := %s }\n\n", q(steps), q(guards))
	b.WriteString("/-- every place `filterMembers` compiles a filter expression: (variable, argument, how) -/\n")
	b.WriteString("def sites : List (String × String × String) := [")
	n := 0
	for _, s := range sites {
		if s.v == "re" {
			continue
		}
		if n > 0 {
			b.WriteString(", ")
		}
		n++
		fmt.Fprintf(&b, "(%q, %q, %q)", s.v, s.arg, s.how)
	}
	b.WriteString("]\n\n/-- the list returned with an error (first result of every `return` under `if err != nil`) -/\n")
	var er []string
	for _, e := range errReturns {
		er = append(er, fmt.Sprintf("%q", e))
	}
	fmt.Fprintf(&b, "def errorReturns : List String := %s\n\n", q(er))
	b.WriteString("/-- `handleMembers`: the call of the filter and the statement that follows it -/\n")
	fmt.Fprintf(&b, "def handler : String := %q\n", onError)
	b.WriteString("\n/-- docs/commands/members.html.markdown: every option documented as a regular-expression filter, and\nwhether its paragraph says \"anchored at the start and end, and must be a full match\" -/\n")
	fmt.Fprintf(&b, "def documentedFilters : List (String × Bool) := %s\n", q(docFacts))
	b.WriteString("\nend SerfModel.Gen.AnchorTemplate\n")
	return b.String(), nil
}

func init() { addGen("AnchorTemplate", genAnchorTemplate) }
