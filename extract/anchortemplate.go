package main

import (
	"fmt"
	"go/ast"
	"go/token"
	"strconv"
	"strings"
)

// Records, for (*AgentIPC).filterMembers in cmd/serf/command/agent/ipc.go:
//   - every place a filter expression is compiled ("site"): either
//     compileAnchored(<ident>)                               → (ident, "compileAnchored")
//     regexp.Compile(fmt.Sprintf(<string literal>, <ident>)) → (ident, "Sprintf:<format>")   (the pre-990828f shape: paste, then compile)
//     Any other use of package regexp in filterMembers is an error;
//   - the body of the helper compileAnchored(expr), which must be exactly
//     if _, err := regexp.Compile(<param>); err != nil { return nil, err }   → "validate:<param>"
//     return regexp.Compile(fmt.Sprintf(<string literal>, <param>))            → "wrap:<format>:<param>"
//     (validate-alone, then wrap); any other statement is an error. No helper: no steps;
//   - the skip conditions of the member loop (every `if` whose body is a `continue`), as source text;
//   - the statement that appends to the result.

// sprintfTemplate recognises regexp.Compile(fmt.Sprintf(<lit>, <ident>)).
func sprintfTemplate(x *ast.CallExpr) (format, arg string, ok bool) {
	if exprString(x.Fun) != "regexp.Compile" || len(x.Args) != 1 {
		return "", "", false
	}
	sp, ok := x.Args[0].(*ast.CallExpr)
	if !ok || exprString(sp.Fun) != "fmt.Sprintf" || len(sp.Args) != 2 {
		return "", "", false
	}
	lit, ok1 := sp.Args[0].(*ast.BasicLit)
	id, ok2 := sp.Args[1].(*ast.Ident)
	if !ok1 || !ok2 || lit.Kind != token.STRING {
		return "", "", false
	}
	s, err := strconv.Unquote(lit.Value)
	if err != nil {
		return "", "", false
	}
	return s, id.Name, true
}

func helperSteps(fd *ast.FuncDecl) ([]string, error) {
	if sig := exprString(fd.Type); sig != "func(expr string) (*regexp.Regexp, error)" {
		return nil, fmt.Errorf("compileAnchored signature %s", sig)
	}
	var steps []string
	for _, st := range fd.Body.List {
		switch s := st.(type) {
		case *ast.IfStmt:
			// if _, err := regexp.Compile(<param>); err != nil { return nil, err }
			as, ok := s.Init.(*ast.AssignStmt)
			if !ok || s.Else != nil || len(as.Lhs) != 2 || len(as.Rhs) != 1 || exprString(as.Lhs[0]) != "_" || exprString(as.Lhs[1]) != "err" ||
				exprString(s.Cond) != "err != nil" || len(s.Body.List) != 1 || exprString(s.Body.List[0]) != "return nil, err" {
				return nil, fmt.Errorf("compileAnchored: unsupported statement %s", exprString(s))
			}
			c, ok := as.Rhs[0].(*ast.CallExpr)
			if !ok || exprString(c.Fun) != "regexp.Compile" || len(c.Args) != 1 {
				return nil, fmt.Errorf("compileAnchored: unsupported validation %s", exprString(as))
			}
			id, ok := c.Args[0].(*ast.Ident)
			if !ok {
				return nil, fmt.Errorf("compileAnchored: validation of a non-identifier %s", exprString(c))
			}
			steps = append(steps, "validate:"+id.Name)
		case *ast.ReturnStmt:
			if len(s.Results) != 1 {
				return nil, fmt.Errorf("compileAnchored: unsupported return %s", exprString(s))
			}
			c, ok := s.Results[0].(*ast.CallExpr)
			if !ok {
				return nil, fmt.Errorf("compileAnchored: unsupported return %s", exprString(s))
			}
			format, arg, ok := sprintfTemplate(c)
			if !ok {
				return nil, fmt.Errorf("compileAnchored: unsupported return %s", exprString(s))
			}
			steps = append(steps, "wrap:"+format+":"+arg)
		default:
			return nil, fmt.Errorf("compileAnchored: unsupported statement %s", exprString(st))
		}
	}
	return steps, nil
}

func genAnchorTemplate(repo string) (string, error) {
	_, f, err := parseFile(repo + "/cmd/serf/command/agent/ipc.go")
	if err != nil {
		return "", err
	}
	fd := findFunc(f, "AgentIPC", "filterMembers")
	if fd == nil {
		return "", fmt.Errorf("filterMembers not found")
	}
	type site struct{ arg, how string }
	var sites []site
	var guards, appends []string
	var bad error
	ast.Inspect(fd.Body, func(n ast.Node) bool {
		switch x := n.(type) {
		case *ast.CallExpr:
			fn := exprString(x.Fun)
			if fn == "compileAnchored" {
				if len(x.Args) != 1 {
					bad = fmt.Errorf("unsupported call %s", exprString(x))
					return false
				}
				id, ok := x.Args[0].(*ast.Ident)
				if !ok {
					bad = fmt.Errorf("compileAnchored of a non-identifier: %s", exprString(x))
					return false
				}
				sites = append(sites, site{id.Name, "compileAnchored"})
			}
			if strings.HasPrefix(fn, "regexp.") {
				format, arg, ok := sprintfTemplate(x)
				if !ok {
					bad = fmt.Errorf("unsupported use of package regexp: %s", exprString(x))
					return false
				}
				sites = append(sites, site{arg, "Sprintf:" + format})
				return false
			}
			if isIdent(x.Fun, "append") && len(x.Args) > 0 && isIdent(x.Args[0], "result") {
				appends = append(appends, exprString(x))
			}
		case *ast.IfStmt:
			if len(x.Body.List) == 1 {
				if br, ok := x.Body.List[0].(*ast.BranchStmt); ok && br.Tok == token.CONTINUE {
					guards = append(guards, exprString(x.Cond))
				}
			}
		}
		return true
	})
	if bad != nil {
		return "", bad
	}
	if len(sites) == 0 {
		return "", fmt.Errorf("no filter expression is compiled in filterMembers")
	}
	var steps []string
	if h := findFunc(f, "", "compileAnchored"); h != nil {
		steps, err = helperSteps(h)
		if err != nil {
			return "", err
		}
	} else {
		for _, s := range sites {
			if s.how == "compileAnchored" {
				return "", fmt.Errorf("compileAnchored is called but not declared in ipc.go")
			}
		}
	}
	q := func(l []string) string {
		var o []string
		for _, s := range l {
			o = append(o, fmt.Sprintf("%q", s))
		}
		return "[" + strings.Join(o, ", ") + "]"
	}
	var b strings.Builder
	b.WriteString("-- GENERATED by /verif/extract from /repo/cmd/serf/command/agent/ipc.go (filterMembers, compileAnchored) — do not edit.\n")
	b.WriteString("namespace SerfModel.Gen.AnchorTemplate\n\n")
	b.WriteString("/-- every place `filterMembers` compiles a filter expression: (argument, how) with how =\n`compileAnchored` (the helper) or `Sprintf:<format>` (pasted into the format and compiled directly) -/\n")
	b.WriteString("def sites : List (String × String) := [")
	for i, s := range sites {
		if i > 0 {
			b.WriteString(", ")
		}
		fmt.Fprintf(&b, "(%q, %q)", s.arg, s.how)
	}
	b.WriteString("]\n\n/-- the body of `compileAnchored`, statement by statement: `validate:<x>` = `regexp.Compile(x)` alone,\nits error returned; `wrap:<format>:<x>` = return `regexp.Compile(fmt.Sprintf(format, x))` -/\n")
	fmt.Fprintf(&b, "def helperSteps : List String := %s\n", q(steps))
	b.WriteString("\n/-- the conditions under which the member loop skips a member -/\n")
	fmt.Fprintf(&b, "def guards : List String := %s\n", q(guards))
	b.WriteString("\n/-- how a member that passed every guard is kept -/\n")
	fmt.Fprintf(&b, "def appends : List String := %s\n", q(appends))
	b.WriteString("\nend SerfModel.Gen.AnchorTemplate\n")
	return b.String(), nil
}

func init() { addGen("AnchorTemplate", genAnchorTemplate) }
