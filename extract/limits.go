package main

import (
	"bytes"
	"fmt"
	"go/ast"
	"go/printer"
	"go/token"
	"strconv"
	"strings"
)

// Gen/Limits.lean: the ordered statements of the functions that enforce serf's size
// limits — serf.go UserEvent and Query, event.go checkResponseSize /
// respondWithMessageAndResponse / Respond, query.go relayResponse — each classified as
//
//	guard lhs rhs   `if lhs > rhs { return … error … }`
//	check call      `if err := call; err != nil { return err }`
//	pure text       a statement without an observable effect (assignment, encoding, lock, error check, other tests)
//	clock name      a statement whose only side effect is a step of one of the node's Lamport clocks
//	                (Increment / Witness on s.clock, s.eventClock, s.queryClock), also when the call sits
//	                inside the message literal; NOT an observable effect in the sense of C33
//	effect name     a statement that delivers, queues, sends or registers (observable by the application or the network)
//	ret             a plain return
//
// Observable effects are recognised by the callee's name; every other call must be on
// the list of known effect-free callees, otherwise the generator fails (loudly).

var limEffects = map[string]bool{
	"handleUserEvent": true, "handleQuery": true, "QueueBroadcast": true,
	"registerQueryResponse": true, "SendToAddress": true, "relayResponse": true, "respondWithMessageAndResponse": true,
}

var limPureCalls = map[string]bool{
	"len": true, "Errorf": true, "encodeMessage": true, "encodeRelayMessage": true, "Time": true, "ProtocolVersion": true,
	"DefaultQueryParams": true, "DefaultQueryTimeout": true, "LocalNode": true, "encodeFilters": true, "Int31": true,
	"uint32": true, "int": true, "newQueryResponse": true, "NumMembers": true, "checkResponseSize": true, "Lock": true,
	"Unlock": true, "IsZero": true, "Now": true, "After": true, "String": true, "Members": true, "LocalMember": true,
	"kRandomMembers": true, "createResponse": true,
}

func limText(fset *token.FileSet, n ast.Node) string {
	var b bytes.Buffer
	_ = printer.Fprint(&b, fset, n)
	s := strings.Join(strings.Fields(b.String()), " ")
	return s
}

func calleeName(c *ast.CallExpr) string {
	switch f := c.Fun.(type) {
	case *ast.Ident:
		return f.Name
	case *ast.SelectorExpr:
		return f.Sel.Name
	}
	return "?"
}

// clockCall recognises <recv>.<xClock>.Increment() / .Witness(…) and returns "<xClock>.<method>".
func clockCall(c *ast.CallExpr) (string, bool) {
	sel, ok := c.Fun.(*ast.SelectorExpr)
	if !ok || (sel.Sel.Name != "Increment" && sel.Sel.Name != "Witness") {
		return "", false
	}
	inner, ok := sel.X.(*ast.SelectorExpr)
	if !ok {
		return "", false
	}
	n := inner.Sel.Name
	if n != "clock" && n != "eventClock" && n != "queryClock" {
		return "", false
	}
	return n + "." + sel.Sel.Name, true
}

var limClocks []string // clock steps found by the last scanEffects call

// scanEffects lists the effect callees inside n (and, in limClocks, the Lamport clock steps) and
// rejects unknown calls, sends and go statements.
func scanEffects(n ast.Node) (effects []string, err error) {
	limClocks = nil
	ast.Inspect(n, func(x ast.Node) bool {
		switch v := x.(type) {
		case *ast.FuncLit:
			return false // a closure passed as an argument runs later, under its callee's name
		case *ast.CallExpr:
			name := calleeName(v)
			if ck, ok := clockCall(v); ok {
				limClocks = append(limClocks, ck)
			} else if limEffects[name] {
				effects = append(effects, name)
			} else if !limPureCalls[name] {
				// conversions to named types / composite helper constructors
				if id, ok := v.Fun.(*ast.Ident); ok && (id.Name == "messageType" || id.Name == "string" || id.Name == "uint8") {
					return true
				}
				if err == nil {
					err = fmt.Errorf("call to %s is not classified (effect or effect-free?)", name)
				}
			}
		case *ast.SendStmt:
			effects = append(effects, "chan-send")
		case *ast.GoStmt:
			effects = append(effects, "go")
		}
		return true
	})
	return
}

type limStep struct{ kind, a, b string }

func limQuote(s string) string { return strconv.Quote(s) }

func (s limStep) lean() string {
	switch s.kind {
	case "guard":
		return fmt.Sprintf(".guard %s %s", limQuote(s.a), limQuote(s.b))
	case "check":
		return fmt.Sprintf(".check %s", limQuote(s.a))
	case "pure":
		return fmt.Sprintf(".pure %s", limQuote(s.a))
	case "effect":
		return fmt.Sprintf(".effect %s %s", limQuote(s.a), limQuote(s.b))
	case "clock":
		return fmt.Sprintf(".clock %s %s", limQuote(s.a), limQuote(s.b))
	}
	return ".ret"
}

// returnsError: the block is exactly `return …` whose last result is not the identifier nil.
func returnsError(b *ast.BlockStmt) bool {
	if len(b.List) != 1 {
		return false
	}
	r, ok := b.List[0].(*ast.ReturnStmt)
	if !ok || len(r.Results) == 0 {
		return false
	}
	last := r.Results[len(r.Results)-1]
	if id, ok := last.(*ast.Ident); ok && id.Name == "nil" {
		return false
	}
	return true
}

func limSteps(fset *token.FileSet, fd *ast.FuncDecl) ([]limStep, error) {
	var out []limStep
	defs := map[string]string{} // single-assignment locals that are pure arithmetic over len(): inlined into guards
	for _, st := range fd.Body.List {
		switch v := st.(type) {
		case *ast.IfStmt:
			// guard: if a > b { return error }
			if be, ok := v.Cond.(*ast.BinaryExpr); ok && v.Init == nil && v.Else == nil && be.Op == token.GTR && returnsError(v.Body) {
				lhs := limText(fset, be.X)
				if d, ok := defs[lhs]; ok {
					lhs = d
				}
				out = append(out, limStep{"guard", lhs, limText(fset, be.Y)})
				continue
			}
			if be, ok := v.Cond.(*ast.BinaryExpr); ok && (be.Op == token.LSS || be.Op == token.GEQ || be.Op == token.LEQ) && returnsError(v.Body) {
				if strings.Contains(limText(fset, be), "len(") {
					return nil, fmt.Errorf("%s: size comparison with an unexpected operator: %s", fd.Name.Name, limText(fset, be))
				}
			}
			// check: if err := call; err != nil { return err }
			if as, ok := v.Init.(*ast.AssignStmt); ok && len(as.Rhs) == 1 && v.Else == nil && returnsError(v.Body) {
				if c, ok := as.Rhs[0].(*ast.CallExpr); ok {
					name := calleeName(c)
					if limEffects[name] {
						out = append(out, limStep{"effect", name, limArgs(fset, c)})
					} else {
						if _, err := scanEffects(c); err != nil {
							return nil, fmt.Errorf("%s: %v", fd.Name.Name, err)
						}
						if len(limClocks) > 0 {
							return nil, fmt.Errorf("%s: clock step inside a checked call", fd.Name.Name)
						}
						out = append(out, limStep{"check", limText(fset, c), ""})
					}
					continue
				}
			}
			effs, err := scanEffects(v)
			if err == nil {
				err = mixedErr(fd.Name.Name, effs)
			}
			if err != nil {
				return nil, fmt.Errorf("%s: %v", fd.Name.Name, err)
			}
			if len(effs) > 0 {
				out = append(out, limStep{"effect", strings.Join(effs, "+"), limText(fset, v.Cond)})
			} else {
				out = append(out, pureOrClock("if "+limText(fset, v.Cond)))
			}
		case *ast.ReturnStmt:
			effs, err := scanEffects(v)
			if err == nil {
				err = mixedErr(fd.Name.Name, effs)
			}
			if err != nil {
				return nil, fmt.Errorf("%s: %v", fd.Name.Name, err)
			}
			if len(effs) > 0 {
				out = append(out, limStep{"effect", strings.Join(effs, "+"), ""})
			} else if len(limClocks) > 0 {
				out = append(out, pureOrClock(limText(fset, v)))
			}
			out = append(out, limStep{"ret", "", ""})
		case *ast.ExprStmt:
			c, ok := v.X.(*ast.CallExpr)
			if !ok {
				return nil, fmt.Errorf("%s: expression statement %s", fd.Name.Name, limText(fset, v))
			}
			effs, err := scanEffects(v)
			if err == nil {
				err = mixedErr(fd.Name.Name, effs)
			}
			if err != nil {
				return nil, fmt.Errorf("%s: %v", fd.Name.Name, err)
			}
			if len(effs) > 0 {
				out = append(out, limStep{"effect", calleeName(c), limArgs(fset, c)})
			} else {
				out = append(out, pureOrClock(limText(fset, v)))
			}
		case *ast.AssignStmt, *ast.DeclStmt, *ast.DeferStmt, *ast.ForStmt, *ast.RangeStmt:
			effs, err := scanEffects(v)
			if err == nil {
				err = mixedErr(fd.Name.Name, effs)
			}
			if err != nil {
				return nil, fmt.Errorf("%s: %v", fd.Name.Name, err)
			}
			if len(effs) > 0 {
				args := ""
				ast.Inspect(v, func(x ast.Node) bool {
					if c, ok := x.(*ast.CallExpr); ok && limEffects[calleeName(c)] && args == "" {
						args = limArgs(fset, c)
					}
					return true
				})
				out = append(out, limStep{"effect", strings.Join(effs, "+"), args})
			} else {
				txt := limText(fset, v)
				if as, ok := v.(*ast.AssignStmt); ok && as.Tok == token.DEFINE && len(as.Lhs) == 1 && len(as.Rhs) == 1 {
					if id, ok := as.Lhs[0].(*ast.Ident); ok {
						r := limText(fset, as.Rhs[0])
						if strings.HasPrefix(r, "len(") {
							defs[id.Name] = r
						}
					}
				}
				if len(txt) > 160 {
					txt = txt[:160]
				}
				out = append(out, pureOrClock(txt))
			}
		default:
			return nil, fmt.Errorf("%s: statement of unexpected kind %T", fd.Name.Name, st)
		}
	}
	return out, nil
}

// pureOrClock: the statement has no observable effect; it is a clock step when scanEffects saw one.
func pureOrClock(txt string) limStep {
	if len(limClocks) > 0 {
		return limStep{"clock", strings.Join(limClocks, "+"), txt}
	}
	return limStep{"pure", txt, ""}
}

func mixedErr(fn string, effs []string) error {
	if len(effs) > 0 && len(limClocks) > 0 {
		return fmt.Errorf("%s: one statement both steps a clock (%v) and has an observable effect (%v): order not representable", fn, limClocks, effs)
	}
	return nil
}

func limArgs(fset *token.FileSet, c *ast.CallExpr) string {
	var parts []string
	for _, a := range c.Args {
		t := limText(fset, a)
		if len(t) > 60 {
			t = t[:60]
		}
		parts = append(parts, t)
	}
	return strings.Join(parts, ", ")
}

// limConst evaluates `const name = <int> [* <int>]` in file f.
func limConst(f *ast.File, name string) (int64, error) {
	for _, d := range f.Decls {
		gd, ok := d.(*ast.GenDecl)
		if !ok || gd.Tok != token.CONST {
			continue
		}
		for _, sp := range gd.Specs {
			vs := sp.(*ast.ValueSpec)
			for i, n := range vs.Names {
				if n.Name != name || i >= len(vs.Values) {
					continue
				}
				return limEval(vs.Values[i])
			}
		}
	}
	return 0, fmt.Errorf("constant %s not found", name)
}

func limEval(e ast.Expr) (int64, error) {
	switch v := e.(type) {
	case *ast.BasicLit:
		return strconv.ParseInt(v.Value, 0, 64)
	case *ast.ParenExpr:
		return limEval(v.X)
	case *ast.BinaryExpr:
		a, err := limEval(v.X)
		if err != nil {
			return 0, err
		}
		b, err := limEval(v.Y)
		if err != nil {
			return 0, err
		}
		switch v.Op {
		case token.MUL:
			return a * b, nil
		case token.ADD:
			return a + b, nil
		case token.SHL:
			return a << uint(b), nil
		}
	}
	return 0, fmt.Errorf("constant expression not understood")
}

func init() {
	addGen("Limits", func(repo string) (string, error) {
		type fn struct{ file, recv, name, lean string }
		fns := []fn{
			{"serf/serf.go", "Serf", "UserEvent", "userEvent"},
			{"serf/serf.go", "Serf", "Query", "query"},
			{"serf/event.go", "Query", "checkResponseSize", "checkResponseSize"},
			{"serf/event.go", "Query", "respondWithMessageAndResponse", "respondWithMessageAndResponse"},
			{"serf/event.go", "Query", "Respond", "respond"},
			{"serf/query.go", "Serf", "relayResponse", "relayResponse"},
		}
		var b strings.Builder
		b.WriteString("-- GENERATED by /verif/extract from /repo/serf/{serf,event,query}.go — do not edit.\n")
		b.WriteString("import SerfModel.Model.LimitSteps\nnamespace SerfModel.Gen.Limits\nopen SerfModel.LimitSteps\n\n")
		files := map[string]*ast.File{}
		fsets := map[string]*token.FileSet{}
		for _, f := range fns {
			if _, ok := files[f.file]; !ok {
				fset, af, err := parseFile(repo + "/" + f.file)
				if err != nil {
					return "", err
				}
				files[f.file], fsets[f.file] = af, fset
			}
			fd := findFunc(files[f.file], f.recv, f.name)
			if fd == nil {
				return "", fmt.Errorf("%s.%s not found in %s", f.recv, f.name, f.file)
			}
			steps, err := limSteps(fsets[f.file], fd)
			if err != nil {
				return "", err
			}
			fmt.Fprintf(&b, "/-- %s: (%s).%s -/\ndef %s : List Step := [\n", f.file, f.recv, f.name, f.lean)
			for i, s := range steps {
				sep := ","
				if i == len(steps)-1 {
					sep = ""
				}
				fmt.Fprintf(&b, "  %s%s\n", s.lean(), sep)
			}
			b.WriteString("]\n\n")
		}
		c, err := limConst(files["serf/serf.go"], "UserEventSizeLimit")
		if err != nil {
			return "", err
		}
		fmt.Fprintf(&b, "/-- serf.go const UserEventSizeLimit -/\ndef userEventSizeLimitConst : Nat := %d\n\n", c)
		// memberlist.MetaMaxSize is not in this repository; Create's own cap on the configured limit:
		b.WriteString("end SerfModel.Gen.Limits\n")
		return b.String(), nil
	})
}
