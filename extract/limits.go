package main

import (
	"bytes"
	"fmt"
	"go/ast"
	"go/parser"
	"go/printer"
	"go/token"
	"os"
	"path/filepath"
	"regexp"
	"sort"
	"strconv"
	"strings"
)

// Gen/Limits.lean: the size-limit skeleton of serf.go UserEvent and Query, event.go
// respondWithMessageAndResponse / Respond, query.go relayResponse.
//
// What is extracted is MEANING, not text.  Every function body is reduced to the ordered
// list of the steps that matter for property C33:
//
//	guard lhs rhs   the function returns an error iff lhs > rhs (a size comparison); written in any
//	                equivalent way: `if a > b {return err}`, `if b < a {…}`, `if a <= b {rest} else {return err}`, `!(…)`
//	test cond       any other `if cond { return error }` (deadline passed, already responded, protocol too old)
//	clock name      a step of one of the node's Lamport clocks (Increment / Witness), also inside the message literal
//	effect name     an observable effect: local delivery, broadcast queue, registration, SendToAddress, relay
//
// Statements without such a step (assignments, locks, encoding, error propagation, helper
// calls that do none of the above) are dropped.  Operands and arguments are alpha-normalised:
// the receiver is `recv`, parameters are p0,p1,…, single-assignment locals are replaced by their
// definition, other locals are v0,v1,… in order of first definition, package and local constants
// are replaced by their value, keyed composite literals are sorted by key.  Calls to same-package
// helpers are followed (two levels): a helper without steps is effect-free, otherwise its steps
// are spliced in at the call with its parameters substituted.  Guard operands are classified:
//
//	sumLenParams [i,…]   len(p_i) + …
//	lenEnc desc typ fields   len of the result of encodeMessage / encodeRelayMessage; typ = the message type
//	                     constant, fields = the keyed fields of the encoded message literal (normalised)
//	cfg field            <recv>[.serf].config.<field>
//	const n
//	other text
//
// A call that LOOKS like an effect (Send*, Queue*, Broadcast*, handle*, Notify*, relay*, register*, Write*, …) but
// is not on the list of known effects makes the generator fail; so do channel sends to anything, `go`
// statements, and size comparisons that are not equivalent to `lhs > rhs`.

var limEffects = map[string]bool{
	"handleUserEvent": true, "handleQuery": true, "QueueBroadcast": true,
	"registerQueryResponse": true, "SendToAddress": true, "relayResponse": true, "respondWithMessageAndResponse": true,
}

var limSuspicious = regexp.MustCompile(`^(?i)(send|queue|broadcast|handle|notify|relay|register|write|deliver|emit|publish|push|respond|transmit|forward|gossip)`)

type limStep struct {
	kind string // guard | test | clock | effect
	a, b string // guard: Lean operand terms; test: cond; clock: name; effect: name
	args []string
}

type limPkg struct {
	fset  *token.FileSet
	funcs map[string][]*ast.FuncDecl // by bare name
	files map[string]*ast.File
	// package-level constants that evaluate to an integer
	consts map[string]int64
}

func limLoadPkg(dir string) (*limPkg, error) {
	p := &limPkg{fset: token.NewFileSet(), funcs: map[string][]*ast.FuncDecl{}, files: map[string]*ast.File{}, consts: map[string]int64{}}
	ents, err := os.ReadDir(dir)
	if err != nil {
		return nil, err
	}
	for _, e := range ents {
		n := e.Name()
		if !strings.HasSuffix(n, ".go") || strings.HasSuffix(n, "_test.go") || strings.HasPrefix(n, "verif_hooks") {
			continue
		}
		f, err := parser.ParseFile(p.fset, filepath.Join(dir, n), nil, 0)
		if err != nil {
			return nil, err
		}
		p.files[n] = f
		for _, d := range f.Decls {
			switch v := d.(type) {
			case *ast.FuncDecl:
				if v.Body != nil {
					p.funcs[v.Name.Name] = append(p.funcs[v.Name.Name], v)
				}
			case *ast.GenDecl:
				if v.Tok != token.CONST {
					continue
				}
				for _, sp := range v.Specs {
					vs := sp.(*ast.ValueSpec)
					for i, nm := range vs.Names {
						if i < len(vs.Values) {
							if val, err := limEvalWith(vs.Values[i], p.consts); err == nil {
								p.consts[nm.Name] = val
							}
						}
					}
				}
			}
		}
	}
	return p, nil
}

func limEvalWith(e ast.Expr, consts map[string]int64) (int64, error) {
	switch v := e.(type) {
	case *ast.BasicLit:
		if v.Kind != token.INT {
			return 0, fmt.Errorf("not an integer")
		}
		return strconv.ParseInt(v.Value, 0, 64)
	case *ast.Ident:
		if c, ok := consts[v.Name]; ok {
			return c, nil
		}
	case *ast.ParenExpr:
		return limEvalWith(v.X, consts)
	case *ast.BinaryExpr:
		a, err := limEvalWith(v.X, consts)
		if err != nil {
			return 0, err
		}
		b, err := limEvalWith(v.Y, consts)
		if err != nil {
			return 0, err
		}
		switch v.Op {
		case token.MUL:
			return a * b, nil
		case token.ADD:
			return a + b, nil
		case token.SUB:
			return a - b, nil
		case token.SHL:
			return a << uint(b), nil
		}
	}
	return 0, fmt.Errorf("constant expression not understood")
}

// limFn: normalisation context of one function body.
type limFn struct {
	pkg        *limPkg
	fd         *ast.FuncDecl
	depth      int
	subst      map[string]string   // receiver / parameter name -> normalised text
	defs       map[string]ast.Expr // single-assignment locals -> defining expression
	defSfx     map[string]string   // "#i" for the i-th result of a multi-value call
	defText    map[string]string   // locals bound to the (already normalised) results of an inlined helper
	opaque     map[string]string   // other locals -> v<k>
	consts     map[string]int64    // function-local constants
	errVar     map[string]bool     // locals holding an error result of a call
	reassigned map[string]bool     // locals assigned more than once (never inlined)
	nextV      *int
	steps      []limStep
	err        error
}

func (f *limFn) fail(format string, a ...any) {
	if f.err == nil {
		f.err = fmt.Errorf("%s: %s", f.fd.Name.Name, fmt.Sprintf(format, a...))
	}
}

func (f *limFn) raw(n ast.Node) string {
	var b bytes.Buffer
	_ = printer.Fprint(&b, f.pkg.fset, n)
	return strings.Join(strings.Fields(b.String()), " ")
}

func (f *limFn) fresh(name string) {
	delete(f.defs, name)
	delete(f.defText, name)
	delete(f.defSfx, name)
	f.opaque[name] = fmt.Sprintf("v%d", *f.nextV)
	*f.nextV++
}

func (f *limFn) constVal(e ast.Expr) (int64, bool) {
	all := map[string]int64{}
	for k, v := range f.pkg.consts {
		all[k] = v
	}
	for k, v := range f.consts {
		all[k] = v
	}
	// a local or parameter of the same name shadows a constant
	if id, ok := e.(*ast.Ident); ok {
		if _, s := f.subst[id.Name]; s {
			return 0, false
		}
		if _, s := f.defs[id.Name]; s {
			return 0, false
		}
		if _, s := f.opaque[id.Name]; s {
			return 0, false
		}
		if _, s := f.defText[id.Name]; s {
			return 0, false
		}
	}
	v, err := limEvalWith(e, all)
	return v, err == nil
}

// norm: alpha-normalised text of an expression.
func (f *limFn) norm(e ast.Expr) string {
	if e == nil {
		return ""
	}
	if v, ok := f.constVal(e); ok {
		return strconv.FormatInt(v, 10)
	}
	switch v := e.(type) {
	case *ast.Ident:
		if s, ok := f.subst[v.Name]; ok {
			return s
		}
		if t, ok := f.defText[v.Name]; ok {
			return t
		}
		if d, ok := f.defs[v.Name]; ok {
			return f.norm(d) + f.defSfx[v.Name]
		}
		if o, ok := f.opaque[v.Name]; ok {
			return o
		}
		return v.Name
	case *ast.BasicLit:
		return v.Value
	case *ast.ParenExpr:
		switch v.X.(type) {
		case *ast.Ident, *ast.CallExpr, *ast.BasicLit, *ast.SelectorExpr:
			return f.norm(v.X)
		}
		return "(" + f.norm(v.X) + ")"
	case *ast.BinaryExpr:
		return f.norm(v.X) + " " + v.Op.String() + " " + f.norm(v.Y)
	case *ast.UnaryExpr:
		return v.Op.String() + f.norm(v.X)
	case *ast.StarExpr:
		return "*" + f.norm(v.X)
	case *ast.SelectorExpr:
		return f.norm(v.X) + "." + v.Sel.Name
	case *ast.IndexExpr:
		return f.norm(v.X) + "[" + f.norm(v.Index) + "]"
	case *ast.CallExpr:
		args := make([]string, len(v.Args))
		for i, a := range v.Args {
			args[i] = f.norm(a)
		}
		return f.norm(v.Fun) + "(" + strings.Join(args, ", ") + ")"
	case *ast.CompositeLit:
		var keyed, plain []string
		for _, el := range v.Elts {
			if kv, ok := el.(*ast.KeyValueExpr); ok {
				keyed = append(keyed, f.raw(kv.Key)+": "+f.norm(kv.Value))
			} else {
				plain = append(plain, f.norm(el))
			}
		}
		sort.Strings(keyed)
		t := ""
		if v.Type != nil {
			t = f.raw(v.Type)
		}
		return t + "{" + strings.Join(append(plain, keyed...), ", ") + "}"
	case *ast.FuncLit:
		return "func{…}"
	}
	return f.raw(e)
}

// resolve follows single-assignment locals (and & / parentheses) to the defining expression.
func (f *limFn) resolve(e ast.Expr) ast.Expr {
	for i := 0; i < 8; i++ {
		switch v := e.(type) {
		case *ast.ParenExpr:
			e = v.X
		case *ast.UnaryExpr:
			if v.Op != token.AND {
				return e
			}
			e = v.X
		case *ast.Ident:
			d, ok := f.defs[v.Name]
			if !ok || f.defSfx[v.Name] != "" {
				return e
			}
			e = d
		default:
			return e
		}
	}
	return e
}

var (
	reSumLen = regexp.MustCompile(`^len\(p(\d+)\)( \+ len\(p(\d+)\))*$`)
	reLenP   = regexp.MustCompile(`len\(p(\d+)\)`)
	reCfg    = regexp.MustCompile(`^recv(\.serf)?\.config\.(\w+)$`)
	reConst  = regexp.MustCompile(`^\d+$`)
)

func leanStr(s string) string { return strconv.Quote(s) }

// operand: the Lean term for a guard operand.
func (f *limFn) operand(e ast.Expr) string {
	txt := f.norm(e)
	if reSumLen.MatchString(txt) {
		var idx []string
		for _, m := range reLenP.FindAllStringSubmatch(txt, -1) {
			idx = append(idx, m[1])
		}
		return "(.sumLenParams [" + strings.Join(idx, ", ") + "])"
	}
	if m := reCfg.FindStringSubmatch(txt); m != nil {
		return "(.cfg " + leanStr(m[2]) + ")"
	}
	if reConst.MatchString(txt) {
		return "(.const " + txt + ")"
	}
	// len(<encode call>)
	if c, ok := e.(*ast.CallExpr); ok && len(c.Args) == 1 {
		if id, ok := c.Fun.(*ast.Ident); ok && id.Name == "len" {
			if enc, ok := f.resolve(c.Args[0]).(*ast.CallExpr); ok {
				if fn, ok := enc.Fun.(*ast.Ident); ok && (fn.Name == "encodeMessage" || fn.Name == "encodeRelayMessage") && len(enc.Args) >= 2 {
					typ := f.norm(enc.Args[0])
					msgArg := enc.Args[1]
					if fn.Name == "encodeRelayMessage" {
						msgArg = enc.Args[len(enc.Args)-1]
					}
					var fields []string
					if lit, ok := f.resolve(msgArg).(*ast.CompositeLit); ok {
						for _, el := range lit.Elts {
							if kv, ok := el.(*ast.KeyValueExpr); ok {
								fields = append(fields, "("+leanStr(f.raw(kv.Key))+", "+leanStr(f.norm(kv.Value))+")")
							}
						}
						sort.Strings(fields)
					}
					return "(.lenEnc " + leanStr(f.norm(enc)) + " " + leanStr(fn.Name+":"+typ) + " [" + strings.Join(fields, ", ") + "])"
				}
			}
		}
	}
	return "(.other " + leanStr(txt) + ")"
}

var reParam = regexp.MustCompile(`^&?p(\d+)$`)

// encCall: e (through single-assignment locals, & and a one-field wrapper literal such as
// &broadcast{msg: raw}) is the result of encodeMessage / encodeRelayMessage.
func (f *limFn) encCall(e ast.Expr) (*ast.CallExpr, bool) {
	r := f.resolve(e)
	if lit, ok := r.(*ast.CompositeLit); ok && len(lit.Elts) == 1 {
		if kv, ok := lit.Elts[0].(*ast.KeyValueExpr); ok {
			r = f.resolve(kv.Value)
		}
	}
	c, ok := r.(*ast.CallExpr)
	if !ok {
		return nil, false
	}
	fn, ok := c.Fun.(*ast.Ident)
	if !ok || (fn.Name != "encodeMessage" && fn.Name != "encodeRelayMessage") || len(c.Args) < 2 {
		return nil, false
	}
	return c, true
}

// argOf: the Lean term for an effect argument.
func (f *limFn) argOf(e ast.Expr) string {
	if c, ok := f.encCall(e); ok {
		return "(.enc " + leanStr(c.Fun.(*ast.Ident).Name+":"+f.norm(c.Args[0])) + " " + leanStr(f.norm(c)) + ")"
	}
	txt := f.norm(e)
	if m := reParam.FindStringSubmatch(txt); m != nil {
		return "(.param " + m[1] + ")"
	}
	// any other argument: its text is irrelevant to the property and is not recorded
	return "(.other \"_\")"
}

func calleeName(c *ast.CallExpr) string {
	switch fn := c.Fun.(type) {
	case *ast.Ident:
		return fn.Name
	case *ast.SelectorExpr:
		return fn.Sel.Name
	}
	return "?"
}

func clockCall(c *ast.CallExpr) (string, bool) {
	sel, ok := c.Fun.(*ast.SelectorExpr)
	if !ok || (sel.Sel.Name != "Increment" && sel.Sel.Name != "Witness") {
		return "", false
	}
	inner, ok := sel.X.(*ast.SelectorExpr)
	if !ok {
		return "", false
	}
	n := inner.Sel.Name
	if n != "clock" && n != "eventClock" && n != "queryClock" {
		return "", false
	}
	return n + "." + sel.Sel.Name, true
}

// isPkgCall: pkg.Func(...) where pkg is an import of the file (not a local, parameter or receiver).
func (f *limFn) isPkgCall(c *ast.CallExpr) bool {
	sel, ok := c.Fun.(*ast.SelectorExpr)
	if !ok {
		return false
	}
	id, ok := sel.X.(*ast.Ident)
	if !ok {
		return false
	}
	if _, s := f.subst[id.Name]; s {
		return false
	}
	if _, s := f.defs[id.Name]; s {
		return false
	}
	if _, s := f.opaque[id.Name]; s {
		return false
	}
	return id.Obj == nil
}

// helperSteps: the steps of a same-package helper called as c (nil, false when c is not one).
func (f *limFn) helperSteps(c *ast.CallExpr) ([]limStep, bool) {
	name := calleeName(c)
	cands := f.pkg.funcs[name]
	if len(cands) == 0 || f.isPkgCall(c) {
		return nil, false
	}
	if f.depth >= 2 {
		// below the second level helpers are not expanded any more: they must be visibly step-free
		for _, fd := range cands {
			if !limShallowFree(fd) {
				f.fail("helper %s is nested too deeply to follow and is not visibly effect-free", name)
			}
		}
		return nil, true
	}
	var result []limStep
	for i, fd := range cands {
		sub := f.subContext(fd, c)
		sub.block(fd.Body.List)
		if sub.err != nil {
			f.fail("in helper %v", sub.err)
			return nil, true
		}
		if i == 0 {
			result = sub.steps
		} else if len(sub.steps) != 0 || len(result) != 0 {
			f.fail("call to %s is ambiguous (%d declarations) and not all of them are step-free", name, len(cands))
			return nil, true
		}
	}
	return result, true
}

// inlineResults: c calls a same-package helper with exactly one declaration whose body is a
// straight-line block ending in its only `return e1, …, en` and containing no steps: the
// normalised results, with the helper's receiver and parameters substituted.
func (f *limFn) inlineResults(c *ast.CallExpr, n int) ([]string, bool) {
	if f.depth >= 2 || f.isPkgCall(c) {
		return nil, false
	}
	cands := f.pkg.funcs[calleeName(c)]
	if len(cands) != 1 || limEffects[calleeName(c)] {
		return nil, false
	}
	fd := cands[0]
	body := fd.Body.List
	if len(body) == 0 {
		return nil, false
	}
	ret, ok := body[len(body)-1].(*ast.ReturnStmt)
	if !ok || len(ret.Results) != n {
		return nil, false
	}
	for _, st := range body[:len(body)-1] {
		switch st.(type) {
		case *ast.AssignStmt, *ast.DeclStmt:
		default:
			return nil, false
		}
	}
	sub := f.subContext(fd, c)
	sub.block(body[:len(body)-1])
	if sub.err != nil || len(sub.steps) != 0 {
		return nil, false
	}
	out := make([]string, n)
	for i, r := range ret.Results {
		if len(sub.scan(r)) != 0 {
			return nil, false
		}
		out[i] = sub.norm(r)
	}
	return out, true
}

func (f *limFn) subContext(fd *ast.FuncDecl, c *ast.CallExpr) *limFn {
	sub := &limFn{pkg: f.pkg, fd: fd, depth: f.depth + 1, subst: map[string]string{}, defs: map[string]ast.Expr{}, defSfx: map[string]string{},
		opaque: map[string]string{}, consts: map[string]int64{}, errVar: map[string]bool{}, nextV: new(int)}
	if fd.Recv != nil && len(fd.Recv.List) == 1 && len(fd.Recv.List[0].Names) == 1 {
		if sel, ok := c.Fun.(*ast.SelectorExpr); ok {
			sub.subst[fd.Recv.List[0].Names[0].Name] = f.norm(sel.X)
		} else {
			sub.subst[fd.Recv.List[0].Names[0].Name] = "recv"
		}
	}
	k := 0
	for _, fl := range fd.Type.Params.List {
		for _, nm := range fl.Names {
			if k < len(c.Args) {
				sub.subst[nm.Name] = f.norm(c.Args[k])
			}
			k++
		}
	}
	return sub
}

// scan: the steps contained in an expression / statement, in source order.
func (f *limFn) scan(n ast.Node) []limStep {
	var out []limStep
	ast.Inspect(n, func(x ast.Node) bool {
		switch v := x.(type) {
		case *ast.FuncLit:
			return false
		case *ast.SendStmt:
			out = append(out, limStep{kind: "effect", a: "chan-send"})
		case *ast.GoStmt:
			out = append(out, limStep{kind: "effect", a: "go"})
		case *ast.CallExpr:
			name := calleeName(v)
			if ck, ok := clockCall(v); ok {
				out = append(out, limStep{kind: "clock", a: ck})
				return true
			}
			if limEffects[name] {
				args := make([]string, len(v.Args))
				for i, a := range v.Args {
					args[i] = f.argOf(a)
				}
				out = append(out, limStep{kind: "effect", a: name, args: args})
				return true
			}
			if sub, ok := f.helperSteps(v); ok {
				out = append(out, sub...)
				return true
			}
			if limSuspicious.MatchString(name) && strings.HasPrefix(f.norm(v.Fun), "recv.") {
				f.fail("call to %s looks like an observable effect but is not a known one", name)
			}
		}
		return true
	})
	return out
}

// limShallowFree: no known effect, clock step, send or go statement occurs textually in the body.
func limShallowFree(fd *ast.FuncDecl) bool {
	free := true
	ast.Inspect(fd.Body, func(x ast.Node) bool {
		switch v := x.(type) {
		case *ast.SendStmt, *ast.GoStmt:
			free = false
		case *ast.CallExpr:
			if _, ok := clockCall(v); ok || limEffects[calleeName(v)] {
				free = false
			}
		}
		return free
	})
	return free
}

// isErrorReturn: the block ends in `return …, <non-nil error>` and nothing before the return has a step
// (an explicit unlock, a log line).
func (f *limFn) isErrorReturn(b *ast.BlockStmt) bool {
	if b == nil || len(b.List) == 0 {
		return false
	}
	for _, st := range b.List[:len(b.List)-1] {
		switch st.(type) {
		case *ast.ExprStmt, *ast.AssignStmt:
			if len(f.scan(st)) != 0 {
				return false
			}
		default:
			return false
		}
	}
	r, ok := b.List[len(b.List)-1].(*ast.ReturnStmt)
	if !ok || len(r.Results) == 0 {
		return false
	}
	if id, ok := r.Results[len(r.Results)-1].(*ast.Ident); ok && id.Name == "nil" {
		return false
	}
	return true
}

// define records the locals a statement introduces.
func (f *limFn) define(st ast.Stmt) {
	switch v := st.(type) {
	case *ast.AssignStmt:
		if v.Tok == token.DEFINE && len(v.Rhs) == 1 {
			if c, ok := v.Rhs[0].(*ast.CallExpr); ok {
				if res, ok := f.inlineResults(c, len(v.Lhs)); ok {
					for i, l := range v.Lhs {
						if id, ok := l.(*ast.Ident); ok && id.Name != "_" {
							delete(f.defs, id.Name)
							delete(f.defSfx, id.Name)
							delete(f.opaque, id.Name)
							if f.defText == nil {
								f.defText = map[string]string{}
							}
							f.defText[id.Name] = res[i]
						}
					}
					return
				}
			}
			_, isCall := v.Rhs[0].(*ast.CallExpr)
			for i, l := range v.Lhs {
				id, ok := l.(*ast.Ident)
				if !ok || id.Name == "_" {
					continue
				}
				if _, exists := f.defs[id.Name]; exists {
					f.fresh(id.Name)
					continue
				}
				if _, exists := f.opaque[id.Name]; exists {
					f.fresh(id.Name)
					continue
				}
				if len(v.Lhs) == 1 {
					f.defs[id.Name] = v.Rhs[0]
				} else if isCall {
					f.defs[id.Name] = v.Rhs[0]
					if i > 0 {
						f.defSfx[id.Name] = fmt.Sprintf("#%d", i)
						f.errVar[id.Name] = true
					}
				} else {
					f.fresh(id.Name)
				}
				if isCall && len(v.Lhs) == 1 {
					f.errVar[id.Name] = true // may be an error; only used for `x != nil` propagation tests
				}
			}
			return
		}
		for _, l := range v.Lhs {
			if id, ok := l.(*ast.Ident); ok && id.Name != "_" {
				f.fresh(id.Name)
			}
		}
	case *ast.DeclStmt:
		gd, ok := v.Decl.(*ast.GenDecl)
		if !ok {
			return
		}
		for _, sp := range gd.Specs {
			vs, ok := sp.(*ast.ValueSpec)
			if !ok {
				continue
			}
			for i, nm := range vs.Names {
				if gd.Tok == token.CONST && i < len(vs.Values) {
					if val, ok := f.constVal(vs.Values[i]); ok {
						f.consts[nm.Name] = val
						continue
					}
				}
				if gd.Tok == token.VAR && i < len(vs.Values) && len(vs.Names) == len(vs.Values) {
					f.defs[nm.Name] = vs.Values[i]
					continue
				}
				f.fresh(nm.Name)
			}
		}
	case *ast.RangeStmt:
		for _, e := range []ast.Expr{v.Key, v.Value} {
			if id, ok := e.(*ast.Ident); ok && id.Name != "_" {
				f.fresh(id.Name)
			}
		}
	}
}

// a variable that is assigned again later must not be inlined: demote to an opaque local
func (f *limFn) demoteReassigned(list []ast.Stmt) {
	declared := map[string]bool{}
	for _, st := range list {
		ast.Inspect(st, func(x ast.Node) bool {
			switch v := x.(type) {
			case *ast.FuncLit:
				return false
			case *ast.AssignStmt:
				for _, l := range v.Lhs {
					id, ok := l.(*ast.Ident)
					if !ok {
						continue
					}
					if v.Tok == token.DEFINE && !declared[id.Name] {
						declared[id.Name] = true
					} else {
						f.reassigned[id.Name] = true
					}
				}
			case *ast.IncDecStmt:
				if id, ok := v.X.(*ast.Ident); ok {
					f.reassigned[id.Name] = true
				}
			case *ast.UnaryExpr:
				// &x handed to a callee may be written through; message literals passed as &msg are read-only by convention
			}
			return true
		})
	}
}

type cmp struct {
	lhs, rhs ast.Expr
	strict   bool // error iff lhs > rhs (true) / lhs >= rhs (false)
}

// sizeCmp: cond (or its negation when neg) as "error iff lhs > rhs" when it is a size comparison.
func (f *limFn) sizeCmp(cond ast.Expr, neg bool) (*cmp, bool) {
	for {
		if p, ok := cond.(*ast.ParenExpr); ok {
			cond = p.X
			continue
		}
		if u, ok := cond.(*ast.UnaryExpr); ok && u.Op == token.NOT {
			cond, neg = u.X, !neg
			continue
		}
		break
	}
	be, ok := cond.(*ast.BinaryExpr)
	if !ok {
		return nil, false
	}
	txt := f.norm(be)
	if !strings.Contains(txt, "len(") {
		return nil, false
	}
	op := be.Op
	if neg {
		switch op {
		case token.GTR:
			op = token.LEQ
		case token.LSS:
			op = token.GEQ
		case token.GEQ:
			op = token.LSS
		case token.LEQ:
			op = token.GTR
		default:
			return nil, false
		}
	}
	switch op {
	case token.GTR:
		return &cmp{be.X, be.Y, true}, true
	case token.LSS:
		return &cmp{be.Y, be.X, true}, true
	case token.GEQ:
		return &cmp{be.X, be.Y, false}, true
	case token.LEQ:
		return &cmp{be.Y, be.X, false}, true
	}
	return nil, false
}

func (f *limFn) condText(cond ast.Expr, neg bool) string {
	for {
		if p, ok := cond.(*ast.ParenExpr); ok {
			cond = p.X
			continue
		}
		if u, ok := cond.(*ast.UnaryExpr); ok && u.Op == token.NOT {
			cond, neg = u.X, !neg
			continue
		}
		break
	}
	if neg {
		if be, ok := cond.(*ast.BinaryExpr); ok {
			flip := map[token.Token]token.Token{token.EQL: token.NEQ, token.NEQ: token.EQL, token.LSS: token.GEQ, token.GEQ: token.LSS, token.GTR: token.LEQ, token.LEQ: token.GTR}
			if o, ok := flip[be.Op]; ok {
				return f.norm(be.X) + " " + o.String() + " " + f.norm(be.Y)
			}
		}
		return "!(" + f.norm(cond) + ")"
	}
	return f.norm(cond)
}

// isErrProp: `x != nil` where x holds the error result of a call (plain error propagation).
func (f *limFn) isErrProp(cond ast.Expr) bool {
	be, ok := cond.(*ast.BinaryExpr)
	if !ok || be.Op != token.NEQ {
		return false
	}
	id, ok := be.X.(*ast.Ident)
	nl, ok2 := be.Y.(*ast.Ident)
	return ok && ok2 && nl.Name == "nil" && (f.errVar[id.Name] || f.reassigned[id.Name])
}

func (f *limFn) errorExit(cond ast.Expr, neg bool) {
	if c, ok := f.sizeCmp(cond, neg); ok {
		if !c.strict {
			f.fail("size comparison is not equivalent to `lhs > rhs`: %s", f.raw(cond))
			return
		}
		f.steps = append(f.steps, limStep{kind: "guard", a: f.operand(c.lhs), b: f.operand(c.rhs)})
		return
	}
	if !neg && f.isErrProp(cond) {
		return
	}
	f.steps = append(f.steps, limStep{kind: "test", a: f.condText(cond, neg)})
}

// lhsIdents: the identifiers on the left of an assignment.
func lhsIdents(st ast.Stmt) map[string]bool {
	out := map[string]bool{}
	if as, ok := st.(*ast.AssignStmt); ok {
		for _, l := range as.Lhs {
			if id, ok := l.(*ast.Ident); ok {
				out[id.Name] = true
			}
		}
	}
	return out
}

// propagates: `if x != nil { …; return error }` (no else) for one of the given variables.
func (f *limFn) propagates(st ast.Stmt, vars map[string]bool) bool {
	v, ok := st.(*ast.IfStmt)
	if !ok || v.Else != nil || !f.isErrorReturn(v.Body) {
		return false
	}
	be, ok := v.Cond.(*ast.BinaryExpr)
	if !ok || be.Op != token.NEQ {
		return false
	}
	id, ok := be.X.(*ast.Ident)
	nl, ok2 := be.Y.(*ast.Ident)
	return ok && ok2 && nl.Name == "nil" && vars[id.Name]
}

func hasGate(steps []limStep) bool {
	for _, s := range steps {
		if s.kind == "guard" || s.kind == "test" {
			return true
		}
	}
	return false
}

// scanInto appends the steps found in n.  Guards and tests can only come out of a helper that was
// followed; they count as guards of THIS function only where the helper's error result is propagated
// unconditionally (allowGates).  A size or deadline check that is skipped under a condition, run in a
// loop, or whose result is dropped is not a guard: the generator refuses it.
func (f *limFn) scanInto(n ast.Node, allowGates bool, where string) {
	steps := f.scan(n)
	if !allowGates && hasGate(steps) {
		f.fail("a check made by a helper is not applied unconditionally (%s): %s", where, f.raw(n))
		return
	}
	f.steps = append(f.steps, steps...)
}

func (f *limFn) block(list []ast.Stmt) {
	if f.reassigned == nil {
		f.reassigned = map[string]bool{}
		f.demoteReassigned(list)
	}
	for i, st := range list {
		if f.err != nil {
			return
		}
		switch v := st.(type) {
		case *ast.IfStmt:
			elseBlock, _ := v.Else.(*ast.BlockStmt)
			thenErr := f.isErrorReturn(v.Body) && (v.Else == nil || elseBlock != nil)
			elseErr := !thenErr && elseBlock != nil && f.isErrorReturn(elseBlock)
			if !thenErr && !elseErr {
				// a conditional without an error exit: its steps (if any) in source order; no guards in there
				f.nested(v, "inside a conditional")
				continue
			}
			if v.Init != nil {
				allow := thenErr && v.Else == nil && f.propagates(&ast.IfStmt{Cond: v.Cond, Body: v.Body}, lhsIdents(v.Init))
				f.scanInto(v.Init, allow, "result not propagated")
				f.define(v.Init)
				f.demote()
			}
			f.scanInto(v.Cond, false, "inside a condition")
			if thenErr {
				f.errorExit(v.Cond, false)
				if elseBlock != nil {
					f.block(elseBlock.List)
				}
			} else {
				f.errorExit(v.Cond, true)
				f.block(v.Body.List)
			}
		case *ast.BlockStmt:
			f.block(v.List)
		case *ast.AssignStmt:
			if i+1 < len(list) && f.propagates(list[i+1], lhsIdents(v)) {
				f.define(v)
				f.demote()
				f.scanInto(v, true, "")
			} else {
				f.nested(st, "result not propagated")
			}
		default:
			f.nested(st, "inside a compound statement")
		}
	}
}

// nested: a statement taken as a whole (its inner locals are registered first, so that effect
// arguments are normalised consistently).
func (f *limFn) nested(st ast.Stmt, where string) {
	ast.Inspect(st, func(x ast.Node) bool {
		if _, ok := x.(*ast.FuncLit); ok {
			return false
		}
		if s, ok := x.(ast.Stmt); ok {
			f.define(s)
		}
		return true
	})
	f.demote()
	f.scanInto(st, false, where)
}

func (f *limFn) demote() {
	for name := range f.reassigned {
		if _, ok := f.defs[name]; ok {
			f.fresh(name)
		}
	}
}

func limTop(pkg *limPkg, recv, name string) ([]limStep, error) {
	var fd *ast.FuncDecl
	for _, c := range pkg.funcs[name] {
		if c.Recv == nil || len(c.Recv.List) != 1 {
			continue
		}
		t := c.Recv.List[0].Type
		if s, ok := t.(*ast.StarExpr); ok {
			t = s.X
		}
		if id, ok := t.(*ast.Ident); ok && id.Name == recv {
			fd = c
		}
	}
	if fd == nil {
		return nil, fmt.Errorf("(%s).%s not found", recv, name)
	}
	nv := 0
	f := &limFn{pkg: pkg, fd: fd, subst: map[string]string{}, defs: map[string]ast.Expr{}, defSfx: map[string]string{}, opaque: map[string]string{},
		consts: map[string]int64{}, errVar: map[string]bool{}, nextV: &nv}
	if len(fd.Recv.List[0].Names) == 1 {
		f.subst[fd.Recv.List[0].Names[0].Name] = "recv"
	}
	k := 0
	for _, fl := range fd.Type.Params.List {
		for _, nm := range fl.Names {
			f.subst[nm.Name] = fmt.Sprintf("p%d", k)
			k++
		}
	}
	f.block(fd.Body.List)
	return f.steps, f.err
}

func (s limStep) lean() string {
	switch s.kind {
	case "guard":
		return fmt.Sprintf(".guard %s %s", s.a, s.b)
	case "test":
		return fmt.Sprintf(".test %s", leanStr(s.a))
	case "clock":
		return fmt.Sprintf(".clock %s", leanStr(s.a))
	}
	return fmt.Sprintf(".effect %s [%s]", leanStr(s.a), strings.Join(s.args, ", "))
}

func init() {
	addGen("Limits", func(repo string) (string, error) {
		pkg, err := limLoadPkg(repo + "/serf")
		if err != nil {
			return "", err
		}
		fns := []struct{ recv, name, lean string }{
			{"Serf", "UserEvent", "userEvent"},
			{"Serf", "Query", "query"},
			{"Query", "respondWithMessageAndResponse", "respondWithMessageAndResponse"},
			{"Query", "Respond", "respond"},
			{"Serf", "relayResponse", "relayResponse"},
		}
		var b strings.Builder
		b.WriteString("-- GENERATED by /verif/extract from /repo/serf/*.go (UserEvent, Query, respondWithMessageAndResponse, Respond, relayResponse) — do not edit.\n")
		b.WriteString("import SerfModel.Model.LimitSteps\nnamespace SerfModel.Gen.Limits\nopen SerfModel.LimitSteps\n\n")
		for _, fn := range fns {
			steps, err := limTop(pkg, fn.recv, fn.name)
			if err != nil {
				return "", err
			}
			fmt.Fprintf(&b, "/-- (%s).%s -/\ndef %s : List Step := [\n", fn.recv, fn.name, fn.lean)
			for i, s := range steps {
				sep := ","
				if i == len(steps)-1 {
					sep = ""
				}
				fmt.Fprintf(&b, "  %s%s\n", s.lean(), sep)
			}
			b.WriteString("]\n\n")
		}
		c, ok := pkg.consts["UserEventSizeLimit"]
		if !ok {
			return "", fmt.Errorf("constant UserEventSizeLimit not found")
		}
		fmt.Fprintf(&b, "/-- serf.go const UserEventSizeLimit -/\ndef userEventSizeLimitConst : Nat := %d\n\n", c)
		b.WriteString("end SerfModel.Gen.Limits\n")
		return b.String(), nil
	})
}

// ---- small helpers shared with other generators of this package ----

func limText(fset *token.FileSet, n ast.Node) string {
	var b bytes.Buffer
	_ = printer.Fprint(&b, fset, n)
	return strings.Join(strings.Fields(b.String()), " ")
}

func limQuote(s string) string { return strconv.Quote(s) }

// limEval evaluates an integer constant expression built from literals, * + - <<.
func limEval(e ast.Expr) (int64, error) { return limEvalWith(e, nil) }

// limConst evaluates `const name = <int expr>` in file f.
func limConst(f *ast.File, name string) (int64, error) {
	for _, d := range f.Decls {
		gd, ok := d.(*ast.GenDecl)
		if !ok || gd.Tok != token.CONST {
			continue
		}
		for _, sp := range gd.Specs {
			vs := sp.(*ast.ValueSpec)
			for i, n := range vs.Names {
				if n.Name != name || i >= len(vs.Values) {
					continue
				}
				return limEval(vs.Values[i])
			}
		}
	}
	return 0, fmt.Errorf("constant %s not found", name)
}
