package main

import (
	"go/ast"
	"go/token"
	"sort"
	"strconv"
	"strings"
)

// Normalisation of expressions before they are compared with a canonical form, so that
// behaviour-preserving edits do not change the generated facts:
//   - identifiers are replaced by ROLE names ($client, $req, …) assigned by the caller from
//     types and defining expressions, never from the spelling of the identifier;
//   - package constants (and function-local ones) are replaced by their values;
//   - the operands of == and != are ordered, a comparison with a literal on the left is turned
//     round, the operands of && and || are flattened and ordered, parentheses dropped;
//   - `!(a == b)` becomes `a != b` and vice versa, `!!x` becomes `x`.

type nenv struct {
	names  map[string]string // identifier -> role
	consts map[string]string // constant -> Go literal text
	// same-file functions of the form `func f(a, b T) R { return <expr> }`: a call is replaced by
	// the normalised body (one level), so extracting or inlining such a helper changes nothing
	helpers map[string]*ast.FuncDecl
	depth   int
}

func newEnv(consts map[string]string) *nenv {
	return &nenv{names: map[string]string{}, consts: consts}
}

// withHelpers registers the trivial helpers of a file.
func (n *nenv) withHelpers(f *ast.File) *nenv {
	n.helpers = map[string]*ast.FuncDecl{}
	for _, d := range f.Decls {
		fd, ok := d.(*ast.FuncDecl)
		if !ok || fd.Recv != nil || fd.Body == nil || len(fd.Body.List) != 1 {
			continue
		}
		if r, ok := fd.Body.List[0].(*ast.ReturnStmt); ok && len(r.Results) == 1 {
			n.helpers[fd.Name.Name] = fd
		}
	}
	return n
}

func (n *nenv) clone() *nenv {
	m := newEnv(n.consts)
	m.helpers, m.depth = n.helpers, n.depth
	for k, v := range n.names {
		m.names[k] = v
	}
	return m
}

// constLiterals maps every string/int constant of the file (and of the given function) to its literal text.
func constLiterals(f *ast.File, fd *ast.FuncDecl) map[string]string {
	out := map[string]string{}
	add := func(gd *ast.GenDecl) {
		if gd.Tok != token.CONST {
			return
		}
		for _, sp := range gd.Specs {
			vs := sp.(*ast.ValueSpec)
			for i, nm := range vs.Names {
				if i < len(vs.Values) {
					if bl, ok := vs.Values[i].(*ast.BasicLit); ok {
						out[nm.Name] = bl.Value
					}
				}
			}
		}
	}
	for _, d := range f.Decls {
		if gd, ok := d.(*ast.GenDecl); ok {
			add(gd)
		}
	}
	if fd != nil && fd.Body != nil {
		ast.Inspect(fd.Body, func(x ast.Node) bool {
			if ds, ok := x.(*ast.DeclStmt); ok {
				if gd, ok := ds.Decl.(*ast.GenDecl); ok {
					add(gd)
				}
			}
			return true
		})
	}
	return out
}

func isLitText(s string) bool {
	if s == "" {
		return false
	}
	c := s[0]
	return c == '"' || c == '`' || (c >= '0' && c <= '9') || c == '-' || s == "nil" || s == "true" || s == "false"
}

var flipCmp = map[token.Token]token.Token{token.LSS: token.GTR, token.GTR: token.LSS, token.LEQ: token.GEQ, token.GEQ: token.LEQ}
var negCmp = map[token.Token]token.Token{token.EQL: token.NEQ, token.NEQ: token.EQL, token.LSS: token.GEQ, token.GEQ: token.LSS, token.GTR: token.LEQ, token.LEQ: token.GTR}

func (n *nenv) flatten(e ast.Expr, op token.Token, out *[]string) {
	for {
		p, ok := e.(*ast.ParenExpr)
		if !ok {
			break
		}
		e = p.X
	}
	if b, ok := e.(*ast.BinaryExpr); ok && b.Op == op {
		n.flatten(b.X, op, out)
		n.flatten(b.Y, op, out)
		return
	}
	s := n.expr(e)
	if b, ok := e.(*ast.BinaryExpr); ok && (b.Op == token.LAND || b.Op == token.LOR) {
		s = "(" + s + ")"
	}
	*out = append(*out, s)
}

func (n *nenv) expr(e ast.Expr) string {
	switch x := e.(type) {
	case *ast.ParenExpr:
		return n.expr(x.X)
	case *ast.Ident:
		if r, ok := n.names[x.Name]; ok {
			return r
		}
		if c, ok := n.consts[x.Name]; ok {
			return c
		}
		return x.Name
	case *ast.BasicLit:
		if x.Kind == token.STRING {
			if s, err := strconv.Unquote(x.Value); err == nil {
				return strconv.Quote(s)
			}
		}
		return x.Value
	case *ast.SelectorExpr:
		return n.expr(x.X) + "." + x.Sel.Name
	case *ast.StarExpr:
		return "*" + n.expr(x.X)
	case *ast.UnaryExpr:
		if x.Op == token.NOT {
			inner := x.X
			for {
				p, ok := inner.(*ast.ParenExpr)
				if !ok {
					break
				}
				inner = p.X
			}
			if u, ok := inner.(*ast.UnaryExpr); ok && u.Op == token.NOT {
				return n.expr(u.X)
			}
			if b, ok := inner.(*ast.BinaryExpr); ok {
				if neg, ok := negCmp[b.Op]; ok {
					return n.expr(&ast.BinaryExpr{X: b.X, Op: neg, Y: b.Y})
				}
				return "!(" + n.expr(b) + ")"
			}
		}
		return x.Op.String() + n.expr(x.X)
	case *ast.BinaryExpr:
		switch x.Op {
		case token.LAND, token.LOR:
			var parts []string
			n.flatten(x, x.Op, &parts)
			sort.Strings(parts)
			return strings.Join(parts, " "+x.Op.String()+" ")
		case token.EQL, token.NEQ:
			l, r := n.expr(x.X), n.expr(x.Y)
			if isLitText(l) && !isLitText(r) || (isLitText(l) == isLitText(r) && l > r) {
				l, r = r, l
			}
			return l + " " + x.Op.String() + " " + r
		case token.LSS, token.GTR, token.LEQ, token.GEQ:
			l, r := n.expr(x.X), n.expr(x.Y)
			op := x.Op
			if isLitText(l) && !isLitText(r) {
				l, r, op = r, l, flipCmp[op]
			}
			return l + " " + op.String() + " " + r
		}
		return n.expr(x.X) + " " + x.Op.String() + " " + n.expr(x.Y)
	case *ast.CallExpr:
		if id, ok := x.Fun.(*ast.Ident); ok && n.depth == 0 {
			if fd, ok := n.helpers[id.Name]; ok {
				var params []string
				for _, f := range fd.Type.Params.List {
					for _, nm := range f.Names {
						params = append(params, nm.Name)
					}
				}
				if len(params) == len(x.Args) {
					sub := n.clone()
					sub.depth = 1
					for i, p := range params {
						sub.names[p] = n.expr(x.Args[i])
					}
					return sub.expr(fd.Body.List[0].(*ast.ReturnStmt).Results[0])
				}
			}
		}
		var args []string
		for _, a := range x.Args {
			args = append(args, n.expr(a))
		}
		return n.expr(x.Fun) + "(" + strings.Join(args, ", ") + ")"
	case *ast.IndexExpr:
		return n.expr(x.X) + "[" + n.expr(x.Index) + "]"
	}
	return exprString(e)
}

// typeName: the identifier at the core of a type expression (*T, T, pkg.T -> T).
func typeName(t ast.Expr) string {
	switch x := t.(type) {
	case *ast.StarExpr:
		return typeName(x.X)
	case *ast.Ident:
		return x.Name
	case *ast.SelectorExpr:
		return x.Sel.Name
	}
	return ""
}

// bindSignature gives roles to the receiver and to parameters by their TYPE.
func (n *nenv) bindSignature(fd *ast.FuncDecl, recvRole string, byType map[string]string) {
	if fd.Recv != nil && len(fd.Recv.List) == 1 && len(fd.Recv.List[0].Names) == 1 {
		n.names[fd.Recv.List[0].Names[0].Name] = recvRole
	}
	for _, f := range fd.Type.Params.List {
		if r, ok := byType[typeName(f.Type)]; ok {
			for _, nm := range f.Names {
				n.names[nm.Name] = r
			}
		}
	}
}

// bindLocals gives roles to locals by the type they are declared with (`var x T`, `x := T{…}`)
// or by the normalised expression that defines them (`x := <expr>` with byDef[<expr>]).
func (n *nenv) bindLocals(body *ast.BlockStmt, byType, byDef map[string]string) {
	ast.Inspect(body, func(x ast.Node) bool {
		switch s := x.(type) {
		case *ast.FuncLit:
			return false
		case *ast.DeclStmt:
			if gd, ok := s.Decl.(*ast.GenDecl); ok && gd.Tok == token.VAR {
				for _, sp := range gd.Specs {
					vs := sp.(*ast.ValueSpec)
					if r, ok := byType[typeName(vs.Type)]; ok && vs.Type != nil {
						for _, nm := range vs.Names {
							n.names[nm.Name] = r
						}
					}
				}
			}
		case *ast.AssignStmt:
			if s.Tok == token.DEFINE && len(s.Lhs) == len(s.Rhs) {
				for i, l := range s.Lhs {
					id, ok := l.(*ast.Ident)
					if !ok {
						continue
					}
					if cl, ok := s.Rhs[i].(*ast.CompositeLit); ok {
						if r, ok := byType[typeName(cl.Type)]; ok {
							n.names[id.Name] = r
							continue
						}
					}
					if r, ok := byDef[n.expr(s.Rhs[i])]; ok {
						n.names[id.Name] = r
					}
				}
			}
		}
		return true
	})
}
