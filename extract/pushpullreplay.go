package main

import (
	"fmt"
	"go/ast"
	"strconv"
	"strings"
)

// PushPullReplay: the user-event part of delegate.MergeRemoteState
// (serf/delegate.go): the witness of the remote event clock, the join-ignore
// raise of the cut-off, the replay loop over the remote buffer image, and their
// order. The hand model is EventBuf.witnessRemote / raiseMin / flatten / handleAll.

// ppCanonicalNames renames, by ROLE, the variables the generated text mentions, so that
// a renaming of locals, of the receiver or of the parameters does not change it:
// receiver → d, parameters → buf, isJoin; the decoded message (whose .Events the replay
// loop ranges over) → pp; the loop variables → slot, event; the local that receives
// eventJoinIgnore.Load() → eventJoinIgnore; the message handed to handleUserEvent → userEvent.
func ppCanonicalNames(fd *ast.FuncDecl) {
	names := map[*ast.Object]string{}
	set := func(id *ast.Ident, name string) {
		if id != nil && id.Obj != nil && id.Name != "_" {
			if _, done := names[id.Obj]; !done {
				names[id.Obj] = name
			}
		}
	}
	if fd.Recv != nil && len(fd.Recv.List) == 1 && len(fd.Recv.List[0].Names) == 1 {
		set(fd.Recv.List[0].Names[0], "d")
	}
	k := 0
	for _, f := range fd.Type.Params.List {
		for _, n := range f.Names {
			if k < 2 {
				set(n, []string{"buf", "isJoin"}[k])
			}
			k++
		}
	}
	ast.Inspect(fd.Body, func(n ast.Node) bool {
		switch x := n.(type) {
		case *ast.AssignStmt:
			if len(x.Lhs) == 1 && len(x.Rhs) == 1 && strings.Contains(exprString(x.Rhs[0]), ".eventJoinIgnore.Load()") {
				if id, ok := x.Lhs[0].(*ast.Ident); ok {
					set(id, "eventJoinIgnore")
				}
			}
		case *ast.RangeStmt:
			sel, ok := x.X.(*ast.SelectorExpr)
			if !ok || sel.Sel.Name != "Events" {
				return true
			}
			calls := false
			ast.Inspect(x.Body, func(m ast.Node) bool {
				if ce, ok := m.(*ast.CallExpr); ok && strings.HasSuffix(exprString(ce.Fun), ".handleUserEvent") {
					calls = true
					if len(ce.Args) == 1 {
						if u, ok := ce.Args[0].(*ast.UnaryExpr); ok {
							if id, ok := u.X.(*ast.Ident); ok {
								set(id, "userEvent")
							}
						}
					}
				}
				return true
			})
			if !calls {
				return true
			}
			if base, ok := sel.X.(*ast.Ident); ok && base.Obj != nil { // the outer loop: pp.Events
				if _, named := names[base.Obj]; !named {
					set(base, "pp")
					if v, ok := x.Value.(*ast.Ident); ok {
						set(v, "slot")
					}
				}
			}
			if v, ok := x.Value.(*ast.Ident); ok { // the inner loop: slot.Events (outer one already named)
				set(v, "event")
			}
		}
		return true
	})
	renameVars(fd, names)
}

func genPushPullReplay(repo string) (string, error) {
	_, f, err := parseFile(repo + "/serf/delegate.go")
	if err != nil {
		return "", err
	}
	fd := findFunc(f, "delegate", "MergeRemoteState")
	if fd == nil || fd.Body == nil {
		return "", fmt.Errorf("delegate.MergeRemoteState not found")
	}
	ppCanonicalNames(fd)
	type shape struct {
		witnessGuard, witnessArg                     string
		raiseGuard, raiseTest, raiseAssign           string
		raiseUnderLock                               bool
		ignoreFrom                                   string
		order                                        []string
		skipsNil                                     bool
		rangeOver, innerRange                        string
		ltimeFrom, nameFrom, payloadFrom, handlerArg string
		handlerCalls                                 int
	}
	var sh shape
	for _, st := range fd.Body.List {
		switch x := st.(type) {
		case *ast.AssignStmt:
			if len(x.Lhs) == 1 && exprString(x.Lhs[0]) == "eventJoinIgnore" && len(x.Rhs) == 1 {
				sh.ignoreFrom = exprString(x.Rhs[0])
			}
		case *ast.IfStmt:
			body := exprString(x.Body)
			switch {
			case strings.Contains(body, "eventClock.Witness("):
				if x.Init != nil || x.Else != nil || len(x.Body.List) != 1 {
					return "", fmt.Errorf("unsupported event clock witness block")
				}
				call, ok := x.Body.List[0].(*ast.ExprStmt)
				if !ok {
					return "", fmt.Errorf("unsupported event clock witness statement")
				}
				ce, ok := call.X.(*ast.CallExpr)
				if !ok || !strings.HasSuffix(exprString(ce.Fun), ".serf.eventClock.Witness") || len(ce.Args) != 1 {
					return "", fmt.Errorf("unsupported event clock witness call %q", exprString(call.X))
				}
				if sh.witnessGuard != "" {
					return "", fmt.Errorf("event clock witnessed twice")
				}
				sh.witnessGuard, sh.witnessArg = exprString(x.Cond), exprString(ce.Args[0])
				sh.order = append(sh.order, "witness")
			case strings.Contains(body, "eventMinTime"):
				if x.Init != nil || x.Else != nil || sh.raiseGuard != "" {
					return "", fmt.Errorf("unsupported cut-off block")
				}
				sh.raiseGuard = exprString(x.Cond)
				var inner *ast.IfStmt
				locks := 0
				for _, s := range x.Body.List {
					switch y := s.(type) {
					case *ast.IfStmt:
						if inner != nil {
							return "", fmt.Errorf("cut-off block: more than one test")
						}
						inner = y
					case *ast.ExprStmt:
						src := exprString(y.X)
						if strings.HasSuffix(src, ".serf.eventLock.Lock()") && inner == nil {
							locks++
						} else if strings.HasSuffix(src, ".serf.eventLock.Unlock()") && inner != nil {
							locks++
						} else {
							return "", fmt.Errorf("cut-off block: unsupported statement %q", src)
						}
					default:
						return "", fmt.Errorf("cut-off block: unsupported statement %q", exprString(s))
					}
				}
				if inner == nil || inner.Init != nil || inner.Else != nil || len(inner.Body.List) != 1 {
					return "", fmt.Errorf("cut-off block: unsupported test")
				}
				sh.raiseUnderLock = locks == 2
				sh.raiseTest, sh.raiseAssign = exprString(inner.Cond), exprString(inner.Body.List[0])
				sh.order = append(sh.order, "raise")
			}
		case *ast.RangeStmt:
			if !strings.HasSuffix(exprString(x.X), ".Events") || x.Value == nil {
				continue
			}
			if sh.rangeOver != "" {
				return "", fmt.Errorf("two replay loops")
			}
			sh.rangeOver = exprString(x.X)
			slot := exprString(x.Value)
			sh.order = append(sh.order, "replay")
			for _, s := range x.Body.List {
				switch y := s.(type) {
				case *ast.IfStmt:
					if exprString(y.Cond) == slot+" == nil" && len(y.Body.List) == 1 && exprString(y.Body.List[0]) == "continue" && y.Else == nil {
						sh.skipsNil = true
					} else {
						return "", fmt.Errorf("replay loop: unsupported if %q", exprString(y.Cond))
					}
				case *ast.AssignStmt:
					if len(y.Lhs) == 1 && exprString(y.Lhs[0]) == "userEvent.LTime" {
						sh.ltimeFrom = strings.Replace(exprString(y.Rhs[0]), slot+".", "slot.", 1)
					} else {
						return "", fmt.Errorf("replay loop: unsupported assignment %q", exprString(y))
					}
				case *ast.RangeStmt:
					if y.Value == nil || sh.innerRange != "" {
						return "", fmt.Errorf("replay loop: unsupported inner loop")
					}
					sh.innerRange = strings.Replace(exprString(y.X), slot+".", "slot.", 1)
					ev := exprString(y.Value)
					for _, z := range y.Body.List {
						switch w := z.(type) {
						case *ast.AssignStmt:
							l, r := exprString(w.Lhs[0]), strings.Replace(exprString(w.Rhs[0]), ev+".", "event.", 1)
							switch l {
							case "userEvent.Name":
								sh.nameFrom = r
							case "userEvent.Payload":
								sh.payloadFrom = r
							default:
								return "", fmt.Errorf("replay loop: unsupported assignment %q", exprString(w))
							}
						case *ast.ExprStmt:
							ce, ok := w.X.(*ast.CallExpr)
							if !ok || !strings.HasSuffix(exprString(ce.Fun), ".serf.handleUserEvent") || len(ce.Args) != 1 {
								return "", fmt.Errorf("replay loop: unsupported call %q", exprString(w.X))
							}
							sh.handlerArg = exprString(ce.Args[0])
							sh.handlerCalls++
						default:
							return "", fmt.Errorf("replay loop: unsupported statement %q", exprString(z))
						}
					}
				default:
					return "", fmt.Errorf("replay loop: unsupported statement %q", exprString(s))
				}
			}
		}
	}
	if sh.witnessGuard == "" || sh.raiseGuard == "" || sh.rangeOver == "" {
		return "", fmt.Errorf("MergeRemoteState: witness / cut-off / replay part not found (%v)", sh.order)
	}
	// handleUserEvent must not be called anywhere else in the function
	total := 0
	ast.Inspect(fd.Body, func(n ast.Node) bool {
		if ce, ok := n.(*ast.CallExpr); ok && strings.HasSuffix(exprString(ce.Fun), ".handleUserEvent") {
			total++
		}
		return true
	})
	if total != sh.handlerCalls {
		return "", fmt.Errorf("handleUserEvent is called %d times, %d of them in the replay loop", total, sh.handlerCalls)
	}
	q := strconv.Quote
	var ord []string
	for _, o := range sh.order {
		ord = append(ord, q(o))
	}
	var b strings.Builder
	b.WriteString("-- GENERATED by /verif/extract from /repo/serf/delegate.go (MergeRemoteState, user-event part) — do not edit.\n")
	b.WriteString("import SerfModel.Model.EventBuf\nnamespace SerfModel.Gen.PushPullReplay\nopen SerfModel.EventBuf\n\n")
	fmt.Fprintf(&b, "def shape : ReplayShape :=\n  { witnessGuard := %s, witnessArg := %s,\n    ignoreFrom := %s, raiseGuard := %s, raiseTest := %s, raiseAssign := %s, raiseUnderLock := %s,\n    order := [%s],\n    rangeOver := %s, skipsNil := %s, ltimeFrom := %s, innerRange := %s, nameFrom := %s, payloadFrom := %s,\n    handlerArg := %s, handlerCalls := %d }\n\n",
		q(sh.witnessGuard), q(sh.witnessArg), q(sh.ignoreFrom), q(sh.raiseGuard), q(sh.raiseTest), q(sh.raiseAssign), leanBool(sh.raiseUnderLock),
		strings.Join(ord, ", "), q(sh.rangeOver), leanBool(sh.skipsNil), q(sh.ltimeFrom), q(sh.innerRange), q(sh.nameFrom), q(sh.payloadFrom),
		q(sh.handlerArg), sh.handlerCalls)
	b.WriteString("end SerfModel.Gen.PushPullReplay\n")
	return b.String(), nil
}

func init() { addGen("PushPullReplay", genPushPullReplay) }
