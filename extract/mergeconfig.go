package main

import (
	"fmt"
	"go/ast"
	"go/token"
	"strings"
)

// Translation of cmd/serf/command/agent/config.go (type Config, MergeConfig,
// ReadConfigPaths) into the rule table interpreted by SerfModel/Model/Config.lean.
//
// For every field of Config (the nested MDNSConfig is flattened to "MDNS.X") the
// generator records its kind and the ONE merge rule MergeConfig applies to it:
//
//	if b.X != "" { result.X = b.X }            overrideIfNonEmpty
//	if b.X != 0  { result.X = b.X }            overrideIfNonZero
//	if b.X > 0   { result.X = b.X }            overrideIfPositive
//	if b.X { result.X = true | b.X }           orSwitch
//	result.X = b.X                             always
//	result.X = make([]string,0,…); append a…; append b…     concat
//	if a.X != nil || b.X != nil { result.X = make(map…); maps.Copy(result.X, a.X); maps.Copy(result.X, b.X) }   tagsFresh
//	if b.X != nil { if result.X == nil { result.X = make(map…) }; maps.Copy(result.X, b.X) }                     tagsInPlace (the pre-repair shape: writes through a's map)
//	result.X = append(a.X, b.X...)                                                                               appendInPlace (grows a's slice in place when it has spare capacity)
//	(no statement)                             none   — result keeps a's value (var result = *a)
//
// Any other statement, a second statement about the same field, or a statement
// about an unknown field is an error.

type cfgField struct {
	name string
	kind string
	rule string
}

func kindOfType(t ast.Expr) string {
	switch exprString(t) {
	case "string":
		return "str"
	case "int":
		return "int"
	case "time.Duration":
		return "dur"
	case "bool":
		return "bool"
	case "map[string]string":
		return "tags"
	case "[]string":
		return "list"
	}
	return ""
}

func findStruct(f *ast.File, name string) *ast.StructType {
	for _, d := range f.Decls {
		gd, ok := d.(*ast.GenDecl)
		if !ok || gd.Tok != token.TYPE {
			continue
		}
		for _, s := range gd.Specs {
			ts := s.(*ast.TypeSpec)
			if ts.Name.Name == name {
				if st, ok := ts.Type.(*ast.StructType); ok {
					return st
				}
			}
		}
	}
	return nil
}

func structFields(f *ast.File, name, prefix string, depth int) ([]cfgField, error) {
	st := findStruct(f, name)
	if st == nil {
		return nil, fmt.Errorf("type %s struct not found", name)
	}
	var out []cfgField
	for _, fl := range st.Fields.List {
		if len(fl.Names) == 0 {
			return nil, fmt.Errorf("embedded field in %s", name)
		}
		for _, n := range fl.Names {
			k := kindOfType(fl.Type)
			if k != "" {
				out = append(out, cfgField{name: prefix + n.Name, kind: k, rule: "none"})
				continue
			}
			id, ok := fl.Type.(*ast.Ident)
			if !ok || depth > 0 {
				return nil, fmt.Errorf("field %s%s has unsupported type %s", prefix, n.Name, exprString(fl.Type))
			}
			sub, err := structFields(f, id.Name, prefix+n.Name+".", depth+1)
			if err != nil {
				return nil, err
			}
			out = append(out, sub...)
		}
	}
	return out, nil
}

// selPath returns ("b", "MDNS.Interface") for b.MDNS.Interface.
func selPath(e ast.Expr) (string, string, bool) {
	var parts []string
	for {
		switch x := e.(type) {
		case *ast.SelectorExpr:
			parts = append([]string{x.Sel.Name}, parts...)
			e = x.X
			continue
		case *ast.Ident:
			if len(parts) == 0 {
				return "", "", false
			}
			return x.Name, strings.Join(parts, "."), true
		}
		return "", "", false
	}
}

type mergeTr struct {
	fields []cfgField
	index  map[string]int
}

func (t *mergeTr) set(field, rule string, pos string) error {
	i, ok := t.index[field]
	if !ok {
		return fmt.Errorf("%s: statement about unknown field %s", pos, field)
	}
	if t.fields[i].rule != "none" {
		return fmt.Errorf("%s: second statement about field %s", pos, field)
	}
	t.fields[i].rule = rule
	return nil
}

func isSel(e ast.Expr, root, field string) bool {
	r, f, ok := selPath(e)
	return ok && r == root && f == field
}

func isIdent(e ast.Expr, name string) bool {
	id, ok := e.(*ast.Ident)
	return ok && id.Name == name
}

func isLit(e ast.Expr, v string) bool {
	b, ok := e.(*ast.BasicLit)
	return ok && b.Value == v
}

// makeCall recognises make(<typ>, …).
func isMake(e ast.Expr, typ string) bool {
	c, ok := e.(*ast.CallExpr)
	return ok && isIdent(c.Fun, "make") && len(c.Args) >= 1 && exprString(c.Args[0]) == typ
}

// mapsCopy recognises maps.Copy(result.F, <root>.F).
func isMapsCopy(s ast.Stmt, field, root string) bool {
	// for k, v := range <root>.F { result.F[k] = v }
	if rs, ok := s.(*ast.RangeStmt); ok && rs.Key != nil && rs.Value != nil && isSel(rs.X, root, field) && len(rs.Body.List) == 1 {
		l, r, ok := singleAssign(rs.Body.List[0])
		if ix, okI := l.(*ast.IndexExpr); ok && okI && isSel(ix.X, "result", field) &&
			exprString(ix.Index) == exprString(rs.Key) && exprString(r) == exprString(rs.Value) {
			return true
		}
		return false
	}
	es, ok := s.(*ast.ExprStmt)
	if !ok {
		return false
	}
	c, ok := es.X.(*ast.CallExpr)
	if !ok || exprString(c.Fun) != "maps.Copy" || len(c.Args) != 2 {
		return false
	}
	return isSel(c.Args[0], "result", field) && isSel(c.Args[1], root, field)
}

func singleAssign(s ast.Stmt) (ast.Expr, ast.Expr, bool) {
	as, ok := s.(*ast.AssignStmt)
	if !ok || as.Tok != token.ASSIGN || len(as.Lhs) != 1 || len(as.Rhs) != 1 {
		return nil, nil, false
	}
	return as.Lhs[0], as.Rhs[0], true
}

func (t *mergeTr) ifStmt(s *ast.IfStmt, pos string) error {
	if s.Init != nil || s.Else != nil {
		return fmt.Errorf("%s: if with init/else", pos)
	}
	body := s.Body.List
	// switches: if b.X { result.X = true | b.X }
	if r, f, ok := selPath(s.Cond); ok && r == "b" {
		if len(body) == 1 {
			if l, rhs, ok := singleAssign(body[0]); ok && isSel(l, "result", f) && (isIdent(rhs, "true") || isSel(rhs, "b", f)) {
				return t.set(f, "orSwitch", pos)
			}
		}
		return fmt.Errorf("%s: unsupported body for switch %s", pos, f)
	}
	be, ok := s.Cond.(*ast.BinaryExpr)
	if !ok {
		return fmt.Errorf("%s: unsupported condition %s", pos, exprString(s.Cond))
	}
	// tagsFresh: if a.X != nil || b.X != nil { result.X = make(map…); maps.Copy(result.X, a.X); maps.Copy(result.X, b.X) }
	if be.Op == token.LOR {
		l, ok1 := be.X.(*ast.BinaryExpr)
		r, ok2 := be.Y.(*ast.BinaryExpr)
		if ok1 && ok2 && l.Op == token.NEQ && r.Op == token.NEQ && isIdent(l.Y, "nil") && isIdent(r.Y, "nil") {
			ra, fa, oka := selPath(l.X)
			rb, fb, okb := selPath(r.X)
			if oka && okb && ra == "a" && rb == "b" && fa == fb && len(body) == 3 {
				lhs, rhs, ok := singleAssign(body[0])
				if ok && isSel(lhs, "result", fa) && isMake(rhs, "map[string]string") &&
					isMapsCopy(body[1], fa, "a") && isMapsCopy(body[2], fa, "b") {
					return t.set(fa, "tagsFresh", pos)
				}
			}
		}
		return fmt.Errorf("%s: unsupported map merge %s", pos, exprString(s.Cond))
	}
	// len(b.X) > 0 / len(b.X) != 0 on a string is b.X != ""
	if c, ok := be.X.(*ast.CallExpr); ok && isIdent(c.Fun, "len") && len(c.Args) == 1 && (be.Op == token.GTR || be.Op == token.NEQ) && isLit(be.Y, "0") {
		if r, f, ok := selPath(c.Args[0]); ok && r == "b" {
			if i, known := t.index[f]; known && t.fields[i].kind == "str" {
				be = &ast.BinaryExpr{X: c.Args[0], Op: token.NEQ, Y: &ast.BasicLit{Kind: token.STRING, Value: `""`}}
			}
		}
	}
	// a literal on the left: "" != b.X, 0 != b.X, 0 < b.X
	if _, isL := be.X.(*ast.BasicLit); isL {
		switch be.Op {
		case token.NEQ:
			be = &ast.BinaryExpr{X: be.Y, Op: token.NEQ, Y: be.X}
		case token.LSS:
			be = &ast.BinaryExpr{X: be.Y, Op: token.GTR, Y: be.X}
		}
	}
	r, f, ok := selPath(be.X)
	if !ok || r != "b" {
		return fmt.Errorf("%s: condition is not about b: %s", pos, exprString(s.Cond))
	}
	// tagsInPlace: if b.X != nil { if result.X == nil { result.X = make(map…) }; maps.Copy(result.X, b.X) }
	if be.Op == token.NEQ && isIdent(be.Y, "nil") {
		if len(body) == 2 && isMapsCopy(body[1], f, "b") {
			if in, ok := body[0].(*ast.IfStmt); ok && in.Else == nil && in.Init == nil && len(in.Body.List) == 1 {
				c, okc := in.Cond.(*ast.BinaryExpr)
				lhs, rhs, oka := singleAssign(in.Body.List[0])
				if okc && oka && c.Op == token.EQL && isSel(c.X, "result", f) && isIdent(c.Y, "nil") &&
					isSel(lhs, "result", f) && isMake(rhs, "map[string]string") {
					return t.set(f, "tagsInPlace", pos)
				}
			}
		}
		return fmt.Errorf("%s: unsupported map merge for %s", pos, f)
	}
	var rule string
	switch {
	case be.Op == token.NEQ && isLit(be.Y, `""`):
		rule = "overrideIfNonEmpty"
	case be.Op == token.NEQ && isLit(be.Y, "0"):
		rule = "overrideIfNonZero"
	case be.Op == token.GTR && isLit(be.Y, "0"):
		rule = "overrideIfPositive"
	default:
		return fmt.Errorf("%s: unsupported condition %s", pos, exprString(s.Cond))
	}
	if len(body) == 1 {
		if l, rhs, ok := singleAssign(body[0]); ok && isSel(l, "result", f) && isSel(rhs, "b", f) {
			return t.set(f, rule, pos)
		}
	}
	return fmt.Errorf("%s: unsupported body under %s", pos, exprString(s.Cond))
}

// isAppend recognises result.F = append(result.F, <root>.F...).
func isAppendFrom(s ast.Stmt, field, root string) bool {
	l, rhs, ok := singleAssign(s)
	if !ok || !isSel(l, "result", field) {
		return false
	}
	c, ok := rhs.(*ast.CallExpr)
	if !ok || !isIdent(c.Fun, "append") || len(c.Args) != 2 || c.Ellipsis == token.NoPos {
		return false
	}
	return isSel(c.Args[0], "result", field) && isSel(c.Args[1], root, field)
}

func genMergeConfig(repo string) (string, error) {
	path := repo + "/cmd/serf/command/agent/config.go"
	fset, f, err := parseFile(path)
	if err != nil {
		return "", err
	}
	fields, err := structFields(f, "Config", "", 0)
	if err != nil {
		return "", err
	}
	t := &mergeTr{fields: fields, index: map[string]int{}}
	for i, fl := range fields {
		if _, dup := t.index[fl.name]; dup {
			return "", fmt.Errorf("duplicate field %s", fl.name)
		}
		t.index[fl.name] = i
	}
	fd := findFunc(f, "", "MergeConfig")
	if fd == nil {
		return "", fmt.Errorf("MergeConfig not found")
	}
	// names carry no meaning: the two parameters become a and b, the copy of *a becomes result
	pn := paramNames(fd)
	if len(pn) != 2 || fd.Type.Results == nil || len(fd.Type.Results.List) != 1 || exprString(fd.Type.Results.List[0].Type) != "*Config" {
		return "", fmt.Errorf("MergeConfig signature %s", exprString(fd.Type))
	}
	for _, p := range fd.Type.Params.List {
		if exprString(p.Type) != "*Config" {
			return "", fmt.Errorf("MergeConfig signature %s", exprString(fd.Type))
		}
	}
	stmts := fd.Body.List
	if len(stmts) < 2 {
		return "", fmt.Errorf("MergeConfig body too short")
	}
	ren := map[string]string{pn[0]: "a", pn[1]: "b"}
	switch s0 := stmts[0].(type) {
	case *ast.DeclStmt:
		if gd, ok := s0.Decl.(*ast.GenDecl); ok && gd.Tok == token.VAR && len(gd.Specs) == 1 {
			if vs := gd.Specs[0].(*ast.ValueSpec); len(vs.Names) == 1 && len(vs.Values) == 1 && exprString(vs.Values[0]) == "*"+pn[0] {
				ren[vs.Names[0].Name] = "result"
			}
		}
	case *ast.AssignStmt:
		if s0.Tok == token.DEFINE && len(s0.Lhs) == 1 && len(s0.Rhs) == 1 && exprString(s0.Rhs[0]) == "*"+pn[0] {
			ren[exprString(s0.Lhs[0])] = "result"
			// canonical form of the first statement
			stmts[0] = &ast.DeclStmt{Decl: &ast.GenDecl{Tok: token.VAR, Specs: []ast.Spec{&ast.ValueSpec{
				Names: []*ast.Ident{ast.NewIdent(exprString(s0.Lhs[0]))}, Values: s0.Rhs}}}}
		}
	}
	if err := checkRename(fd, ren); err != nil {
		return "", err
	}
	renameIdents(fd, ren)
	if s := exprString(stmts[0]); s != "var result = *a" {
		return "", fmt.Errorf("MergeConfig must start with a copy of its first argument (`var result = *a`), found %s", s)
	}
	if s := exprString(stmts[len(stmts)-1]); s != "return &result" {
		return "", fmt.Errorf("MergeConfig must end with `return &result`, found %s", s)
	}
	body := stmts[1 : len(stmts)-1]
	for i := 0; i < len(body); i++ {
		pos := fmt.Sprintf("config.go:%d", fset.Position(body[i].Pos()).Line)
		switch s := body[i].(type) {
		case *ast.IfStmt:
			if err := t.ifStmt(s, pos); err != nil {
				return "", err
			}
		case *ast.AssignStmt:
			l, rhs, ok := singleAssign(s)
			if !ok {
				return "", fmt.Errorf("%s: unsupported assignment %s", pos, exprString(s))
			}
			r, fld, ok := selPath(l)
			if !ok || r != "result" {
				return "", fmt.Errorf("%s: assignment to %s", pos, exprString(l))
			}
			if isSel(rhs, "b", fld) {
				if err := t.set(fld, "always", pos); err != nil {
					return "", err
				}
				continue
			}
			// result.X = result.X || b.X   (also a.X || b.X, either order): a switch
			if be, ok := rhs.(*ast.BinaryExpr); ok && be.Op == token.LOR {
				isA := func(e ast.Expr) bool { return isSel(e, "a", fld) || isSel(e, "result", fld) }
				if (isA(be.X) && isSel(be.Y, "b", fld)) || (isSel(be.X, "b", fld) && isA(be.Y)) {
					if err := t.set(fld, "orSwitch", pos); err != nil {
						return "", err
					}
					continue
				}
			}
			// result.X = append(append(<fresh>, a.X...), b.X...) with <fresh> = []string{} | []string(nil) | make([]string, 0[, n])
			if outer, ok := rhs.(*ast.CallExpr); ok && isIdent(outer.Fun, "append") && len(outer.Args) == 2 && outer.Ellipsis != token.NoPos && isSel(outer.Args[1], "b", fld) {
				if inner, ok := outer.Args[0].(*ast.CallExpr); ok && isIdent(inner.Fun, "append") && len(inner.Args) == 2 && inner.Ellipsis != token.NoPos && isSel(inner.Args[1], "a", fld) {
					fresh := exprString(inner.Args[0])
					if fresh == "[]string{}" || fresh == "[]string(nil)" || strings.HasPrefix(fresh, "make([]string, 0") {
						if err := t.set(fld, "concat", pos); err != nil {
							return "", err
						}
						continue
					}
				}
			}
			// result.X = append(a.X, b.X...)
			if c, ok := rhs.(*ast.CallExpr); ok && isIdent(c.Fun, "append") && len(c.Args) == 2 && c.Ellipsis != token.NoPos &&
				isSel(c.Args[0], "a", fld) && isSel(c.Args[1], "b", fld) {
				if err := t.set(fld, "appendInPlace", pos); err != nil {
					return "", err
				}
				continue
			}
			if isMake(rhs, "[]string") && i+2 < len(body) && isAppendFrom(body[i+1], fld, "a") && isAppendFrom(body[i+2], fld, "b") {
				c := rhs.(*ast.CallExpr)
				if len(c.Args) != 3 || !isLit(c.Args[1], "0") {
					return "", fmt.Errorf("%s: list for %s is not made empty", pos, fld)
				}
				if err := t.set(fld, "concat", pos); err != nil {
					return "", err
				}
				i += 2
				continue
			}
			return "", fmt.Errorf("%s: unsupported assignment %s", pos, exprString(s))
		default:
			return "", fmt.Errorf("%s: unsupported statement %s", pos, exprString(s))
		}
	}

	// ReadConfigPaths and DecodeConfig: see readconfig.go.
	rd := findFunc(f, "", "ReadConfigPaths")
	if rd == nil {
		return "", fmt.Errorf("ReadConfigPaths not found")
	}
	if err := normaliseRead(f, rd); err != nil {
		return "", err
	}
	if sig := exprString(rd.Type); sig != "func(paths []string) (*Config, error)" {
		return "", fmt.Errorf("ReadConfigPaths signature %s", sig)
	}
	rtoks, err := readTokens(rd.Body.List)
	if err != nil {
		return "", err
	}
	rshape, err := readShape(f, rtoks)
	if err != nil {
		return "", err
	}
	dtoks, dpairs, err := decodeSteps(f)
	if err != nil {
		return "", err
	}

	var b strings.Builder
	b.WriteString("-- GENERATED by /verif/extract from /repo/cmd/serf/command/agent/config.go — do not edit.\n")
	b.WriteString("import SerfModel.Model.Config\nnamespace SerfModel.Gen.MergeConfig\nopen SerfModel.Config\n\n")
	b.WriteString("/-- Every field of `Config` (nested `MDNSConfig` flattened), its kind, and the one rule\n`MergeConfig` applies to it (`none`: no statement, the result keeps `a`'s value). -/\n")
	b.WriteString("def table : List FieldSpec := [\n")
	for i, fl := range t.fields {
		sep := ","
		if i == len(t.fields)-1 {
			sep = ""
		}
		fmt.Fprintf(&b, "  ⟨%q, .%s, .%s⟩%s\n", fl.name, fl.kind, fl.rule, sep)
	}
	b.WriteString("]\n\n")
	q := func(l []string) string {
		var o []string
		for _, s := range l {
			o = append(o, fmt.Sprintf("%q", s))
		}
		return "[" + strings.Join(o, ", ") + "]"
	}
	b.WriteString("/-- `ReadConfigPaths`, statement by statement (one token per statement, `x[ … ]` = a nested block):\nthe exact sequence is pinned by `C31_read_shape`. -/\n")
	fmt.Fprintf(&b, "def readTokens : List String := %s\n\n", q(rtoks))
	b.WriteString("/-- the variation points of that body that `readPathsS` interprets -/\n")
	fmt.Fprintf(&b, "def readShape : ReadShape :=\n  %s\n\n", rshape)
	b.WriteString("/-- `DecodeConfig`, statement by statement, and its (raw string, duration) post-processing pairs in order -/\n")
	fmt.Fprintf(&b, "def decodeTokens : List String := %s\n", q(dtoks))
	b.WriteString("def durationPairs : List (String × String) := [")
	for i, p := range dpairs {
		if i > 0 {
			b.WriteString(", ")
		}
		fmt.Fprintf(&b, "(%q, %q)", p[0], p[1])
	}
	b.WriteString("]\n")
	b.WriteString("\nend SerfModel.Gen.MergeConfig\n")
	return b.String(), nil
}

func init() { addGen("MergeConfig", genMergeConfig) }
