package main

import (
	"fmt"
	"go/ast"
	"os"
	"path/filepath"
	"sort"
	"strings"
)

// MemberLocks: where the serf package sends a MemberEvent on `s.config.EventCh`
// and whether that send happens while `memberLock` is held exclusively.
//
// The pipeline theorems of C16 take as input "the emitted history" and assume it
// is ordered like the status changes of each member.  That is true exactly when a
// handler applies the status change and sends its event inside ONE critical
// section of memberLock (otherwise a second handler can change and announce the
// same member in between).  This generator reads off, for every method of *Serf
// that sends a MemberEvent, and for every method that calls such a method, how it
// uses memberLock:
//
//	shape "deferred"  a top-level `r.memberLock.Lock()` (or RLock) directly followed by
//	                  `defer r.memberLock.Unlock()`; earlyUnlock = memberLock is touched again
//	shape "region"    `Lock()` … `Unlock()` as two statements of one (nested) block, nothing
//	                  else touching memberLock in between (handleReap)
//	shape "none"      memberLock is not mentioned: the callers must hold it; every call site in
//	                  the package is listed with whether it lies inside the caller's section
//	shape "other"     anything else (e.g. an explicit Unlock before the send)
//
// sendsInside = every MemberEvent send of the method lies inside its section (after the
// Lock for "deferred", between Lock and Unlock for "region"), not in a `go` statement or a
// function literal, and the member table is not touched before the Lock.

type mlSite struct {
	caller string
	inside bool
}

type mlFunc struct {
	name        string
	fd          *ast.FuncDecl
	recv        string
	isSerf      bool
	sends       int
	lockCall    string
	shape       string
	earlyUnlock bool
	sendsInside bool
	sites       []mlSite
	// section: statement list and index range (lo, hi) of the critical section
	list   []ast.Stmt
	lo, hi int
}

func mlIsLockCall(n ast.Node, mu string) (string, bool) {
	c, ok := n.(*ast.CallExpr)
	if !ok {
		return "", false
	}
	x, m, ok := callOn(c)
	if !ok || x != mu {
		return "", false
	}
	return m, true
}

func mlCountLockCalls(n ast.Node, mu string) int {
	k := 0
	ast.Inspect(n, func(x ast.Node) bool {
		if _, ok := mlIsLockCall(x, mu); ok {
			k++
		}
		return true
	})
	return k
}

// mlStmtLists returns every statement list nested in body (blocks, case and comm clauses).
func mlStmtLists(body *ast.BlockStmt) [][]ast.Stmt {
	var out [][]ast.Stmt
	ast.Inspect(body, func(n ast.Node) bool {
		switch v := n.(type) {
		case *ast.FuncLit:
			return false
		case *ast.BlockStmt:
			out = append(out, v.List)
		case *ast.CaseClause:
			out = append(out, v.Body)
		case *ast.CommClause:
			out = append(out, v.Body)
		}
		return true
	})
	return out
}

func mlClassify(f *mlFunc) {
	f.lockCall, f.shape = "none", "none"
	if !f.isSerf || f.fd.Body == nil {
		return
	}
	mu := f.recv + ".memberLock"
	total := mlCountLockCalls(f.fd.Body, mu)
	if total == 0 {
		return
	}
	f.shape = "other"
	top := f.fd.Body.List
	for i, st := range top {
		es, ok := st.(*ast.ExprStmt)
		if !ok {
			continue
		}
		m, ok := mlIsLockCall(es.X, mu)
		if !ok {
			continue
		}
		f.lockCall = m
		if i+1 < len(top) {
			if d, ok := top[i+1].(*ast.DeferStmt); ok {
				if m2, ok := mlIsLockCall(d.Call, mu); ok && ((m == "Lock" && m2 == "Unlock") || (m == "RLock" && m2 == "RUnlock")) {
					f.shape = "deferred"
					f.earlyUnlock = total != 2
					f.list, f.lo, f.hi = top, i+1, len(top)
					// nothing before the lock may look at the member table or send
					for _, pre := range top[:i] {
						txt := exprString(pre)
						if strings.Contains(txt, f.recv+".members") || strings.Contains(txt, "EventCh") {
							f.earlyUnlock = true
						}
					}
				}
			}
		}
		return
	}
	// no top-level lock statement: look for Lock … Unlock inside one nested statement list
	for _, l := range mlStmtLists(f.fd.Body) {
		for i, st := range l {
			es, ok := st.(*ast.ExprStmt)
			if !ok {
				continue
			}
			m, ok := mlIsLockCall(es.X, mu)
			if !ok || (m != "Lock" && m != "RLock") {
				continue
			}
			f.lockCall = m
			for j := i + 1; j < len(l); j++ {
				n := mlCountLockCalls(l[j], mu)
				if n == 0 {
					continue
				}
				es2, ok := l[j].(*ast.ExprStmt)
				if !ok || n != 1 {
					return
				}
				m2, ok := mlIsLockCall(es2.X, mu)
				if ok && ((m == "Lock" && m2 == "Unlock") || (m == "RLock" && m2 == "RUnlock")) {
					f.shape = "region"
					f.earlyUnlock = total != 2
					f.list, f.lo, f.hi = l, i, j
				}
				return
			}
			return
		}
	}
}

// mlInside: does node n (somewhere in f's body) lie inside f's critical section, on the
// goroutine that holds the lock?
func mlInside(f *mlFunc, n ast.Node) bool {
	// not under a go statement or function literal
	bad := false
	var stack []ast.Node
	ast.Inspect(f.fd.Body, func(x ast.Node) bool {
		if x == nil {
			stack = stack[:len(stack)-1]
			return true
		}
		stack = append(stack, x)
		if x == n {
			for _, a := range stack {
				switch a.(type) {
				case *ast.GoStmt, *ast.FuncLit, *ast.DeferStmt:
					bad = true
				}
			}
		}
		return true
	})
	if bad {
		return false
	}
	switch f.shape {
	case "none":
		return true
	case "deferred", "region":
		for k := f.lo + 1; k < f.hi && k < len(f.list); k++ {
			found := false
			ast.Inspect(f.list[k], func(x ast.Node) bool {
				if x == n {
					found = true
				}
				return !found
			})
			if found {
				return true
			}
		}
	}
	return false
}

func mlIsMemberEventSend(n ast.Node, recv string) bool {
	s, ok := n.(*ast.SendStmt)
	if !ok {
		return false
	}
	if exprString(s.Chan) != recv+".config.EventCh" {
		return false
	}
	cl, ok := s.Value.(*ast.CompositeLit)
	return ok && exprString(cl.Type) == "MemberEvent"
}

func genMemberLocks(repo string) (string, error) {
	dir := repo + "/serf/"
	ents, err := os.ReadDir(dir)
	if err != nil {
		return "", err
	}
	funcs := map[string]*mlFunc{}
	var order []string
	for _, e := range ents {
		n := e.Name()
		if !strings.HasSuffix(n, ".go") || strings.HasSuffix(n, "_test.go") || strings.HasPrefix(n, "verif_") {
			continue
		}
		_, file, err := parseFile(filepath.Join(dir, n))
		if err != nil {
			return "", err
		}
		for _, d := range file.Decls {
			fd, ok := d.(*ast.FuncDecl)
			if !ok || fd.Body == nil {
				continue
			}
			name := fd.Name.Name
			isSerf := false
			if fd.Recv != nil && len(fd.Recv.List) == 1 {
				t := fd.Recv.List[0].Type
				if s, ok := t.(*ast.StarExpr); ok {
					t = s.X
				}
				if id, ok := t.(*ast.Ident); ok {
					if id.Name == "Serf" {
						isSerf = true
					} else {
						name = id.Name + "." + name
					}
				}
			}
			if _, dup := funcs[name]; dup {
				return "", fmt.Errorf("two functions named %s", name)
			}
			f := &mlFunc{name: name, fd: fd, recv: recvName(fd), isSerf: isSerf}
			mlClassify(f)
			funcs[name] = f
			order = append(order, name)
		}
	}
	// direct sends
	for _, name := range order {
		f := funcs[name]
		if !f.isSerf {
			// a MemberEvent send anywhere else is a shape this translator does not know
			bad := false
			ast.Inspect(f.fd.Body, func(n ast.Node) bool {
				if s, ok := n.(*ast.SendStmt); ok {
					if cl, ok := s.Value.(*ast.CompositeLit); ok && exprString(cl.Type) == "MemberEvent" {
						bad = true
					}
				}
				return true
			})
			if bad {
				return "", fmt.Errorf("%s sends a MemberEvent outside a method of *Serf", name)
			}
			continue
		}
		f.sendsInside = true
		ast.Inspect(f.fd.Body, func(n ast.Node) bool {
			if mlIsMemberEventSend(n, f.recv) {
				f.sends++
				if !mlInside(f, n) {
					f.sendsInside = false
				}
			}
			return true
		})
	}
	// relevant = senders, and transitively the callers of relevant methods that do not lock themselves
	relevant := map[string]bool{}
	var work []string
	for _, name := range order {
		if funcs[name].sends > 0 {
			relevant[name] = true
			work = append(work, name)
		}
	}
	for len(work) > 0 {
		target := work[0]
		work = work[1:]
		tf := funcs[target]
		if tf.shape != "none" {
			continue
		}
		for _, name := range order {
			caller := funcs[name]
			ast.Inspect(caller.fd.Body, func(n ast.Node) bool {
				c, ok := n.(*ast.CallExpr)
				if !ok {
					return true
				}
				sel, ok := c.Fun.(*ast.SelectorExpr)
				if !ok || sel.Sel.Name != target {
					return true
				}
				// a method call x.target(…): count it whatever x is (s, d.serf, …)
				tf.sites = append(tf.sites, mlSite{caller: name, inside: caller.isSerf && mlInside(caller, n)})
				if !relevant[name] {
					relevant[name] = true
					work = append(work, name)
				}
				return true
			})
		}
	}
	for _, must := range []string{"handleNodeJoin", "handleNodeLeave", "handleNodeUpdate", "handleNodeLeaveIntent", "eraseNode"} {
		f, ok := funcs[must]
		if !ok || f.sends == 0 {
			return "", fmt.Errorf("%s not found or sends no MemberEvent", must)
		}
	}
	var names []string
	for n := range relevant {
		names = append(names, n)
	}
	sort.Strings(names)
	var b strings.Builder
	b.WriteString("-- GENERATED by /verif/extract from /repo/serf/*.go (MemberEvent sends and memberLock) — do not edit.\n")
	b.WriteString("import SerfModel.Model.MemberLocks\nnamespace SerfModel.Gen.MemberLocks\nopen SerfModel.MemberLocks\n\n")
	b.WriteString("def handlers : List Handler := [\n")
	for i, n := range names {
		f := funcs[n]
		var sites []string
		for _, s := range f.sites {
			sites = append(sites, fmt.Sprintf("(%q, %v)", s.caller, s.inside))
		}
		sep := ","
		if i == len(names)-1 {
			sep = ""
		}
		fmt.Fprintf(&b, "  { name := %q, sends := %d, lockCall := %q, shape := %q, earlyUnlock := %v, sendsInside := %v, callSites := [%s] }%s\n",
			f.name, f.sends, f.lockCall, f.shape, f.earlyUnlock, f.sendsInside, strings.Join(sites, ", "), sep)
	}
	b.WriteString("]\n\nend SerfModel.Gen.MemberLocks\n")
	return b.String(), nil
}

func init() { addGen("MemberLocks", genMemberLocks) }
