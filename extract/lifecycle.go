package main

import (
	"fmt"
	"go/ast"
	"go/token"
	"strings"
)

// Lifecycle: the stateLock regions of Serf.Leave / Serf.Shutdown / Serf.Join as
// lists of guarded commands on s.state (IR of SerfModel/Model/Lifecycle.lean).

var lifecycleStates = map[string]string{
	"SerfAlive": ".alive", "SerfLeaving": ".leaving", "SerfLeft": ".left", "SerfShutdown": ".shutdown",
}

type lcTr struct {
	recv    string
	regions [][]string
	cur     []string
	inLock  bool
	sticky  bool // deferred unlock: locked until the end of the function
}

func (t *lcTr) isStateField(e ast.Expr) bool {
	sel, ok := e.(*ast.SelectorExpr)
	if !ok || sel.Sel.Name != "state" {
		return false
	}
	id, ok := sel.X.(*ast.Ident)
	return ok && id.Name == t.recv
}

func (t *lcTr) mentionsState(n ast.Node) bool {
	found := false
	ast.Inspect(n, func(x ast.Node) bool {
		if e, ok := x.(ast.Expr); ok && t.isStateField(e) {
			found = true
		}
		return !found
	})
	return found
}

func (t *lcTr) isStateLockCall(s ast.Stmt, method string) bool {
	es, ok := s.(*ast.ExprStmt)
	if !ok {
		return false
	}
	mu, m, ok := callOn(es.X)
	return ok && mu == t.recv+".stateLock" && m == method
}

func stateConst(e ast.Expr) (string, bool) {
	id, ok := e.(*ast.Ident)
	if !ok {
		return "", false
	}
	s, ok := lifecycleStates[id.Name]
	return s, ok
}

// returnKind classifies a return statement: "ok" when its last result is nil, else "err".
func returnKind(r *ast.ReturnStmt) string {
	if len(r.Results) == 0 {
		return ".ok"
	}
	if id, ok := r.Results[len(r.Results)-1].(*ast.Ident); ok && id.Name == "nil" {
		return ".ok"
	}
	return ".err"
}

func findReturn(list []ast.Stmt) *ast.ReturnStmt {
	for _, s := range list {
		if r, ok := s.(*ast.ReturnStmt); ok {
			return r
		}
	}
	return nil
}

func (t *lcTr) closeRegion() {
	if t.cur != nil {
		t.regions = append(t.regions, t.cur)
	}
	t.cur = nil
	t.inLock = false
}

func (t *lcTr) stmt(s ast.Stmt) error {
	if t.isStateLockCall(s, "Lock") {
		if t.inLock {
			return fmt.Errorf("nested stateLock.Lock")
		}
		t.inLock = true
		t.cur = []string{}
		return nil
	}
	if d, ok := s.(*ast.DeferStmt); ok {
		if mu, m, ok := callOn(d.Call); ok && mu == t.recv+".stateLock" && m == "Unlock" {
			t.sticky = true
			return nil
		}
	}
	if t.isStateLockCall(s, "Unlock") {
		if !t.inLock {
			return fmt.Errorf("Unlock outside a region")
		}
		t.closeRegion()
		return nil
	}
	if !t.inLock {
		// only `if s.State() != X { return … }` may look at the state outside the lock
		if ifs, ok := s.(*ast.IfStmt); ok && ifs.Init == nil && ifs.Else == nil {
			if be, ok := ifs.Cond.(*ast.BinaryExpr); ok && be.Op == token.NEQ {
				if mu, m, ok := callOn(be.X); ok && mu == t.recv && m == "State" {
					st, ok := stateConst(be.Y)
					r := findReturn(ifs.Body.List)
					if !ok || r == nil {
						return fmt.Errorf("unsupported State() test")
					}
					t.regions = append(t.regions, []string{fmt.Sprintf(".retIfNe %s %s", st, returnKind(r))})
					return nil
				}
			}
		}
		if t.mentionsState(s) {
			return fmt.Errorf("access to s.state outside stateLock")
		}
		return nil
	}
	switch s := s.(type) {
	case *ast.SwitchStmt:
		if s.Init != nil || !t.isStateField(s.Tag) {
			if t.mentionsState(s) {
				return fmt.Errorf("unsupported switch mentioning s.state")
			}
			return nil
		}
		for _, c := range s.Body.List {
			cc := c.(*ast.CaseClause)
			if cc.List == nil {
				return fmt.Errorf("default clause in state switch")
			}
			var sts []string
			for _, e := range cc.List {
				st, ok := stateConst(e)
				if !ok {
					return fmt.Errorf("non-constant case in state switch")
				}
				sts = append(sts, st)
			}
			r := findReturn(cc.Body)
			if r == nil {
				return fmt.Errorf("state switch case without return")
			}
			for _, b := range cc.Body {
				if as, ok := b.(*ast.AssignStmt); ok && t.mentionsState(as) {
					return fmt.Errorf("assignment inside state switch")
				}
			}
			t.cur = append(t.cur, fmt.Sprintf(".retIfIn [%s] %s", strings.Join(sts, ", "), returnKind(r)))
		}
		return nil
	case *ast.IfStmt:
		if !t.mentionsState(s) {
			return nil
		}
		be, ok := s.Cond.(*ast.BinaryExpr)
		if s.Init != nil || s.Else != nil || !ok || !t.isStateField(be.X) {
			return fmt.Errorf("unsupported if mentioning s.state")
		}
		st, ok := stateConst(be.Y)
		if !ok {
			return fmt.Errorf("state compared with a non-constant")
		}
		r := findReturn(s.Body.List)
		var assign string
		for _, b := range s.Body.List {
			if as, ok := b.(*ast.AssignStmt); ok && len(as.Lhs) == 1 && t.isStateField(as.Lhs[0]) {
				v, ok := stateConst(as.Rhs[0])
				if !ok {
					return fmt.Errorf("state assigned a non-constant")
				}
				assign = v
			}
		}
		switch {
		case be.Op == token.EQL && r != nil && assign == "":
			t.cur = append(t.cur, fmt.Sprintf(".retIfIn [%s] %s", st, returnKind(r)))
		case be.Op == token.NEQ && r == nil && assign != "":
			t.cur = append(t.cur, fmt.Sprintf(".setUnlessEq %s %s", st, assign))
		case r == nil && assign == "":
			// reads the state only (a log line)
		default:
			return fmt.Errorf("unsupported guarded state update")
		}
		return nil
	case *ast.AssignStmt:
		if len(s.Lhs) == 1 && t.isStateField(s.Lhs[0]) {
			v, ok := stateConst(s.Rhs[0])
			if !ok {
				return fmt.Errorf("state assigned a non-constant")
			}
			t.cur = append(t.cur, ".set "+v)
			return nil
		}
	}
	if t.mentionsState(s) {
		return fmt.Errorf("unsupported statement mentioning s.state (%T)", s)
	}
	return nil
}

func lifecycleRegions(fd *ast.FuncDecl) (string, error) {
	t := &lcTr{recv: fd.Recv.List[0].Names[0].Name}
	for _, s := range fd.Body.List {
		if err := t.stmt(s); err != nil {
			return "", fmt.Errorf("%s: %v", fd.Name.Name, err)
		}
	}
	if t.inLock {
		if !t.sticky {
			return "", fmt.Errorf("%s: region never unlocked", fd.Name.Name)
		}
		t.closeRegion()
	}
	var rs []string
	for _, r := range t.regions {
		rs = append(rs, "["+strings.Join(r, ", ")+"]")
	}
	return "[" + strings.Join(rs, ", ") + "]", nil
}

func genLifecycle(repo string) (string, error) {
	_, f, err := parseFile(repo + "/serf/serf.go")
	if err != nil {
		return "", err
	}
	var b strings.Builder
	b.WriteString("-- GENERATED by /verif/extract from /repo/serf/serf.go (Leave, Shutdown, Join) — do not edit.\n")
	b.WriteString("import SerfModel.Model.Lifecycle\nnamespace SerfModel.Gen.Lifecycle\nopen SerfModel.Lifecycle\n\n")
	for _, x := range [][2]string{{"Leave", "leave"}, {"Shutdown", "shutdown"}, {"Join", "join"}} {
		fd := findFunc(f, "Serf", x[0])
		if fd == nil {
			return "", fmt.Errorf("Serf.%s not found", x[0])
		}
		r, err := lifecycleRegions(fd)
		if err != nil {
			return "", err
		}
		fmt.Fprintf(&b, "def %s : List Region := %s\n", x[1], r)
		// what the function does before it first takes stateLock: a call that can block there (another lock, a
		// channel operation) delays the state change past the moment the call began
		var pre []string
		for _, st := range fd.Body.List {
			if es, ok := st.(*ast.ExprStmt); ok {
				if mu, m, ok := callOn(es.X); ok && strings.HasSuffix(mu, ".stateLock") && (m == "Lock" || m == "RLock") {
					break
				}
			}
			// Join reads the state through s.State() (which takes the lock itself) in its first statement
			if x[0] == "Join" {
				if is, ok := st.(*ast.IfStmt); ok && strings.Contains(exprString(is.Cond), ".State()") {
					break
				}
			}
			if _, ok := st.(*ast.DeclStmt); ok {
				continue
			}
			pre = append(pre, strings.Join(strings.Fields(exprString(st)), " "))
		}
		q := make([]string, len(pre))
		for i, t := range pre {
			q[i] = fmt.Sprintf("%q", t)
		}
		fmt.Fprintf(&b, "/-- statements of %s before the state is first examined -/\ndef %sPreamble : List String := [%s]\n", x[0], x[1], strings.Join(q, ", "))
	}
	b.WriteString("\ndef progs : Progs := { leave := leave, shutdown := shutdown, join := join }\n\nend SerfModel.Gen.Lifecycle\n")
	return b.String(), nil
}

func init() { addGen("Lifecycle", genLifecycle) }
