package main

import (
	"go/ast"
	"sort"
	"strconv"
)

// Alpha-normalisation helpers for the listing-style generators: identifiers that
// the function itself declares (receiver, parameters, locals, range and if-init
// variables) are renamed to canonical names, so that a pure renaming of locals
// does not change the generated text. Uses the parser's object resolution.

// declaredVars returns the variable objects declared inside fd, in order of
// declaration position.
func declaredVars(fd *ast.FuncDecl) []*ast.Object {
	seen := map[*ast.Object]bool{}
	var objs []*ast.Object
	ast.Inspect(fd, func(n ast.Node) bool {
		id, ok := n.(*ast.Ident)
		if !ok || id.Obj == nil || id.Obj.Kind != ast.Var || id.Name == "_" || seen[id.Obj] {
			return true
		}
		if p, ok := id.Obj.Decl.(ast.Node); ok && p.Pos() >= fd.Pos() && p.End() <= fd.End() {
			seen[id.Obj] = true
			objs = append(objs, id.Obj)
		}
		return true
	})
	sort.SliceStable(objs, func(i, j int) bool { return objs[i].Pos() < objs[j].Pos() })
	return objs
}

// renameVars renames every use of the given objects inside fd.
func renameVars(fd *ast.FuncDecl, names map[*ast.Object]string) {
	ast.Inspect(fd, func(n ast.Node) bool {
		if id, ok := n.(*ast.Ident); ok && id.Obj != nil {
			if nn, ok := names[id.Obj]; ok {
				id.Name = nn
			}
		}
		return true
	})
}

// alphaNormalize renames receiver → "recv", parameters → "arg0…", locals → "l0…"
// (in order of declaration).
func alphaNormalize(fd *ast.FuncDecl) {
	params := map[*ast.Object]bool{}
	names := map[*ast.Object]string{}
	if fd.Recv != nil {
		for _, f := range fd.Recv.List {
			for _, n := range f.Names {
				if n.Obj != nil {
					names[n.Obj] = "recv"
					params[n.Obj] = true
				}
			}
		}
	}
	k := 0
	for _, f := range fd.Type.Params.List {
		for _, n := range f.Names {
			if n.Obj != nil && n.Name != "_" {
				names[n.Obj] = "arg" + strconv.Itoa(k)
				params[n.Obj] = true
			}
			k++
		}
	}
	l := 0
	for _, o := range declaredVars(fd) {
		if !params[o] {
			names[o] = "l" + strconv.Itoa(l)
			l++
		}
	}
	renameVars(fd, names)
}
