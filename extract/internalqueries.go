package main

import (
	"fmt"
	"go/ast"
	"go/token"
	"sort"
	"strconv"
	"strings"
)

// InternalQueries: the routing of the node's event channel in
// serf/internal_query.go — the `case e := <-s.inCh` arm of serfQueries.stream
// (internal-prefix test, handler goroutine, pass-through) and the switch of
// serfQueries.handleQuery (case constants, handler called, default branch).

func stringConsts(f *ast.File) map[string]string {
	out := map[string]string{}
	for _, d := range f.Decls {
		gd, ok := d.(*ast.GenDecl)
		if !ok || gd.Tok != token.CONST {
			continue
		}
		for _, sp := range gd.Specs {
			vs, ok := sp.(*ast.ValueSpec)
			if !ok {
				continue
			}
			for i, n := range vs.Names {
				if i < len(vs.Values) {
					if bl, ok := vs.Values[i].(*ast.BasicLit); ok && bl.Kind == token.STRING {
						if v, err := strconv.Unquote(bl.Value); err == nil {
							out[n.Name] = v
						}
					}
				}
			}
		}
	}
	return out
}

func leanBool(b bool) string {
	if b {
		return "true"
	}
	return "false"
}

func containsSend(n ast.Node) bool {
	found := false
	ast.Inspect(n, func(x ast.Node) bool {
		if _, ok := x.(*ast.SendStmt); ok {
			found = true
		}
		return true
	})
	return found
}

func genInternalQueries(repo string) (string, error) {
	_, f, err := parseFile(repo + "/serf/internal_query.go")
	if err != nil {
		return "", err
	}
	consts := stringConsts(f)
	prefix, ok := consts["InternalQueryPrefix"]
	if !ok {
		return "", fmt.Errorf("constant InternalQueryPrefix not found")
	}

	// --- stream
	st := findFunc(f, "serfQueries", "stream")
	if st == nil || st.Body == nil {
		return "", fmt.Errorf("serfQueries.stream not found")
	}
	r := st.Recv.List[0].Names[0].Name
	var arm *ast.CommClause
	arms := 0
	ast.Inspect(st.Body, func(n ast.Node) bool {
		cc, ok := n.(*ast.CommClause)
		if !ok || cc.Comm == nil {
			return true
		}
		if as, ok := cc.Comm.(*ast.AssignStmt); ok && len(as.Rhs) == 1 && exprString(as.Rhs[0]) == "<-"+r+".inCh" {
			arm = cc
			arms++
		}
		return true
	})
	if arm == nil || arms != 1 {
		return "", fmt.Errorf("stream: expected exactly one `case e := <-%s.inCh` arm, found %d", r, arms)
	}
	ev := exprString(arm.Comm.(*ast.AssignStmt).Lhs[0])
	if len(arm.Body) != 1 {
		return "", fmt.Errorf("stream: the inCh arm has %d statements, expected one if", len(arm.Body))
	}
	ifs, ok := arm.Body[0].(*ast.IfStmt)
	if !ok || ifs.Init == nil {
		return "", fmt.Errorf("stream: the inCh arm is not `if q, ok := e.(*Query); …`")
	}
	init := exprString(ifs.Init)
	qv, okv := "", ""
	if ia, isAssign := ifs.Init.(*ast.AssignStmt); isAssign && len(ia.Lhs) == 2 && len(ia.Rhs) == 1 {
		qv, okv = exprString(ia.Lhs[0]), exprString(ia.Lhs[1]) // any names
	}
	guard := qv != "" && init == qv+", "+okv+" := "+ev+".(*Query)" &&
		exprString(ifs.Cond) == okv+" && strings.HasPrefix("+qv+".Name, InternalQueryPrefix)"
	if !guard {
		return "", fmt.Errorf("stream: unsupported internal-query test %q; %q", init, exprString(ifs.Cond))
	}
	thenOnly := false
	if len(ifs.Body.List) == 1 {
		if g, ok := ifs.Body.List[0].(*ast.GoStmt); ok && exprString(g.Call) == r+".handleQuery("+qv+")" {
			thenOnly = true
		}
	}
	if !thenOnly {
		return "", fmt.Errorf("stream: the internal branch is not exactly `go %s.handleQuery(%s)`", r, qv)
	}
	elseFw := false
	if e2, ok := ifs.Else.(*ast.IfStmt); ok && e2.Init == nil && e2.Else == nil && exprString(e2.Cond) == r+".outCh != nil" && len(e2.Body.List) == 1 {
		if snd, ok := e2.Body.List[0].(*ast.SendStmt); ok && exprString(snd.Chan) == r+".outCh" && exprString(snd.Value) == ev {
			elseFw = true
		}
	}
	if !elseFw {
		return "", fmt.Errorf("stream: the pass-through branch is not `else if %s.outCh != nil { %s.outCh <- %s }`", r, r, ev)
	}

	// --- handleQuery dispatch: a TABLE (constant value → handler) plus the default's behaviour.
	// Accepted spellings: `switch name { case c1[, c2…]: … default: … }`, the tagless
	// `switch { case name == c1 || …: … }` and an if / else-if chain `if name == c1 { … } else if …
	// else { … }`, cases in any order, case lists merged or split. The table is emitted sorted
	// by constant value; the model (`QueryHandle.route`) looks names up in it.
	hq := findFunc(f, "serfQueries", "handleQuery")
	if hq == nil || hq.Body == nil || len(hq.Body.List) != 2 {
		return "", fmt.Errorf("serfQueries.handleQuery: expected the name assignment and one dispatch statement")
	}
	hr := hq.Recv.List[0].Names[0].Name
	hqv := hq.Type.Params.List[0].Names[0].Name
	as, ok := hq.Body.List[0].(*ast.AssignStmt)
	if !ok || len(as.Lhs) != 1 || len(as.Rhs) != 1 {
		return "", fmt.Errorf("handleQuery: unsupported first statement")
	}
	tagVar := exprString(as.Lhs[0])
	tagSrc := exprString(as.Rhs[0])
	strips := tagSrc == hqv+".Name[len(InternalQueryPrefix):]" || tagSrc == "strings.TrimPrefix("+hqv+".Name, InternalQueryPrefix)"
	if !strips {
		return "", fmt.Errorf("handleQuery: the dispatch name is %q", tagSrc)
	}
	// constName resolves a case value: a constant identifier of the file (or a string literal).
	constName := func(e ast.Expr) (string, error) {
		switch x := e.(type) {
		case *ast.Ident:
			if v, ok := consts[x.Name]; ok {
				return v, nil
			}
			return "", fmt.Errorf("handleQuery: constant %s not found", x.Name)
		case *ast.BasicLit:
			if x.Kind == token.STRING {
				if v, err := strconv.Unquote(x.Value); err == nil {
					return v, nil
				}
			}
		}
		return "", fmt.Errorf("handleQuery: case value %q is not a string constant", exprString(e))
	}
	// condConsts: `name == c`, `c == name`, parenthesised, joined by `||`.
	var condConsts func(e ast.Expr) ([]string, error)
	condConsts = func(e ast.Expr) ([]string, error) {
		switch x := e.(type) {
		case *ast.ParenExpr:
			return condConsts(x.X)
		case *ast.BinaryExpr:
			switch x.Op {
			case token.LOR:
				l, err := condConsts(x.X)
				if err != nil {
					return nil, err
				}
				r, err := condConsts(x.Y)
				if err != nil {
					return nil, err
				}
				return append(l, r...), nil
			case token.EQL:
				other := x.Y
				if exprString(x.X) != tagVar {
					if exprString(x.Y) != tagVar {
						break
					}
					other = x.X
				}
				v, err := constName(other)
				if err != nil {
					return nil, err
				}
				return []string{v}, nil
			}
		}
		return nil, fmt.Errorf("handleQuery: unsupported dispatch condition %q", exprString(e))
	}
	// handlerOf: an arm is empty or exactly one call `recv.handler(q)`; nothing is sent anywhere.
	handlerOf := func(body []ast.Stmt, what string) (string, error) {
		for _, st := range body {
			if containsSend(st) {
				return "", fmt.Errorf("handleQuery: arm %s sends on a channel", what)
			}
		}
		switch len(body) {
		case 0:
			return "", nil
		case 1:
			es, ok := body[0].(*ast.ExprStmt)
			if ok {
				if call, ok := es.X.(*ast.CallExpr); ok && len(call.Args) == 1 && exprString(call.Args[0]) == hqv && strings.HasPrefix(exprString(call.Fun), hr+".") {
					return strings.TrimPrefix(exprString(call.Fun), hr+"."), nil
				}
			}
			return "", fmt.Errorf("handleQuery: unsupported arm %s: %q", what, exprString(body[0]))
		}
		return "", fmt.Errorf("handleQuery: arm %s has %d statements", what, len(body))
	}
	onlyLogs := func(body []ast.Stmt) bool {
		for _, st := range body {
			es, ok := st.(*ast.ExprStmt)
			if !ok || !strings.HasPrefix(exprString(es.X), hr+".logger.Printf(") {
				return false
			}
		}
		return true
	}
	table := map[string]string{}
	addArm := func(vals []string, body []ast.Stmt) error {
		h, err := handlerOf(body, strings.Join(vals, ","))
		if err != nil {
			return err
		}
		for _, v := range vals {
			if _, dup := table[v]; dup {
				return fmt.Errorf("handleQuery: %q is dispatched twice", v)
			}
			table[v] = h
		}
		return nil
	}
	defaultOnlyLogs := true // no default / no final else: an unknown name is dropped silently
	switch d := hq.Body.List[1].(type) {
	case *ast.SwitchStmt:
		if d.Init != nil || (d.Tag != nil && exprString(d.Tag) != tagVar) {
			return "", fmt.Errorf("handleQuery: unsupported switch")
		}
		for _, cl := range d.Body.List {
			cc := cl.(*ast.CaseClause)
			for _, st := range cc.Body {
				if _, ft := st.(*ast.BranchStmt); ft {
					return "", fmt.Errorf("handleQuery: fallthrough / break in a case")
				}
			}
			if cc.List == nil {
				defaultOnlyLogs = onlyLogs(cc.Body)
				continue
			}
			var vals []string
			for _, e := range cc.List {
				if d.Tag != nil {
					v, err := constName(e)
					if err != nil {
						return "", err
					}
					vals = append(vals, v)
				} else {
					vs, err := condConsts(e)
					if err != nil {
						return "", err
					}
					vals = append(vals, vs...)
				}
			}
			if err := addArm(vals, cc.Body); err != nil {
				return "", err
			}
		}
	case *ast.IfStmt:
		for cur := ast.Stmt(d); cur != nil; {
			ifs, isIf := cur.(*ast.IfStmt)
			if !isIf {
				blk, isBlk := cur.(*ast.BlockStmt)
				if !isBlk {
					return "", fmt.Errorf("handleQuery: unsupported else")
				}
				defaultOnlyLogs = onlyLogs(blk.List)
				break
			}
			if ifs.Init != nil {
				return "", fmt.Errorf("handleQuery: if with an init statement in the dispatch chain")
			}
			vals, err := condConsts(ifs.Cond)
			if err != nil {
				return "", err
			}
			if err := addArm(vals, ifs.Body.List); err != nil {
				return "", err
			}
			cur = ifs.Else
		}
	default:
		return "", fmt.Errorf("handleQuery: the dispatch is neither a switch nor an if chain")
	}
	var keys []string
	for k := range table {
		keys = append(keys, k)
	}
	sort.Strings(keys)
	var cases []string
	for _, k := range keys {
		cases = append(cases, fmt.Sprintf("(%s, %s)", strconv.Quote(k), strconv.Quote(table[k])))
	}

	var b strings.Builder
	b.WriteString("-- GENERATED by /verif/extract from /repo/serf/internal_query.go (serfQueries.stream, serfQueries.handleQuery) — do not edit.\n")
	b.WriteString("import SerfModel.Model.QueryHandle\nnamespace SerfModel.Gen.InternalQueries\nopen SerfModel.QueryHandle\n\n")
	fmt.Fprintf(&b, "def stream : StreamShape :=\n  { prefixConst := %s, guardIsQueryWithPrefix := %s, thenOnlySpawnsHandler := %s, elseForwards := %s }\n\n",
		strconv.Quote(prefix), leanBool(guard), leanBool(thenOnly), leanBool(elseFw))
	fmt.Fprintf(&b, "def switch : SwitchShape :=\n  { tagStripsPrefix := %s,\n    cases := [%s],\n    defaultOnlyLogs := %s }\n\n",
		leanBool(strips), strings.Join(cases, ", "), leanBool(defaultOnlyLogs))
	b.WriteString("end SerfModel.Gen.InternalQueries\n")
	return b.String(), nil
}

func init() { addGen("InternalQueries", genInternalQueries) }
