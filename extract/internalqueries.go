package main

import (
	"fmt"
	"go/ast"
	"go/token"
	"strconv"
	"strings"
)

// InternalQueries: the routing of the node's event channel in
// serf/internal_query.go — the `case e := <-s.inCh` arm of serfQueries.stream
// (internal-prefix test, handler goroutine, pass-through) and the switch of
// serfQueries.handleQuery (case constants, handler called, default branch).

func stringConsts(f *ast.File) map[string]string {
	out := map[string]string{}
	for _, d := range f.Decls {
		gd, ok := d.(*ast.GenDecl)
		if !ok || gd.Tok != token.CONST {
			continue
		}
		for _, sp := range gd.Specs {
			vs, ok := sp.(*ast.ValueSpec)
			if !ok {
				continue
			}
			for i, n := range vs.Names {
				if i < len(vs.Values) {
					if bl, ok := vs.Values[i].(*ast.BasicLit); ok && bl.Kind == token.STRING {
						if v, err := strconv.Unquote(bl.Value); err == nil {
							out[n.Name] = v
						}
					}
				}
			}
		}
	}
	return out
}

func leanBool(b bool) string {
	if b {
		return "true"
	}
	return "false"
}

func containsSend(n ast.Node) bool {
	found := false
	ast.Inspect(n, func(x ast.Node) bool {
		if _, ok := x.(*ast.SendStmt); ok {
			found = true
		}
		return true
	})
	return found
}

func genInternalQueries(repo string) (string, error) {
	_, f, err := parseFile(repo + "/serf/internal_query.go")
	if err != nil {
		return "", err
	}
	consts := stringConsts(f)
	prefix, ok := consts["InternalQueryPrefix"]
	if !ok {
		return "", fmt.Errorf("constant InternalQueryPrefix not found")
	}

	// --- stream
	st := findFunc(f, "serfQueries", "stream")
	if st == nil || st.Body == nil {
		return "", fmt.Errorf("serfQueries.stream not found")
	}
	r := st.Recv.List[0].Names[0].Name
	var arm *ast.CommClause
	arms := 0
	ast.Inspect(st.Body, func(n ast.Node) bool {
		cc, ok := n.(*ast.CommClause)
		if !ok || cc.Comm == nil {
			return true
		}
		if as, ok := cc.Comm.(*ast.AssignStmt); ok && len(as.Rhs) == 1 && exprString(as.Rhs[0]) == "<-"+r+".inCh" {
			arm = cc
			arms++
		}
		return true
	})
	if arm == nil || arms != 1 {
		return "", fmt.Errorf("stream: expected exactly one `case e := <-%s.inCh` arm, found %d", r, arms)
	}
	ev := exprString(arm.Comm.(*ast.AssignStmt).Lhs[0])
	if len(arm.Body) != 1 {
		return "", fmt.Errorf("stream: the inCh arm has %d statements, expected one if", len(arm.Body))
	}
	ifs, ok := arm.Body[0].(*ast.IfStmt)
	if !ok || ifs.Init == nil {
		return "", fmt.Errorf("stream: the inCh arm is not `if q, ok := e.(*Query); …`")
	}
	init := exprString(ifs.Init)
	qv, okv := "", ""
	if ia, isAssign := ifs.Init.(*ast.AssignStmt); isAssign && len(ia.Lhs) == 2 && len(ia.Rhs) == 1 {
		qv, okv = exprString(ia.Lhs[0]), exprString(ia.Lhs[1]) // any names
	}
	guard := qv != "" && init == qv+", "+okv+" := "+ev+".(*Query)" &&
		exprString(ifs.Cond) == okv+" && strings.HasPrefix("+qv+".Name, InternalQueryPrefix)"
	if !guard {
		return "", fmt.Errorf("stream: unsupported internal-query test %q; %q", init, exprString(ifs.Cond))
	}
	thenOnly := false
	if len(ifs.Body.List) == 1 {
		if g, ok := ifs.Body.List[0].(*ast.GoStmt); ok && exprString(g.Call) == r+".handleQuery("+qv+")" {
			thenOnly = true
		}
	}
	if !thenOnly {
		return "", fmt.Errorf("stream: the internal branch is not exactly `go %s.handleQuery(%s)`", r, qv)
	}
	elseFw := false
	if e2, ok := ifs.Else.(*ast.IfStmt); ok && e2.Init == nil && e2.Else == nil && exprString(e2.Cond) == r+".outCh != nil" && len(e2.Body.List) == 1 {
		if snd, ok := e2.Body.List[0].(*ast.SendStmt); ok && exprString(snd.Chan) == r+".outCh" && exprString(snd.Value) == ev {
			elseFw = true
		}
	}
	if !elseFw {
		return "", fmt.Errorf("stream: the pass-through branch is not `else if %s.outCh != nil { %s.outCh <- %s }`", r, r, ev)
	}

	// --- handleQuery switch
	hq := findFunc(f, "serfQueries", "handleQuery")
	if hq == nil || hq.Body == nil || len(hq.Body.List) != 2 {
		return "", fmt.Errorf("serfQueries.handleQuery: expected the name assignment and one switch")
	}
	hr := hq.Recv.List[0].Names[0].Name
	hqv := hq.Type.Params.List[0].Names[0].Name
	as, ok := hq.Body.List[0].(*ast.AssignStmt)
	if !ok || len(as.Lhs) != 1 || len(as.Rhs) != 1 {
		return "", fmt.Errorf("handleQuery: unsupported first statement")
	}
	tagVar := exprString(as.Lhs[0])
	strips := exprString(as.Rhs[0]) == hqv+".Name[len(InternalQueryPrefix):]"
	sw, ok := hq.Body.List[1].(*ast.SwitchStmt)
	if !ok || sw.Init != nil || sw.Tag == nil || exprString(sw.Tag) != tagVar {
		return "", fmt.Errorf("handleQuery: unsupported switch")
	}
	if !strips {
		return "", fmt.Errorf("handleQuery: the switch tag is %q", exprString(as.Rhs[0]))
	}
	var cases []string
	defaultOnlyLogs := false
	sawDefault := false
	for _, cl := range sw.Body.List {
		cc := cl.(*ast.CaseClause)
		if cc.List == nil {
			sawDefault = true
			defaultOnlyLogs = true
			for _, s := range cc.Body {
				es, ok := s.(*ast.ExprStmt)
				if !ok || !strings.HasPrefix(exprString(es.X), hr+".logger.Printf(") {
					defaultOnlyLogs = false
				}
			}
			continue
		}
		if len(cc.List) != 1 {
			return "", fmt.Errorf("handleQuery: case with %d values", len(cc.List))
		}
		id, ok := cc.List[0].(*ast.Ident)
		if !ok {
			return "", fmt.Errorf("handleQuery: case value %q is not a constant name", exprString(cc.List[0]))
		}
		val, ok := consts[id.Name]
		if !ok {
			return "", fmt.Errorf("handleQuery: constant %s not found", id.Name)
		}
		handler := ""
		switch len(cc.Body) {
		case 0:
		case 1:
			es, ok := cc.Body[0].(*ast.ExprStmt)
			if !ok {
				return "", fmt.Errorf("handleQuery: unsupported case body for %s", id.Name)
			}
			call, ok := es.X.(*ast.CallExpr)
			if !ok || len(call.Args) != 1 || exprString(call.Args[0]) != hqv || !strings.HasPrefix(exprString(call.Fun), hr+".") {
				return "", fmt.Errorf("handleQuery: unsupported case body %q", exprString(es.X))
			}
			handler = strings.TrimPrefix(exprString(call.Fun), hr+".")
		default:
			return "", fmt.Errorf("handleQuery: case %s has %d statements", id.Name, len(cc.Body))
		}
		if containsSend(cc) {
			return "", fmt.Errorf("handleQuery: case %s sends on a channel", id.Name)
		}
		cases = append(cases, fmt.Sprintf("(%s, %s)", strconv.Quote(val), strconv.Quote(handler)))
	}
	if !sawDefault {
		// without a default an unknown name is dropped silently: same routing
		defaultOnlyLogs = true
	}

	var b strings.Builder
	b.WriteString("-- GENERATED by /verif/extract from /repo/serf/internal_query.go (serfQueries.stream, serfQueries.handleQuery) — do not edit.\n")
	b.WriteString("import SerfModel.Model.QueryHandle\nnamespace SerfModel.Gen.InternalQueries\nopen SerfModel.QueryHandle\n\n")
	fmt.Fprintf(&b, "def stream : StreamShape :=\n  { prefixConst := %s, guardIsQueryWithPrefix := %s, thenOnlySpawnsHandler := %s, elseForwards := %s }\n\n",
		strconv.Quote(prefix), leanBool(guard), leanBool(thenOnly), leanBool(elseFw))
	fmt.Fprintf(&b, "def switch : SwitchShape :=\n  { tagStripsPrefix := %s,\n    cases := [%s],\n    defaultOnlyLogs := %s }\n\n",
		leanBool(strips), strings.Join(cases, ", "), leanBool(defaultOnlyLogs))
	b.WriteString("end SerfModel.Gen.InternalQueries\n")
	return b.String(), nil
}

func init() { addGen("InternalQueries", genInternalQueries) }
