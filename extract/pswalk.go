package main

// The symbolic walk of the panic-site extractor: straight-line code with early
// exits, if/else joins, switch joins, loops with havoc.  Every program variable
// is versioned (an assignment creates a new Lean variable), so a recorded fact is
// never invalidated; facts learnt inside a branch are kept as implications.
// All Lean variables are Nat: `len_k` (length of slice/string k), `ptr_k`
// (0 = nil), `v_k` (integer value), `c_n` (opaque condition, true iff = 1),
// `t_n` (opaque term).

import (
	"fmt"
	"go/ast"
	"go/token"
	"regexp"
	"strings"
)

type psHyp struct {
	prop, tag string
	trig      string // variables that make the hypothesis relevant (default: all of prop)
}

type psSite struct {
	name, kind, src, fn string
	hyps                []psHyp
	goal                string
}

type psShared struct {
	p      *psPkgs
	sites  []psSite
	names  map[string]int
	opq    int
	errs   []string
	queue  []string // functions to walk, in discovery order
	queued map[string]bool
}

func (sh *psShared) enqueue(k string) {
	if k == "" || sh.queued[k] {
		return
	}
	if fd := sh.p.funcs[k]; fd == nil || fd.Body == nil {
		return
	}
	sh.queued[k] = true
	sh.queue = append(sh.queue, k)
}

type psWalker struct {
	sh           *psShared
	pkg          string
	short        string // e.g. delegate_NotifyMsg
	fd           *ast.FuncDecl
	types        map[string]psType
	ver          map[string]int
	next         map[string]int
	nilable      map[string]bool
	facts        []psHyp
	derefDone    map[string]psDeref
	used         map[string]bool
	gotoLabels   map[string]bool
	canon        map[string]string
	indexLike    map[string]bool // locals holding the result of slices.Index / IndexFunc
	nextLocal    int
	quiet        bool
	invK, invVar string // pending loop invariant (truncLoop)
}

var psSan = regexp.MustCompile(`[^A-Za-z0-9]+`)

func (w *psWalker) touch(key string) {
	if _, ok := w.ver[key]; !ok {
		w.ver[key] = 0
	}
}

// canonKey renames the root of a key when it is a local of the walked function: the receiver becomes `recv`,
// parameters a0, a1, …, named results r0, …, other locals x0, x1, … in order of first use (`err` and `ok` keep
// their conventional names).  Package-level identifiers keep their names.  So the generated propositions do not
// depend on how the source names its locals.
func (w *psWalker) canonKey(key string) string {
	root, rest := key, ""
	if i := strings.Index(key, "."); i >= 0 {
		root, rest = key[:i], key[i:]
	}
	// "closed.<key>": the closed-state of channel <key>; "neg.<key>": integer <key> is negative
	if (root == "closed" || root == "neg") && rest != "" {
		return root + "." + w.canonKey(strings.TrimPrefix(rest, "."))
	}
	if c, ok := w.canon[root]; ok {
		return c + rest
	}
	if _, local := w.types[root]; !local {
		return key
	}
	c := root
	if root != "err" && root != "ok" {
		c = fmt.Sprintf("x%d", w.nextLocal)
		w.nextLocal++
	}
	w.canon[root] = c
	return c + rest
}

func (w *psWalker) lv(prefix, key string) string {
	w.touch(key)
	n := prefix + "_" + strings.Trim(psSan.ReplaceAllString(w.canonKey(key), "_"), "_")
	if v := w.ver[key]; v > 0 {
		n += fmt.Sprintf("_v%d", v)
	}
	if !w.quiet {
		w.used[n] = true
	}
	return n
}

// restore goes back to the versions of an earlier program point; keys first seen since then
// are at their entry version there.
func (w *psWalker) restore(before map[string]int) {
	nv := make(map[string]int, len(w.next)+len(before))
	for k := range w.ver {
		nv[k] = 0
	}
	for k := range w.next {
		nv[k] = 0
	}
	for k, v := range before {
		nv[k] = v
	}
	w.ver = nv
}

func (w *psWalker) bump(key string) {
	if key == "" {
		return
	}
	w.touch(key)
	for k := range w.ver {
		if k == key || strings.HasPrefix(k, key+".") || k == "neg."+key || k == "closed."+key {
			w.next[k]++
			w.ver[k] = w.next[k]
		}
	}
}

func (w *psWalker) bumpAll() {
	for k := range w.ver {
		w.next[k]++
		w.ver[k] = w.next[k]
	}
}

func (w *psWalker) opaque(prefix string) string {
	w.sh.opq++
	return fmt.Sprintf("%s_%d", prefix, w.sh.opq)
}

func (w *psWalker) add(prop, tag string) { w.facts = append(w.facts, psHyp{prop: prop, tag: tag}) }

func key(e ast.Expr) string {
	switch x := e.(type) {
	case *ast.Ident:
		if x.Name == "_" || x.Name == "nil" {
			return ""
		}
		return x.Name
	case *ast.SelectorExpr:
		k := key(x.X)
		if k == "" {
			return ""
		}
		return k + "." + x.Sel.Name
	case *ast.StarExpr:
		return key(x.X)
	case *ast.ParenExpr:
		return key(x.X)
	}
	return ""
}

// ---------------------------------------------------------------- types

func (w *psWalker) typeOf(e ast.Expr) psType {
	p := w.sh.p
	switch x := e.(type) {
	case *ast.Ident:
		if t, ok := w.types[x.Name]; ok {
			return t
		}
		if _, ok := p.consts[w.pkg+"."+x.Name]; ok {
			return psType{ast.NewIdent("int"), w.pkg}
		}
	case *ast.ParenExpr:
		return w.typeOf(x.X)
	case *ast.BasicLit:
		switch x.Kind {
		case token.INT:
			return psType{ast.NewIdent("int"), w.pkg}
		case token.FLOAT:
			return psType{ast.NewIdent("float64"), w.pkg}
		case token.STRING:
			return psType{ast.NewIdent("string"), w.pkg}
		}
	case *ast.SelectorExpr:
		t := w.typeOf(x.X)
		if k := p.typeKey(p.underlyingNamed(t)); k != "" {
			if ft, ok := p.field(k, x.Sel.Name); ok {
				return ft
			}
		}
	case *ast.StarExpr:
		t := w.typeOf(x.X)
		if s, ok := t.e.(*ast.StarExpr); ok {
			return psType{s.X, t.pkg}
		}
	case *ast.UnaryExpr:
		if x.Op == token.AND {
			t := w.typeOf(x.X)
			if t.e != nil {
				return psType{&ast.StarExpr{X: t.e}, t.pkg}
			}
		}
		if x.Op == token.NOT {
			return psType{ast.NewIdent("bool"), w.pkg}
		}
		return w.typeOf(x.X)
	case *ast.CompositeLit:
		if x.Type != nil {
			return psType{x.Type, w.pkg}
		}
	case *ast.IndexExpr:
		return p.elem(w.typeOf(x.X))
	case *ast.SliceExpr:
		return w.typeOf(x.X)
	case *ast.TypeAssertExpr:
		if x.Type != nil {
			return psType{x.Type, w.pkg}
		}
	case *ast.BinaryExpr:
		switch x.Op {
		case token.EQL, token.NEQ, token.LSS, token.LEQ, token.GTR, token.GEQ, token.LAND, token.LOR:
			return psType{ast.NewIdent("bool"), w.pkg}
		}
		if t := w.typeOf(x.X); t.e != nil {
			if _, lit := x.X.(*ast.BasicLit); !lit {
				return t
			}
		}
		if t := w.typeOf(x.Y); t.e != nil {
			return t
		}
		return w.typeOf(x.X)
	case *ast.CallExpr:
		return w.callType(x, 0)
	}
	return psType{}
}

func (p *psPkgs) underlyingNamed(t psType) psType { return t }

func (w *psWalker) isTypeExpr(e ast.Expr) bool {
	p := w.sh.p
	switch x := e.(type) {
	case *ast.ArrayType, *ast.MapType, *ast.StarExpr, *ast.InterfaceType, *ast.ChanType, *ast.FuncType:
		if s, ok := e.(*ast.StarExpr); ok {
			return w.isTypeExpr(s.X)
		}
		return true
	case *ast.ParenExpr:
		return w.isTypeExpr(x.X)
	case *ast.Ident:
		if _, loc := w.types[x.Name]; loc {
			return false
		}
		if psIntNames[x.Name] || x.Name == "string" || x.Name == "float64" || x.Name == "float32" || x.Name == "bool" {
			return true
		}
		if _, ok := p.named[w.pkg+"."+x.Name]; ok {
			return true
		}
		_, ok := p.structs[w.pkg+"."+x.Name]
		return ok
	case *ast.SelectorExpr:
		if id, ok := x.X.(*ast.Ident); ok {
			if _, loc := w.types[id.Name]; loc {
				return false
			}
			k := id.Name + "." + x.Sel.Name
			if _, ok := p.named[k]; ok {
				return true
			}
			if _, ok := p.structs[k]; ok {
				return true
			}
			return k == "time.Duration" || k == "net.IP"
		}
	}
	return false
}

// calleeKey resolves a call to a FuncDecl key ("pkg.f" or "pkg.T.m"), or "".
func (w *psWalker) calleeKey(c *ast.CallExpr) string {
	p := w.sh.p
	switch f := c.Fun.(type) {
	case *ast.Ident:
		if _, ok := p.funcs[w.pkg+"."+f.Name]; ok {
			return w.pkg + "." + f.Name
		}
	case *ast.SelectorExpr:
		if id, ok := f.X.(*ast.Ident); ok {
			if _, loc := w.types[id.Name]; !loc {
				if _, ok := p.funcs[id.Name+"."+f.Sel.Name]; ok {
					return id.Name + "." + f.Sel.Name
				}
			}
		}
		if k := p.typeKey(w.typeOf(f.X)); k != "" {
			if _, ok := p.funcs[k+"."+f.Sel.Name]; ok {
				return k + "." + f.Sel.Name
			}
			for _, e := range p.embeds[k] {
				if _, ok := p.funcs[e+"."+f.Sel.Name]; ok {
					return e + "." + f.Sel.Name
				}
			}
		}
	}
	return ""
}

func (w *psWalker) callType(c *ast.CallExpr, i int) psType {
	p := w.sh.p
	if id, ok := c.Fun.(*ast.Ident); ok {
		switch id.Name {
		case "make", "new":
			if len(c.Args) > 0 {
				if id.Name == "new" {
					return psType{&ast.StarExpr{X: c.Args[0]}, w.pkg}
				}
				return psType{c.Args[0], w.pkg}
			}
		case "len", "cap", "copy":
			return psType{ast.NewIdent("int"), w.pkg}
		case "append":
			if len(c.Args) > 0 {
				return w.typeOf(c.Args[0])
			}
		}
	}
	if w.isTypeExpr(c.Fun) && len(c.Args) == 1 {
		return psType{c.Fun, w.pkg}
	}
	if sel, ok := c.Fun.(*ast.SelectorExpr); ok && w.calleeKey(c) == "" && i == 0 {
		// results of the few external (memberlist keyring) methods whose slices are indexed or ranged over
		switch sel.Sel.Name {
		case "GetKeys":
			return psType{&ast.ArrayType{Elt: &ast.ArrayType{Elt: ast.NewIdent("byte")}}, w.pkg}
		case "GetPrimaryKey":
			return psType{&ast.ArrayType{Elt: ast.NewIdent("byte")}, w.pkg}
		}
	}
	if k := w.calleeKey(c); k != "" {
		fd := p.funcs[k]
		if fd.Type.Results != nil {
			n := 0
			for _, r := range fd.Type.Results.List {
				cnt := len(r.Names)
				if cnt == 0 {
					cnt = 1
				}
				if i < n+cnt {
					return psType{r.Type, strings.SplitN(k, ".", 2)[0]}
				}
				n += cnt
			}
		}
	}
	return psType{}
}

// ---------------------------------------------------------------- terms and conditions

// term translates an integer-valued expression to a Lean Nat term.  sub collects
// the non-negativity side conditions of subtractions.
func (w *psWalker) term(e ast.Expr, sub *[]string) string {
	p := w.sh.p
	switch x := e.(type) {
	case *ast.ParenExpr:
		return w.term(x.X, sub)
	case *ast.BasicLit:
		if v, ok := intLitValue(x); ok {
			return fmt.Sprint(v)
		}
	case *ast.Ident:
		if _, loc := w.types[x.Name]; !loc {
			if v, ok := p.consts[w.pkg+"."+x.Name]; ok && v != "" {
				return v
			}
		}
		if k := key(x); k != "" {
			return w.lv("v", k)
		}
	case *ast.SelectorExpr:
		if id, ok := x.X.(*ast.Ident); ok {
			if _, loc := w.types[id.Name]; !loc {
				if v, ok := p.consts[id.Name+"."+x.Sel.Name]; ok && v != "" {
					return v
				}
			}
		}
		if k := key(x); k != "" {
			return w.lv("v", k)
		}
	case *ast.CallExpr:
		if id, ok := x.Fun.(*ast.Ident); ok && id.Name == "len" && len(x.Args) == 1 {
			if k := key(x.Args[0]); k != "" {
				return w.lv("len", k)
			}
			return w.opaque("t")
		}
		if w.isTypeExpr(x.Fun) && len(x.Args) == 1 {
			k := p.kind(psType{x.Fun, w.pkg})
			if k == "int" {
				return w.term(x.Args[0], sub)
			}
		}
		// e.EventType(): a pure getter of the event's kind, modelled as an attribute of e
		if sel, ok := x.Fun.(*ast.SelectorExpr); ok && len(x.Args) == 0 && sel.Sel.Name == "EventType" {
			if k := key(sel.X); k != "" {
				return w.lv("v", k+".EventType")
			}
		}
	case *ast.BinaryExpr:
		switch x.Op {
		case token.ADD, token.SUB, token.MUL, token.QUO, token.REM:
			if kk := p.kind(w.typeOf(x)); kk == "float" || kk == "string" {
				return w.opaque("t")
			}
			a, b := w.term(x.X, sub), w.term(x.Y, sub)
			switch x.Op {
			case token.ADD:
				return "(" + a + " + " + b + ")"
			case token.SUB:
				if sub != nil {
					*sub = append(*sub, b+" ≤ "+a)
				}
				return "(" + a + " - " + b + ")"
			case token.MUL:
				return "(" + a + " * " + b + ")"
			case token.QUO:
				return "(" + a + " / " + b + ")"
			case token.REM:
				return "(" + a + " % " + b + ")"
			}
		}
	}
	return w.opaque("t")
}

func isNil(e ast.Expr) bool {
	id, ok := e.(*ast.Ident)
	return ok && id.Name == "nil"
}

// cond translates a boolean expression to a Lean Prop (opaque parts become `c_n = 1`).
func (w *psWalker) cond(e ast.Expr) string {
	switch x := e.(type) {
	case *ast.ParenExpr:
		return w.cond(x.X)
	case *ast.UnaryExpr:
		if x.Op == token.NOT {
			return "¬ (" + w.cond(x.X) + ")"
		}
	case *ast.Ident:
		if x.Name == "true" {
			return "True"
		}
		if x.Name == "false" {
			return "False"
		}
		return w.lv("v", x.Name) + " = 1"
	case *ast.SelectorExpr:
		if k := key(x); k != "" && w.sh.p.kind(w.typeOf(x)) == "bool" {
			return w.lv("v", k) + " = 1"
		}
	case *ast.BinaryExpr:
		switch x.Op {
		case token.LAND:
			return "(" + w.cond(x.X) + " ∧ " + w.cond(x.Y) + ")"
		case token.LOR:
			return "(" + w.cond(x.X) + " ∨ " + w.cond(x.Y) + ")"
		case token.EQL, token.NEQ, token.LSS, token.LEQ, token.GTR, token.GEQ:
			// the sign of an integer (terms are Nat): `k < 0` / `k >= 0`, and `k == -1` / `k != -1` for the result of an
			// Index-like library call, speak about a separate flag
			if k := key(x.X); k != "" {
				if v, isLit := intLitValue(x.Y); isLit && v == 0 && (x.Op == token.LSS || x.Op == token.GEQ) {
					f := w.lv("v", "neg."+k) + " = 1"
					if x.Op == token.GEQ {
						f = "¬ (" + f + ")"
					}
					return f
				}
				if u, isU := x.Y.(*ast.UnaryExpr); isU && u.Op == token.SUB && psExpr(u.X) == "1" && w.indexLike[k] && (x.Op == token.EQL || x.Op == token.NEQ) {
					f := w.lv("v", "neg."+k) + " = 1"
					if x.Op == token.NEQ {
						f = "¬ (" + f + ")"
					}
					return f
				}
			}
			var a, b string
			if isNil(x.Y) || isNil(x.X) {
				o := x.X
				if isNil(x.X) {
					o = x.Y
				}
				k := key(o)
				if k == "" || (x.Op != token.EQL && x.Op != token.NEQ) {
					break
				}
				a, b = w.lv("ptr", k), "0"
			} else {
				kx, ky := w.sh.p.kind(w.typeOf(x.X)), w.sh.p.kind(w.typeOf(x.Y))
				if kx == "float" || ky == "float" || kx == "string" || ky == "string" || kx == "struct" || ky == "struct" || kx == "other" || ky == "other" {
					break
				}
				a, b = w.term(x.X, nil), w.term(x.Y, nil)
			}
			op := map[token.Token]string{token.EQL: "=", token.NEQ: "≠", token.LSS: "<", token.LEQ: "≤", token.GTR: ">", token.GEQ: "≥"}[x.Op]
			return a + " " + op + " " + b
		}
	}
	if c, ok := e.(*ast.CallExpr); ok {
		if ct, ok := psContracts[w.calleeKey(c)]; ok && ct.boolMeans != "" {
			return w.instantiate(ct.boolMeans, w.sh.p.funcs[w.calleeKey(c)], c)
		}
	}
	return w.opaque("c") + " = 1"
}

// ---------------------------------------------------------------- sites

var psVarRe = regexp.MustCompile(`\b(?:len|ptr|v|c|t)_[A-Za-z0-9_]+`)

func propVars(s string) []string { return psVarRe.FindAllString(s, -1) }

func (w *psWalker) emit(kind, what, src, goal string, extra ...psHyp) {
	// the name is function + kind + ordinal: independent of the names of locals and of the text of the expression
	_ = what
	base := "site_" + w.short + "_" + kind
	w.sh.names[base]++
	name := fmt.Sprintf("%s_%d", base, w.sh.names[base])
	all := append(append([]psHyp{}, w.facts...), extra...)
	all = append(all, w.ambient(goal, all)...)
	// keep the hypotheses connected to the goal through shared variables
	rel := map[string]bool{}
	for _, v := range propVars(goal) {
		rel[v] = true
	}
	used := make([]bool, len(all))
	for changed := true; changed; {
		changed = false
		for i, h := range all {
			if used[i] {
				continue
			}
			vs := propVars(h.prop)
			hit := goal == "False"
			tv := vs
			if h.trig != "" {
				tv = propVars(h.trig)
			}
			for _, v := range tv {
				if rel[v] {
					hit = true
				}
			}
			if hit {
				used[i] = true
				changed = true
				for _, v := range vs {
					rel[v] = true
				}
			}
		}
	}
	var hyps []psHyp
	for i, h := range all {
		if used[i] {
			hyps = append(hyps, h)
		}
	}
	w.sh.sites = append(w.sh.sites, psSite{name: name, kind: kind, src: src, fn: w.short, hyps: hyps, goal: goal})
}

func (s psSite) lean() string {
	// binders in order of first occurrence (not alphabetical: renaming a local must not permute them)
	vars := map[string]bool{}
	var vs []string
	note := func(p string) {
		for _, v := range propVars(p) {
			if !vars[v] {
				vars[v] = true
				vs = append(vs, v)
			}
		}
	}
	for _, h := range s.hyps {
		note(h.prop)
	}
	note(s.goal)
	var b strings.Builder
	fmt.Fprintf(&b, "/-- %s: %s `%s`", s.fn, s.kind, s.src)
	for _, h := range s.hyps {
		if h.tag != "guard" {
			fmt.Fprintf(&b, "\n  [%s] %s", h.tag, h.prop)
		}
	}
	b.WriteString(" -/\n")
	fmt.Fprintf(&b, "def %s : Prop :=", s.name)
	if len(vs) > 0 {
		fmt.Fprintf(&b, " ∀ %s : Nat,", strings.Join(vs, " "))
	}
	for _, h := range s.hyps {
		fmt.Fprintf(&b, "\n  (%s) →", h.prop)
	}
	fmt.Fprintf(&b, "\n  %s\n", s.goal)
	return b.String()
}
