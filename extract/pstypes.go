package main

// Package tables and a deliberately small syntactic type inference used by the
// panic-site extractor (panicsites.go).  go/ast only: struct fields, named
// types, function results are looked up in the parsed packages; anything that
// cannot be resolved is "unknown" and treated conservatively by the caller.

import (
	"go/ast"
	"go/parser"
	"go/token"
	"os"
	"path/filepath"
	"strconv"
	"strings"
)

type psType struct {
	e   ast.Expr
	pkg string
}

type psPkgs struct {
	fset    *token.FileSet
	files   map[string]*ast.File         // "serf/delegate.go"
	structs map[string]map[string]psType // "serf.Serf" -> field -> type ; embedded under the type's own name
	embeds  map[string][]string          // "serf.memberState" -> ["serf.Member"]
	named   map[string]psType            // "serf.LamportTime" -> uint64
	funcs   map[string]*ast.FuncDecl     // "serf.Serf.handleQuery" / "serf.decodeMessage"
	consts  map[string]string            // "serf.PingVersion" -> "1" (int literal consts), others -> ""
	imports map[string]map[string]string // file -> local import name -> pkg short name
}

func loadPkgs(repo string, dirs ...string) (*psPkgs, error) {
	p := &psPkgs{fset: token.NewFileSet(), files: map[string]*ast.File{}, structs: map[string]map[string]psType{},
		embeds: map[string][]string{}, named: map[string]psType{}, funcs: map[string]*ast.FuncDecl{}, consts: map[string]string{},
		imports: map[string]map[string]string{}}
	for _, d := range dirs {
		ents, err := os.ReadDir(filepath.Join(repo, d))
		if err != nil {
			return nil, err
		}
		for _, e := range ents {
			n := e.Name()
			if !strings.HasSuffix(n, ".go") || strings.HasSuffix(n, "_test.go") || strings.HasPrefix(n, "verif_") {
				continue
			}
			f, err := parser.ParseFile(p.fset, filepath.Join(repo, d, n), nil, 0)
			if err != nil {
				return nil, err
			}
			p.files[d+"/"+n] = f
			p.index(d, f)
		}
	}
	return p, nil
}

func (p *psPkgs) index(pkg string, f *ast.File) {
	for _, d := range f.Decls {
		switch x := d.(type) {
		case *ast.FuncDecl:
			k := pkg + "." + x.Name.Name
			if x.Recv != nil && len(x.Recv.List) == 1 {
				t := x.Recv.List[0].Type
				if s, ok := t.(*ast.StarExpr); ok {
					t = s.X
				}
				if id, ok := t.(*ast.Ident); ok {
					k = pkg + "." + id.Name + "." + x.Name.Name
				}
			}
			p.funcs[k] = x
		case *ast.GenDecl:
			for _, s := range x.Specs {
				switch sp := s.(type) {
				case *ast.TypeSpec:
					if st, ok := sp.Type.(*ast.StructType); ok {
						m := map[string]psType{}
						for _, fl := range st.Fields.List {
							if len(fl.Names) == 0 {
								t := fl.Type
								if s2, ok := t.(*ast.StarExpr); ok {
									t = s2.X
								}
								if id, ok := t.(*ast.Ident); ok {
									p.embeds[pkg+"."+sp.Name.Name] = append(p.embeds[pkg+"."+sp.Name.Name], pkg+"."+id.Name)
									m[id.Name] = psType{fl.Type, pkg}
								}
								continue
							}
							for _, n := range fl.Names {
								m[n.Name] = psType{fl.Type, pkg}
							}
						}
						p.structs[pkg+"."+sp.Name.Name] = m
					} else {
						p.named[pkg+"."+sp.Name.Name] = psType{sp.Type, pkg}
					}
				case *ast.ValueSpec:
					if x.Tok != token.CONST {
						continue
					}
					for i, n := range sp.Names {
						v := ""
						if i < len(sp.Values) {
							if bl, ok := sp.Values[i].(*ast.BasicLit); ok && bl.Kind == token.INT {
								v = bl.Value
							}
						}
						p.consts[pkg+"."+n.Name] = v
					}
				}
			}
		}
	}
}

func (p *psPkgs) field(structKey, name string) (psType, bool) {
	if m, ok := p.structs[structKey]; ok {
		if t, ok := m[name]; ok {
			return t, true
		}
		for _, e := range p.embeds[structKey] {
			if t, ok := p.field(e, name); ok {
				return t, true
			}
		}
	}
	return psType{}, false
}

// typeKey: the "pkg.Name" of a (possibly pointer-to) named type, or "".
func (p *psPkgs) typeKey(t psType) string {
	e := t.e
	if e == nil {
		return ""
	}
	if s, ok := e.(*ast.StarExpr); ok {
		e = s.X
	}
	switch x := e.(type) {
	case *ast.Ident:
		return t.pkg + "." + x.Name
	case *ast.SelectorExpr:
		if id, ok := x.X.(*ast.Ident); ok {
			return id.Name + "." + x.Sel.Name
		}
	}
	return ""
}

// underlying resolves in-package named types.
func (p *psPkgs) underlying(t psType) psType {
	for i := 0; i < 8 && t.e != nil; i++ {
		k := ""
		switch x := t.e.(type) {
		case *ast.Ident:
			k = t.pkg + "." + x.Name
		case *ast.SelectorExpr:
			if id, ok := x.X.(*ast.Ident); ok {
				k = id.Name + "." + x.Sel.Name
			}
		case *ast.ParenExpr:
			t = psType{x.X, t.pkg}
			continue
		}
		if k == "" {
			return t
		}
		n, ok := p.named[k]
		if !ok {
			return t
		}
		t = n
	}
	return t
}

var psIntNames = map[string]bool{"int": true, "int8": true, "int16": true, "int32": true, "int64": true, "uint": true, "uint8": true,
	"uint16": true, "uint32": true, "uint64": true, "byte": true, "uintptr": true}

// kind: map | slice | string | int | float | ptr | bool | struct | other | unknown
func (p *psPkgs) kind(t psType) string {
	if t.e == nil {
		return "unknown"
	}
	u := p.underlying(t)
	switch x := u.e.(type) {
	case *ast.MapType:
		return "map"
	case *ast.ArrayType:
		return "slice"
	case *ast.StarExpr:
		return "ptr"
	case *ast.Ident:
		switch {
		case x.Name == "string":
			return "string"
		case psIntNames[x.Name]:
			return "int"
		case x.Name == "float64" || x.Name == "float32":
			return "float"
		case x.Name == "bool":
			return "bool"
		}
		if _, ok := p.structs[u.pkg+"."+x.Name]; ok {
			return "struct"
		}
		return "other"
	case *ast.SelectorExpr:
		if id, ok := x.X.(*ast.Ident); ok {
			if id.Name == "time" && x.Sel.Name == "Duration" {
				return "int"
			}
			if _, ok := p.structs[id.Name+"."+x.Sel.Name]; ok {
				return "struct"
			}
		}
		return "other"
	case *ast.InterfaceType, *ast.FuncType, *ast.ChanType:
		return "other"
	}
	return "unknown"
}

func (p *psPkgs) elem(t psType) psType {
	u := p.underlying(t)
	switch x := u.e.(type) {
	case *ast.MapType:
		return psType{x.Value, u.pkg}
	case *ast.ArrayType:
		return psType{x.Elt, u.pkg}
	case *ast.Ident:
		if x.Name == "string" {
			return psType{ast.NewIdent("byte"), u.pkg}
		}
	}
	return psType{}
}

func psExpr(e ast.Expr) string {
	switch x := e.(type) {
	case *ast.Ident:
		return x.Name
	case *ast.SelectorExpr:
		return psExpr(x.X) + "." + x.Sel.Name
	case *ast.StarExpr:
		return "*" + psExpr(x.X)
	case *ast.ParenExpr:
		return "(" + psExpr(x.X) + ")"
	case *ast.BasicLit:
		return x.Value
	case *ast.IndexExpr:
		return psExpr(x.X) + "[" + psExpr(x.Index) + "]"
	case *ast.SliceExpr:
		s := psExpr(x.X) + "["
		if x.Low != nil {
			s += psExpr(x.Low)
		}
		s += ":"
		if x.High != nil {
			s += psExpr(x.High)
		}
		return s + "]"
	case *ast.CallExpr:
		var a []string
		for _, y := range x.Args {
			a = append(a, psExpr(y))
		}
		return psExpr(x.Fun) + "(" + strings.Join(a, ", ") + ")"
	case *ast.BinaryExpr:
		return psExpr(x.X) + " " + x.Op.String() + " " + psExpr(x.Y)
	case *ast.UnaryExpr:
		return x.Op.String() + psExpr(x.X)
	case *ast.TypeAssertExpr:
		if x.Type == nil {
			return psExpr(x.X) + ".(type)"
		}
		return psExpr(x.X) + ".(" + psExpr(x.Type) + ")"
	case *ast.ArrayType:
		return "[]" + psExpr(x.Elt)
	case *ast.CompositeLit:
		if x.Type != nil {
			return psExpr(x.Type) + "{…}"
		}
		return "{…}"
	case *ast.MapType:
		return "map[" + psExpr(x.Key) + "]" + psExpr(x.Value)
	case *ast.FuncLit:
		return "func{…}"
	}
	return "?"
}

func intLitValue(e ast.Expr) (int, bool) {
	if bl, ok := e.(*ast.BasicLit); ok && bl.Kind == token.INT {
		v, err := strconv.ParseInt(bl.Value, 0, 64)
		if err == nil {
			return int(v), true
		}
	}
	return 0, false
}
