package main

import (
	"fmt"
	"go/ast"
	"strings"
)

// Lock shapes: how a method uses its mutex (first statement a Lock/RLock, a
// deferred unlock right after, any explicit unlock in the body).

type lockShape struct {
	lockCall    string
	deferred    bool
	earlyUnlock bool
}

// callOn returns (receiver expression text, method name) for a call x.y.M().
func callOn(e ast.Expr) (string, string, bool) {
	c, ok := e.(*ast.CallExpr)
	if !ok || len(c.Args) != 0 {
		return "", "", false
	}
	sel, ok := c.Fun.(*ast.SelectorExpr)
	if !ok {
		return "", "", false
	}
	return exprString(sel.X), sel.Sel.Name, true
}

// isUnlockOf reports whether st is the statement `mu.Unlock()` / `mu.RUnlock()`.
func isUnlockOf(st ast.Stmt, mu string) bool {
	es, ok := st.(*ast.ExprStmt)
	if !ok {
		return false
	}
	mu2, m2, ok := callOn(es.X)
	return ok && mu2 == mu && (m2 == "Unlock" || m2 == "RUnlock")
}

func plainReturn(r *ast.ReturnStmt) bool {
	for _, e := range r.Results {
		switch e.(type) {
		case *ast.Ident, *ast.BasicLit:
		default:
			return false
		}
	}
	return true
}

// explicitWholeBody: the statements after `mu.Lock()` release the mutex exactly where a
// `defer mu.Unlock()` would: an Unlock immediately before EVERY return (whose results are plain
// locals / literals, so nothing is evaluated after the unlock) and as the last statement when the
// end of the function is reachable, and no other Unlock anywhere (not in nested function
// literals either).  Such a body holds the lock over the whole section, like the deferred form.
func explicitWholeBody(list []ast.Stmt, mu string) bool {
	sawUnlock := false
	var walk func(l []ast.Stmt, top bool) bool
	nested := func(st ast.Stmt) ([][]ast.Stmt, bool) {
		switch s := st.(type) {
		case *ast.BlockStmt:
			return [][]ast.Stmt{s.List}, true
		case *ast.LabeledStmt:
			return [][]ast.Stmt{{s.Stmt}}, true
		case *ast.IfStmt:
			out := [][]ast.Stmt{s.Body.List}
			if s.Else != nil {
				out = append(out, []ast.Stmt{s.Else})
			}
			return out, true
		case *ast.ForStmt:
			return [][]ast.Stmt{s.Body.List}, true
		case *ast.RangeStmt:
			return [][]ast.Stmt{s.Body.List}, true
		case *ast.SwitchStmt:
			var out [][]ast.Stmt
			for _, c := range s.Body.List {
				out = append(out, c.(*ast.CaseClause).Body)
			}
			return out, true
		case *ast.TypeSwitchStmt:
			var out [][]ast.Stmt
			for _, c := range s.Body.List {
				out = append(out, c.(*ast.CaseClause).Body)
			}
			return out, true
		case *ast.SelectStmt:
			var out [][]ast.Stmt
			for _, c := range s.Body.List {
				out = append(out, c.(*ast.CommClause).Body)
			}
			return out, true
		}
		return nil, false
	}
	walk = func(l []ast.Stmt, top bool) bool {
		for i, st := range l {
			if isUnlockOf(st, mu) {
				sawUnlock = true
				if i+1 < len(l) {
					if r, ok := l[i+1].(*ast.ReturnStmt); ok && plainReturn(r) {
						continue
					}
					return false
				}
				if top {
					continue // last statement of the function
				}
				return false
			}
			if r, ok := st.(*ast.ReturnStmt); ok {
				if i == 0 || !isUnlockOf(l[i-1], mu) || !plainReturn(r) {
					return false
				}
				continue
			}
			if subs, ok := nested(st); ok {
				for _, sub := range subs {
					if !walk(sub, false) {
						return false
					}
				}
				continue
			}
			// any other statement must not mention an unlock of this mutex (go/defer/func literals included)
			bad := false
			ast.Inspect(st, func(n ast.Node) bool {
				if c, ok := n.(*ast.CallExpr); ok {
					if mu2, m2, ok := callOn(c); ok && mu2 == mu && (m2 == "Unlock" || m2 == "RUnlock") {
						bad = true
					}
				}
				if _, ok := n.(*ast.ReturnStmt); ok {
					// a return inside a function literal is not a return of this function; one anywhere else
					// in an unsupported statement is
					return true
				}
				return true
			})
			if bad {
				return false
			}
		}
		return true
	}
	if len(list) == 0 {
		return false
	}
	last := list[len(list)-1]
	if _, isRet := last.(*ast.ReturnStmt); !isRet && !isUnlockOf(last, mu) {
		return false // the end of the function would be reached with the lock held
	}
	return walk(list, true) && sawUnlock
}

// methodLockShape: the lock shape of a method whose first statement takes the lock.
func methodLockShape(fd *ast.FuncDecl) lockShape {
	if fd == nil || fd.Body == nil {
		return lockShape{lockCall: "none"}
	}
	return stmtsLockShape(fd.Body.List)
}

// stmtsLockShape: the same for a statement list that starts with the Lock (a method body, or
// the tail of one from the Lock on).
func stmtsLockShape(stmts []ast.Stmt) lockShape {
	sh := lockShape{lockCall: "none"}
	fd := &ast.FuncDecl{Body: &ast.BlockStmt{List: stmts}}
	if len(fd.Body.List) == 0 {
		return sh
	}
	first, ok := fd.Body.List[0].(*ast.ExprStmt)
	if !ok {
		return sh
	}
	mu, m, ok := callOn(first.X)
	if !ok || (m != "Lock" && m != "RLock") {
		return sh
	}
	sh.lockCall = m
	if len(fd.Body.List) > 1 {
		if d, ok := fd.Body.List[1].(*ast.DeferStmt); ok {
			if mu2, m2, ok := callOn(d.Call); ok && mu2 == mu && (m2 == "Unlock" || m2 == "RUnlock") {
				sh.deferred = true
			}
		}
	}
	body := fd.Body.List
	if !sh.deferred && explicitWholeBody(body[1:], mu) {
		// `defer mu.Unlock()` written out: an Unlock before every return and at the end, no other
		sh.deferred = true
		return sh
	}
	if !sh.deferred {
		// the same thing written without defer: `mu.Lock(); …; mu.Unlock(); return <locals/literals>` (or the
		// Unlock as the very last statement) holds the lock over the whole body as well
		end := len(body)
		if r, ok := body[end-1].(*ast.ReturnStmt); ok && end >= 3 {
			plain := true
			for _, e := range r.Results {
				switch e.(type) {
				case *ast.Ident, *ast.BasicLit:
				default:
					plain = false
				}
			}
			if plain {
				end--
			}
		}
		if end >= 2 && end <= len(body) {
			if es, ok := body[end-1].(*ast.ExprStmt); ok {
				if mu2, m2, ok := callOn(es.X); ok && mu2 == mu && (m2 == "Unlock" || m2 == "RUnlock") {
					if _, isRet := body[len(body)-1].(*ast.ReturnStmt); isRet || end == len(body) {
						sh.deferred = true
						body = append(append([]ast.Stmt{}, body[:end-1]...), body[end:]...)
					}
				}
			}
		}
	}
	for i, st := range body {
		if i <= 1 && sh.deferred && len(body) == len(fd.Body.List) || i == 0 {
			continue
		}
		ast.Inspect(st, func(n ast.Node) bool {
			if c, ok := n.(*ast.CallExpr); ok {
				if mu2, m2, ok := callOn(c); ok && mu2 == mu && (m2 == "Unlock" || m2 == "RUnlock") {
					sh.earlyUnlock = true
				}
			}
			return true
		})
	}
	return sh
}

func (s lockShape) lean() string {
	return fmt.Sprintf("{ lockCall := %q, deferred := %v, earlyUnlock := %v }", s.lockCall, s.deferred, s.earlyUnlock)
}

func genAgentSync(repo string) (string, error) {
	dir := repo + "/cmd/serf/command/agent/"
	_, gw, err := parseFile(dir + "gated_writer.go")
	if err != nil {
		return "", err
	}
	_, lw, err := parseFile(dir + "log_writer.go")
	if err != nil {
		return "", err
	}
	var b strings.Builder
	b.WriteString("-- GENERATED by /verif/extract from cmd/serf/command/agent/{gated_writer,log_writer}.go — do not edit.\n")
	b.WriteString("import SerfModel.Model.LogWriters\nnamespace SerfModel.Gen.AgentSync\nopen SerfModel.LogWriters\n\n")
	type m struct {
		f          *ast.File
		recv, name string
		lean       string
	}
	for _, x := range []m{
		{gw, "GatedWriter", "Write", "gatedWrite"},
		{gw, "GatedWriter", "Flush", "gatedFlush"},
		{lw, "logWriter", "Write", "logWrite"},
		{lw, "logWriter", "RegisterHandler", "logRegister"},
		{lw, "logWriter", "DeregisterHandler", "logDeregister"},
	} {
		fd := findFunc(x.f, x.recv, x.name)
		if fd == nil {
			return "", fmt.Errorf("method %s.%s not found", x.recv, x.name)
		}
		fmt.Fprintf(&b, "def %s : LockShape := %s\n", x.lean, methodLockShape(fd).lean())
	}
	b.WriteString("\ndef gated : Skeleton := { write := gatedWrite, flush := gatedFlush }\n\nend SerfModel.Gen.AgentSync\n")
	return b.String(), nil
}

func init() { addGen("AgentSync", genAgentSync) }
