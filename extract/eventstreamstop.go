package main

import (
	"fmt"
	"go/ast"
	"go/token"
	"strings"
)

// eventStream.HandleEvent / Stop (C25): how the two methods are serialised.
// Both must hold <recv>.stopLock from a top-level Lock to every exit (deferred Unlock, or an
// explicit Unlock before every return and at the end — see stmtsLockShape); every send on
// eventCh in HandleEvent and the close in Stop must run only when <recv>.stopped is false (after
// `if stopped { return }` or inside `if !stopped { … }`); Stop must set the flag before the close.

func isRecvSel(e ast.Expr, recv, field string) bool {
	s, ok := e.(*ast.SelectorExpr)
	if !ok || s.Sel.Name != field {
		return false
	}
	id, ok := s.X.(*ast.Ident)
	return ok && id.Name == recv
}

// flat returns the top-level statements with labels unwrapped.
func flat(body *ast.BlockStmt) []ast.Stmt {
	var out []ast.Stmt
	for _, s := range body.List {
		for {
			l, ok := s.(*ast.LabeledStmt)
			if !ok {
				break
			}
			s = l.Stmt
		}
		out = append(out, s)
	}
	return out
}

type stopFacts struct {
	lock    bool // the method holds recv.stopLock from lockPos to every exit (deferred or explicit unlocks)
	lockPos token.Pos
	// guards: a position p is guarded when the code at p runs only if recv.stopped is false:
	// after a top-level `if recv.stopped { [unlock;] return }`, or inside a top-level `if !recv.stopped { … }`
	earlyReturnPos token.Pos
	guardedFrom    []token.Pos
	guardedTo      []token.Pos
	setPos         token.Pos
}

func (f stopFacts) guarded(p token.Pos) bool {
	if !f.lock || p <= f.lockPos {
		return false
	}
	if f.earlyReturnPos != token.NoPos && p > f.earlyReturnPos {
		return true
	}
	for i := range f.guardedFrom {
		if p > f.guardedFrom[i] && p < f.guardedTo[i] {
			return true
		}
	}
	return false
}

func analyseStopMethod(fd *ast.FuncDecl, recv string) stopFacts {
	var f stopFacts
	st := flat(fd.Body)
	mu := recv + ".stopLock"
	for i, s := range st {
		if es, ok := s.(*ast.ExprStmt); ok && !f.lock {
			if x, m, ok := callOn(es.X); ok && x == mu && m == "Lock" {
				// the lock section is the rest of the method from here on
				sh := stmtsLockShape(st[i:])
				if sh.lockCall == "Lock" && sh.deferred && !sh.earlyUnlock {
					f.lock, f.lockPos = true, s.Pos()
				}
			}
			continue
		}
		if !f.lock {
			continue
		}
		is, ok := s.(*ast.IfStmt)
		if !ok || is.Init != nil {
			continue
		}
		// `if recv.stopped { [recv.stopLock.Unlock();] return }`
		if is.Else == nil && isRecvSel(is.Cond, recv, "stopped") && f.earlyReturnPos == token.NoPos {
			body := is.Body.List
			if len(body) == 2 && isUnlockOf(body[0], mu) {
				body = body[1:]
			}
			if len(body) == 1 {
				if r, ok := body[0].(*ast.ReturnStmt); ok && len(r.Results) == 0 {
					f.earlyReturnPos = s.End()
				}
			}
		}
		// `if !recv.stopped { … }` (the early return written as a guard)
		if ue, ok := is.Cond.(*ast.UnaryExpr); ok && is.Else == nil && ue.Op == token.NOT && isRecvSel(ue.X, recv, "stopped") {
			f.guardedFrom = append(f.guardedFrom, is.Body.Lbrace)
			f.guardedTo = append(f.guardedTo, is.Body.Rbrace)
		}
	}
	ast.Inspect(fd.Body, func(n ast.Node) bool {
		if as, ok := n.(*ast.AssignStmt); ok && as.Tok == token.ASSIGN && len(as.Lhs) == 1 && len(as.Rhs) == 1 && isRecvSel(as.Lhs[0], recv, "stopped") {
			if id, ok := as.Rhs[0].(*ast.Ident); ok && id.Name == "true" && f.setPos == token.NoPos {
				f.setPos = as.Pos()
			}
		}
		return true
	})
	return f
}

func genEventStreamStop(repo string) (string, error) {
	_, f, err := parseFile(repo + "/cmd/serf/command/agent/ipc_event_stream.go")
	if err != nil {
		return "", err
	}
	he := findFunc(f, "eventStream", "HandleEvent")
	sp := findFunc(f, "eventStream", "Stop")
	if he == nil || sp == nil || he.Body == nil || sp.Body == nil {
		return "", fmt.Errorf("eventStream.HandleEvent / Stop not found")
	}
	recvName := func(fd *ast.FuncDecl) string {
		r, _ := recvInfo(fd)
		return r
	}
	hr, sr := recvName(he), recvName(sp)
	if hr == "" || sr == "" {
		return "", fmt.Errorf("unnamed receiver")
	}
	hf := analyseStopMethod(he, hr)
	sf := analyseStopMethod(sp, sr)
	// every send on eventCh in HandleEvent, every close of eventCh in Stop
	var sends, closes []token.Pos
	ast.Inspect(he.Body, func(n ast.Node) bool {
		if s, ok := n.(*ast.SendStmt); ok && isRecvSel(s.Chan, hr, "eventCh") {
			sends = append(sends, s.Pos())
		}
		return true
	})
	ast.Inspect(sp.Body, func(n ast.Node) bool {
		if c, ok := n.(*ast.CallExpr); ok {
			if id, ok := c.Fun.(*ast.Ident); ok && id.Name == "close" && len(c.Args) == 1 && isRecvSel(c.Args[0], sr, "eventCh") {
				closes = append(closes, c.Pos())
			}
		}
		return true
	})
	if len(sends) == 0 || len(closes) == 0 {
		return "", fmt.Errorf("no send on eventCh in HandleEvent or no close in Stop (%d/%d)", len(sends), len(closes))
	}
	// the channel must not be sent to or closed anywhere else in the file
	others := 0
	for _, d := range f.Decls {
		fd, ok := d.(*ast.FuncDecl)
		if !ok || fd.Body == nil || fd == he || fd == sp {
			continue
		}
		ast.Inspect(fd.Body, func(n ast.Node) bool {
			switch x := n.(type) {
			case *ast.SendStmt:
				if s, ok := x.Chan.(*ast.SelectorExpr); ok && s.Sel.Name == "eventCh" {
					others++
				}
			case *ast.CallExpr:
				if id, ok := x.Fun.(*ast.Ident); ok && id.Name == "close" && len(x.Args) == 1 {
					if s, ok := x.Args[0].(*ast.SelectorExpr); ok && s.Sel.Name == "eventCh" {
						others++
					}
				}
			}
			return true
		})
	}
	after := func(ps []token.Pos, p token.Pos) bool {
		for _, x := range ps {
			if x <= p {
				return false
			}
		}
		return true
	}
	allGuarded := func(f stopFacts, ps []token.Pos) bool {
		for _, x := range ps {
			if !f.guarded(x) {
				return false
			}
		}
		return true
	}
	handleLock := hf.lock && after(sends, hf.lockPos)
	handleTest := hf.lock && allGuarded(hf, sends)
	stopLock := sf.lock && after(closes, sf.lockPos)
	stopTest := sf.lock && allGuarded(sf, closes)
	stopSets := sf.lock && sf.setPos != token.NoPos && sf.setPos > sf.lockPos && after(closes, sf.setPos) && sf.guarded(sf.setPos)
	var b strings.Builder
	b.WriteString("-- GENERATED by /verif/extract from cmd/serf/command/agent/ipc_event_stream.go — do not edit.\n")
	b.WriteString("import SerfModel.Model.IpcStreams\nnamespace SerfModel.Gen.EventStreamStop\nopen SerfModel.IpcStreams\n\n")
	fmt.Fprintf(&b, "def shape : StopShape :=\n  { handleLock := %v, handleTest := %v, stopLock := %v, stopTest := %v, stopSetsBeforeClose := %v,\n    otherChannelOps := %d }\n\nend SerfModel.Gen.EventStreamStop\n",
		handleLock, handleTest, stopLock, stopTest, stopSets, others)
	return b.String(), nil
}

func init() { addGen("EventStreamStop", genEventStreamStop) }
