package main

import (
	"fmt"
	"go/ast"
	"go/token"
	"sort"
	"strings"
)

// Coalescers: the decisive code of serf/coalesce_member.go, serf/coalesce_user.go and
// serf/coalesce.go, regenerated on every run — by MEANING where the code carries logic, by
// canonical text elsewhere.
//
// Canonical terms.  Expressions are printed with the receiver as `r`, the parameters as
// `p0, p1, …`, and every local that merely NAMES another expression replaced by that expression
// (`user := e.(UserEvent)` makes `user.Name` print as `p0.(UserEvent).Name`; `latest, ok :=
// c.events[k]` makes `ok` print as `r.events[k]#ok`; a range value `m` over `xs` and `xs[i]` with
// `i` the range key both print as `xs[*]`, a range key over a map as `#k(xs)`).  Other locals are
// `v0, v1, …` in order of definition.  So renaming a variable, inlining or introducing an alias,
// or switching between the two range forms changes nothing below.
//
// Programs.  `Handle` (both coalescers), `userEventCoalescer.Coalesce` and the body of the loop in
// `memberEventCoalescer.Flush` are translated into a small program IR (if / else, switch with case
// lists, early return or continue, boolean results, named primitive actions) that the Lean side
// INTERPRETS and proves equal to the hand-written model for all inputs — so a flipped condition
// with swapped branches, an early return turned into if/else, merged case lists and the like
// leave the obligations intact, while any change of behaviour breaks them.
//
// The rest (what the member `Coalesce` loop stores, the statements around the loops of the two
// `Flush`, the select cases and INGEST / FLUSH blocks of `coalesceLoop`) is emitted as canonical
// statement text.  A shape outside all this is an error: no file is written.

type clEnv struct {
	alias map[string]string
	nloc  *int
}

func newClEnv(fd *ast.FuncDecl) *clEnv {
	n := 0
	en := &clEnv{alias: map[string]string{}, nloc: &n}
	if r := recvName(fd); r != "" {
		en.alias[r] = "r"
	}
	k := 0
	if fd.Type.Params != nil {
		for _, f := range fd.Type.Params.List {
			for _, nm := range f.Names {
				en.alias[nm.Name] = fmt.Sprintf("p%d", k)
				k++
			}
		}
	}
	return en
}

func (en *clEnv) fork() *clEnv {
	m := map[string]string{}
	for k, v := range en.alias {
		m[k] = v
	}
	return &clEnv{alias: m, nloc: en.nloc}
}

func (en *clEnv) local(name string) string {
	if name == "_" {
		return "_"
	}
	v := fmt.Sprintf("v%d", *en.nloc)
	*en.nloc++
	en.alias[name] = v
	return v
}

func clRaw(n ast.Node) string { return strings.Join(strings.Fields(exprString(n)), " ") }

func (en *clEnv) term(e ast.Expr) (string, error) {
	switch v := e.(type) {
	case *ast.Ident:
		if a, ok := en.alias[v.Name]; ok {
			return a, nil
		}
		return v.Name, nil
	case *ast.BasicLit:
		return v.Value, nil
	case *ast.ParenExpr:
		x, err := en.term(v.X)
		return "(" + x + ")", err
	case *ast.SelectorExpr:
		x, err := en.term(v.X)
		return x + "." + v.Sel.Name, err
	case *ast.StarExpr:
		x, err := en.term(v.X)
		return "*" + x, err
	case *ast.TypeAssertExpr:
		x, err := en.term(v.X)
		return x + ".(" + clRaw(v.Type) + ")", err
	case *ast.IndexExpr:
		x, err := en.term(v.X)
		if err != nil {
			return "", err
		}
		i, err := en.term(v.Index)
		if err != nil {
			return "", err
		}
		if i == "#k("+x+")" {
			return x + "[*]", nil
		}
		return x + "[" + i + "]", nil
	case *ast.UnaryExpr:
		x, err := en.term(v.X)
		return v.Op.String() + x, err
	case *ast.SliceExpr:
		x, err := en.term(v.X)
		if err != nil {
			return "", err
		}
		part := func(e ast.Expr) string {
			if e == nil {
				return ""
			}
			t, err2 := en.term(e)
			if err2 != nil {
				err = err2
			}
			return t
		}
		out := x + "[" + part(v.Low) + ":" + part(v.High)
		if v.Slice3 {
			out += ":" + part(v.Max)
		}
		return out + "]", err
	case *ast.BinaryExpr:
		x, err := en.term(v.X)
		if err != nil {
			return "", err
		}
		y, err := en.term(v.Y)
		return x + " " + v.Op.String() + " " + y, err
	case *ast.CallExpr:
		f, err := en.term(v.Fun)
		if err != nil {
			return "", err
		}
		var as []string
		for _, a := range v.Args {
			switch a.(type) {
			case *ast.MapType, *ast.ArrayType, *ast.ChanType:
				as = append(as, clRaw(a))
				continue
			}
			t, err := en.term(a)
			if err != nil {
				return "", err
			}
			as = append(as, t)
		}
		ell := ""
		if v.Ellipsis.IsValid() {
			ell = "..."
		}
		return f + "(" + strings.Join(as, ", ") + ell + ")", nil
	case *ast.CompositeLit:
		var es []string
		for _, el := range v.Elts {
			if kv, ok := el.(*ast.KeyValueExpr); ok {
				t, err := en.term(kv.Value)
				if err != nil {
					return "", err
				}
				es = append(es, clRaw(kv.Key)+": "+t)
				continue
			}
			t, err := en.term(el)
			if err != nil {
				return "", err
			}
			es = append(es, t)
		}
		return clRaw(v.Type) + "{" + strings.Join(es, ", ") + "}", nil
	case *ast.MapType, *ast.ArrayType, *ast.ChanType:
		return clRaw(v), nil
	}
	return "", fmt.Errorf("unsupported expression %s", clRaw(e))
}

// pure: the expression only NAMES something reachable from the receiver, a parameter or a local
// (a constant such as `false` is a value, not a name: `x := false` makes a variable).
func (en *clEnv) pure(e ast.Expr) bool {
	switch v := e.(type) {
	case *ast.Ident:
		_, ok := en.alias[v.Name]
		return ok
	case *ast.SelectorExpr:
		return en.pure(v.X)
	case *ast.IndexExpr:
		return en.pure(v.X) && en.pure(v.Index)
	case *ast.TypeAssertExpr:
		return en.pure(v.X)
	case *ast.ParenExpr:
		return en.pure(v.X)
	}
	return false
}

// define processes `a := x`, `a, ok := x[i]`, `a, ok := x.(T)`: an alias when the right-hand side
// only names something, otherwise fresh locals. Returns the canonical statement text.
func (en *clEnv) define(s *ast.AssignStmt) (string, bool, error) {
	if s.Tok != token.DEFINE {
		return "", false, nil
	}
	var rhs []string
	for _, r := range s.Rhs {
		t, err := en.term(r)
		if err != nil {
			return "", false, err
		}
		rhs = append(rhs, t)
	}
	names := func() []string {
		var out []string
		for _, l := range s.Lhs {
			id, ok := l.(*ast.Ident)
			if !ok {
				out = append(out, "?")
				continue
			}
			out = append(out, id.Name)
		}
		return out
	}()
	if len(s.Rhs) == 1 && en.pure(s.Rhs[0]) {
		switch len(names) {
		case 1:
			en.alias[names[0]] = rhs[0]
			return "", true, nil
		case 2:
			if names[0] != "_" {
				en.alias[names[0]] = rhs[0]
			}
			if names[1] != "_" {
				en.alias[names[1]] = rhs[0] + "#ok"
			}
			return "", true, nil
		}
	}
	var ls []string
	for _, n := range names {
		ls = append(ls, en.local(n))
	}
	return strings.Join(ls, ", ") + " := " + strings.Join(rhs, ", "), false, nil
}

// stmt prints a statement canonically (for the facts that stay textual).
func (en *clEnv) stmt(s ast.Stmt) (string, error) {
	switch v := s.(type) {
	case *ast.ExprStmt:
		return en.term(v.X)
	case *ast.SendStmt:
		c, err := en.term(v.Chan)
		if err != nil {
			return "", err
		}
		x, err := en.term(v.Value)
		return c + " <- " + x, err
	case *ast.AssignStmt:
		if v.Tok == token.DEFINE {
			t, aliased, err := en.define(v)
			if aliased {
				return "", err
			}
			return t, err
		}
		var ls, rs []string
		for _, l := range v.Lhs {
			t, err := en.term(l)
			if err != nil {
				return "", err
			}
			ls = append(ls, t)
		}
		for _, r := range v.Rhs {
			t, err := en.term(r)
			if err != nil {
				return "", err
			}
			rs = append(rs, t)
		}
		return strings.Join(ls, ", ") + " " + v.Tok.String() + " " + strings.Join(rs, ", "), nil
	case *ast.ReturnStmt:
		var rs []string
		for _, r := range v.Results {
			t, err := en.term(r)
			if err != nil {
				return "", err
			}
			rs = append(rs, t)
		}
		if len(rs) == 0 {
			return "return", nil
		}
		return "return " + strings.Join(rs, ", "), nil
	case *ast.BranchStmt:
		if v.Label != nil {
			return v.Tok.String() + " " + v.Label.Name, nil
		}
		return v.Tok.String(), nil
	case *ast.DeclStmt:
		gd, ok := v.Decl.(*ast.GenDecl)
		if !ok || gd.Tok != token.VAR || len(gd.Specs) != 1 {
			return "", fmt.Errorf("unsupported declaration %s", clRaw(s))
		}
		vs := gd.Specs[0].(*ast.ValueSpec)
		if len(vs.Values) != 0 || vs.Type == nil {
			return "", fmt.Errorf("unsupported declaration %s", clRaw(s))
		}
		var ns []string
		for _, n := range vs.Names {
			ns = append(ns, en.local(n.Name))
		}
		return "var " + strings.Join(ns, ", ") + " " + clRaw(vs.Type), nil
	case *ast.IfStmt:
		if v.Init != nil {
			return "", fmt.Errorf("unsupported if with init %s", clRaw(s))
		}
		c, err := en.term(v.Cond)
		if err != nil {
			return "", err
		}
		b, err := en.block(v.Body.List)
		if err != nil {
			return "", err
		}
		out := "if " + c + " { " + b + " }"
		if v.Else != nil {
			eb, ok := v.Else.(*ast.BlockStmt)
			if !ok {
				return "", fmt.Errorf("unsupported else-if %s", clRaw(s))
			}
			e, err := en.block(eb.List)
			if err != nil {
				return "", err
			}
			out += " else { " + e + " }"
		}
		return out, nil
	case *ast.RangeStmt:
		h, err := en.rangeHeader(v)
		if err != nil {
			return "", err
		}
		b, err := en.block(v.Body.List)
		if err != nil {
			return "", err
		}
		return h + " { " + b + " }", nil
	}
	return "", fmt.Errorf("unsupported statement %s", clRaw(s))
}

func (en *clEnv) block(l []ast.Stmt) (string, error) {
	var out []string
	for _, s := range l {
		t, err := en.stmt(s)
		if err != nil {
			return "", err
		}
		if t != "" {
			out = append(out, t)
		}
	}
	return strings.Join(out, "; "), nil
}

func (en *clEnv) stmts(l []ast.Stmt) ([]string, error) {
	var out []string
	for _, s := range l {
		t, err := en.stmt(s)
		if err != nil {
			return nil, err
		}
		if t != "" {
			out = append(out, t)
		}
	}
	return out, nil
}

// rangeHeader binds the range variables (value ↦ xs[*], key ↦ #k(xs)) and returns `range xs`.
func (en *clEnv) rangeHeader(r *ast.RangeStmt) (string, error) {
	x, err := en.term(r.X)
	if err != nil {
		return "", err
	}
	if r.Tok != token.DEFINE && (r.Key != nil || r.Value != nil) {
		return "", fmt.Errorf("range assigning to existing variables")
	}
	if id, ok := r.Key.(*ast.Ident); ok && id.Name != "_" {
		en.alias[id.Name] = "#k(" + x + ")"
	}
	if id, ok := r.Value.(*ast.Ident); ok && id.Name != "_" {
		en.alias[id.Name] = x + "[*]"
	}
	return "range " + x, nil
}

// cond translates a boolean expression into the Lean Cond IR over canonical terms.
func (en *clEnv) cond(e ast.Expr) (string, error) {
	switch v := e.(type) {
	case *ast.ParenExpr:
		return en.cond(v.X)
	case *ast.UnaryExpr:
		if v.Op == token.NOT {
			c, err := en.cond(v.X)
			return "(.not " + c + ")", err
		}
	case *ast.BinaryExpr:
		switch v.Op {
		case token.LAND, token.LOR:
			a, err := en.cond(v.X)
			if err != nil {
				return "", err
			}
			b, err := en.cond(v.Y)
			if err != nil {
				return "", err
			}
			op := ".and"
			if v.Op == token.LOR {
				op = ".or"
			}
			return fmt.Sprintf("(%s %s %s)", op, a, b), nil
		case token.EQL, token.NEQ, token.LSS, token.LEQ, token.GTR, token.GEQ:
			a, err := en.term(v.X)
			if err != nil {
				return "", err
			}
			b, err := en.term(v.Y)
			if err != nil {
				return "", err
			}
			return fmt.Sprintf("(.cmp %q %q %q)", v.Op.String(), a, b), nil
		}
	case *ast.Ident, *ast.SelectorExpr, *ast.CallExpr, *ast.IndexExpr:
		t, err := en.term(v)
		return fmt.Sprintf("(.atom %q)", t), err
	}
	return "", fmt.Errorf("unsupported condition %s", clRaw(e))
}

// recognizer: does a primitive action start at l[0]? Returns its name and how many statements it spans.
type clRecognizer func(en *clEnv, l []ast.Stmt) (string, int)

// prog translates a statement list (what follows it being nothing: falling off the end) into the Prog IR.
func (en *clEnv) prog(l []ast.Stmt, rec clRecognizer) (string, error) {
	if len(l) == 0 {
		return ".done", nil
	}
	s, rest := l[0], l[1:]
	if rec != nil {
		switch s.(type) {
		case *ast.ReturnStmt, *ast.BranchStmt:
		default:
			if name, n := rec(en.fork(), l); n > 0 {
				k, err := en.prog(l[n:], rec)
				return fmt.Sprintf("(.act %q %s)", name, k), err
			}
		}
	}
	switch v := s.(type) {
	case *ast.ReturnStmt:
		switch len(v.Results) {
		case 0:
			return ".done", nil
		case 1:
			c, err := en.cond(v.Results[0])
			return "(.ret " + c + ")", err
		}
		return "", fmt.Errorf("return with several results")
	case *ast.BranchStmt:
		if v.Tok == token.CONTINUE && v.Label == nil {
			return ".done", nil
		}
		return "", fmt.Errorf("unsupported branch %s", clRaw(s))
	case *ast.BlockStmt:
		return en.prog(append(append([]ast.Stmt{}, v.List...), rest...), rec)
	case *ast.IfStmt:
		e0 := en
		if v.Init != nil {
			as, ok := v.Init.(*ast.AssignStmt)
			if !ok {
				return "", fmt.Errorf("unsupported if-init %s", clRaw(v.Init))
			}
			e0 = en.fork()
			if _, aliased, err := e0.define(as); err != nil || !aliased {
				return "", fmt.Errorf("unsupported if-init %s", clRaw(v.Init))
			}
		}
		c, err := e0.cond(v.Cond)
		if err != nil {
			return "", err
		}
		t, err := e0.fork().prog(append(append([]ast.Stmt{}, v.Body.List...), rest...), rec)
		if err != nil {
			return "", err
		}
		var els []ast.Stmt
		if v.Else != nil {
			els = []ast.Stmt{v.Else}
		}
		e, err := e0.fork().prog(append(els, rest...), rec)
		if err != nil {
			return "", err
		}
		return fmt.Sprintf("(.ite %s %s %s)", c, t, e), nil
	case *ast.SwitchStmt:
		if v.Init != nil {
			return "", fmt.Errorf("unsupported switch %s", clRaw(s))
		}
		tag := ""
		if v.Tag != nil {
			t, err := en.term(v.Tag)
			if err != nil {
				return "", err
			}
			tag = t
		}
		var def []ast.Stmt
		type arm struct {
			cond string
			body []ast.Stmt
		}
		var arms []arm
		for _, c := range v.Body.List {
			cc := c.(*ast.CaseClause)
			for _, b := range cc.Body {
				if br, ok := b.(*ast.BranchStmt); ok && br.Tok == token.FALLTHROUGH {
					return "", fmt.Errorf("fallthrough")
				}
			}
			if cc.List == nil {
				def = cc.Body
				continue
			}
			var cs []string
			for _, x := range cc.List {
				if v.Tag == nil { // `switch { case cond: … }`
					c, err := en.cond(x)
					if err != nil {
						return "", err
					}
					cs = append(cs, c)
					continue
				}
				t, err := en.term(x)
				if err != nil {
					return "", err
				}
				cs = append(cs, fmt.Sprintf("(.cmp \"==\" %q %q)", tag, t))
			}
			cnd := cs[len(cs)-1]
			for i := len(cs) - 2; i >= 0; i-- {
				cnd = fmt.Sprintf("(.or %s %s)", cs[i], cnd)
			}
			arms = append(arms, arm{cnd, cc.Body})
		}
		out, err := en.fork().prog(append(append([]ast.Stmt{}, def...), rest...), rec)
		if err != nil {
			return "", err
		}
		for i := len(arms) - 1; i >= 0; i-- {
			t, err := en.fork().prog(append(append([]ast.Stmt{}, arms[i].body...), rest...), rec)
			if err != nil {
				return "", err
			}
			out = fmt.Sprintf("(.ite %s %s %s)", arms[i].cond, t, out)
		}
		return out, nil
	case *ast.AssignStmt:
		if v.Tok == token.DEFINE {
			if rec != nil {
				if name, n := rec(en.fork(), l); n > 0 {
					k, err := en.prog(l[n:], rec)
					return fmt.Sprintf("(.act %q %s)", name, k), err
				}
			}
			txt, aliased, err := en.define(v)
			if err != nil {
				return "", err
			}
			if aliased {
				return en.prog(rest, rec)
			}
			return fmt.Sprintf("(.unknown %q)", txt), nil
		}
	}
	if rec != nil {
		if name, n := rec(en.fork(), l); n > 0 {
			k, err := en.prog(l[n:], rec)
			return fmt.Sprintf("(.act %q %s)", name, k), err
		}
	}
	txt, err := en.fork().stmt(s)
	if err != nil {
		txt = clRaw(s)
	}
	return fmt.Sprintf("(.unknown %q)", txt), nil
}

func clStrList(l []string) string {
	var q []string
	for _, s := range l {
		q = append(q, fmt.Sprintf("%q", s))
	}
	return "[" + strings.Join(q, ", ") + "]"
}

func clLegend(en *clEnv) string {
	var ks []string
	for k := range en.alias {
		ks = append(ks, k)
	}
	sort.Strings(ks)
	var out []string
	for _, k := range ks {
		out = append(out, k+" = "+en.alias[k])
	}
	return strings.Join(out, "; ")
}

// ---------------------------------------------------------------------------------------------

func genCoalescers(repo string) (string, error) {
	var b strings.Builder
	b.WriteString("-- GENERATED by /verif/extract from /repo/serf/{coalesce_member,coalesce_user,coalesce}.go — do not edit.\n")
	b.WriteString("-- canonical terms: r = receiver, p0… = parameters, v0… = locals; aliases are replaced by what they name.\n")
	b.WriteString("import SerfModel.Model.CoalesceShapes\nnamespace SerfModel.Gen.Coalescers\nopen SerfModel.CoalesceShapes\n\n")

	// ---------------------------------------------------------------- coalesce_member.go
	_, mf, err := parseFile(repo + "/serf/coalesce_member.go")
	if err != nil {
		return "", err
	}
	mh := findFunc(mf, "memberEventCoalescer", "Handle")
	mc := findFunc(mf, "memberEventCoalescer", "Coalesce")
	mfl := findFunc(mf, "memberEventCoalescer", "Flush")
	if mh == nil || mc == nil || mfl == nil {
		return "", fmt.Errorf("memberEventCoalescer: Handle/Coalesce/Flush not found")
	}
	p, err := newClEnv(mh).prog(mh.Body.List, nil)
	if err != nil {
		return "", fmt.Errorf("member Handle: %v", err)
	}
	fmt.Fprintf(&b, "/-- `memberEventCoalescer.Handle` as a program -/\ndef memberHandleProg : Prog := %s\n\n", p)

	// Coalesce: aliases, then exactly one loop; its body as a program with the action "store"
	{
		en := newClEnv(mc)
		var loop *ast.RangeStmt
		for _, s := range mc.Body.List {
			if r, ok := s.(*ast.RangeStmt); ok && loop == nil {
				loop = r
				continue
			}
			if as, ok := s.(*ast.AssignStmt); ok && loop == nil {
				if _, aliased, err := en.define(as); err == nil && aliased {
					continue
				}
			}
			return "", fmt.Errorf("member Coalesce: unexpected statement %s", clRaw(s))
		}
		if loop == nil {
			return "", fmt.Errorf("member Coalesce: no loop")
		}
		hdr, err := en.rangeHeader(loop)
		if err != nil {
			return "", err
		}
		rec := func(e *clEnv, l []ast.Stmt) (string, int) {
			if t, err := e.stmt(l[0]); err == nil &&
				t == "r.latestEvents[p0.(MemberEvent).Members[*].Name] = coalesceEvent{Type: p0.(MemberEvent).Type, Member: &p0.(MemberEvent).Members[*]}" {
				return "store", 1
			}
			return "", 0
		}
		body, err := en.prog(loop.Body.List, rec)
		if err != nil {
			return "", fmt.Errorf("member Coalesce: %v", err)
		}
		fmt.Fprintf(&b, "/-- `Coalesce`: what the loop ranges over, and its body (action \"store\" =\n`r.latestEvents[<member>.Name] = coalesceEvent{Type: <event>.Type, Member: &<member>}`) -/\n")
		fmt.Fprintf(&b, "def memberCoalesceRange : String := %q\ndef memberCoalesceBody : Prog := %s\n\n", hdr, body)
	}

	// Flush: statements around the loop over latestEvents (text), the loop body (program)
	{
		en := newClEnv(mfl)
		var top []string
		var loop *ast.RangeStmt
		var loopEnv *clEnv
		for _, s := range mfl.Body.List {
			if r, ok := s.(*ast.RangeStmt); ok {
				x, err := en.term(r.X)
				if err != nil {
					return "", err
				}
				if x == "r.latestEvents" {
					if loop != nil {
						return "", fmt.Errorf("member Flush: two loops over latestEvents")
					}
					loop = r
					loopEnv = en.fork()
					if _, err := loopEnv.rangeHeader(r); err != nil {
						return "", err
					}
					top = append(top, "range r.latestEvents { BODY }")
					continue
				}
			}
			t, err := en.stmt(s)
			if err != nil {
				return "", fmt.Errorf("member Flush: %v", err)
			}
			top = append(top, t)
		}
		if loop == nil {
			return "", fmt.Errorf("member Flush: no loop over latestEvents")
		}
		rec := func(e *clEnv, l []ast.Stmt) (string, int) {
			if t, err := e.fork().stmt(l[0]); err == nil && t == "r.lastEvents[#k(r.latestEvents)] = r.latestEvents[*].Type" {
				return "recordLast", 1
			}
			// the grouping: look up / create the event of this kind, append the member
			if len(l) >= 3 {
				if as0, ok := l[0].(*ast.AssignStmt); ok && as0.Tok == token.DEFINE && len(as0.Rhs) == 1 {
					e2 := e.fork()
					k, err0 := e2.term(as0.Rhs[0])
					s0, err1 := e2.stmt(l[0])
					s1, err2 := e2.stmt(l[1])
					s2, err3 := e2.stmt(l[2])
					const ty = "r.latestEvents[*].Type"
					if err0 == nil && err1 == nil && err2 == nil && err3 == nil && s0 == "" &&
						strings.HasSuffix(k, "["+ty+"]") && !strings.Contains(strings.TrimSuffix(k, "["+ty+"]"), "[") &&
						s1 == "if !"+k+"#ok { "+k+" = &MemberEvent{Type: "+ty+"}; "+k+" = "+k+" }" &&
						s2 == k+".Members = append("+k+".Members, *r.latestEvents[*].Member)" {
						return "addToEvent", 3
					}
				}
			}
			return "", 0
		}
		body, err := loopEnv.prog(loop.Body.List, rec)
		if err != nil {
			return "", fmt.Errorf("member Flush loop: %v", err)
		}
		fmt.Fprintf(&b, "def memberFlushStmts : List String := %s\n", clStrList(top))
		fmt.Fprintf(&b, "/-- body of the loop over `latestEvents` in `Flush` (actions: \"recordLast\" =\n`r.lastEvents[<name>] = <pending>.Type`; \"addToEvent\" = find or create the MemberEvent of that kind and append the member) -/\n")
		fmt.Fprintf(&b, "def memberFlushBody : Prog := %s\n\n", body)
	}

	// ---------------------------------------------------------------- coalesce_user.go
	_, uf, err := parseFile(repo + "/serf/coalesce_user.go")
	if err != nil {
		return "", err
	}
	uh := findFunc(uf, "userEventCoalescer", "Handle")
	uc := findFunc(uf, "userEventCoalescer", "Coalesce")
	ufl := findFunc(uf, "userEventCoalescer", "Flush")
	if uh == nil || uc == nil || ufl == nil {
		return "", fmt.Errorf("userEventCoalescer: Handle/Coalesce/Flush not found")
	}
	p, err = newClEnv(uh).prog(uh.Body.List, nil)
	if err != nil {
		return "", fmt.Errorf("user Handle: %v", err)
	}
	fmt.Fprintf(&b, "/-- `userEventCoalescer.Handle` as a program -/\ndef userHandleProg : Prog := %s\n\n", p)
	{
		const key = "r.events[p0.(UserEvent).Name]"
		const fresh = "&latestUserEvents{LTime: p0.(UserEvent).LTime, Events: []Event{p0}}"
		rec := func(e *clEnv, l []ast.Stmt) (string, int) {
			as, ok := l[0].(*ast.AssignStmt)
			if !ok || len(as.Lhs) != 1 || len(as.Rhs) != 1 {
				return "", 0
			}
			rhs, err := e.term(as.Rhs[0])
			if err != nil {
				return "", 0
			}
			// one statement: r.events[name] = &latestUserEvents{…}
			if as.Tok == token.ASSIGN {
				if _, isIdx := as.Lhs[0].(*ast.IndexExpr); isIdx {
					if lhs, err := e.term(as.Lhs[0]); err == nil && lhs == key && rhs == fresh {
						return "fresh", 1
					}
				}
			}
			// two statements: x = &latestUserEvents{…} (or x := …); r.events[name] = x
			if id, isId := as.Lhs[0].(*ast.Ident); isId && rhs == fresh && len(l) >= 2 {
				if s2, ok := l[1].(*ast.AssignStmt); ok && s2.Tok == token.ASSIGN && len(s2.Lhs) == 1 && len(s2.Rhs) == 1 {
					if _, isIdx := s2.Lhs[0].(*ast.IndexExpr); isIdx {
						lhs2, e1 := e.term(s2.Lhs[0])
						if r2, isId2 := s2.Rhs[0].(*ast.Ident); isId2 && e1 == nil && lhs2 == key && r2.Name == id.Name {
							return "fresh", 2
						}
					}
				}
			}
			// append: <entry>.Events = append(<entry>.Events, p0)
			if as.Tok == token.ASSIGN {
				if lhs, err := e.term(as.Lhs[0]); err == nil && lhs == key+".Events" && rhs == "append("+key+".Events, p0)" {
					return "append", 1
				}
			}
			return "", 0
		}
		p, err := newClEnv(uc).prog(uc.Body.List, rec)
		if err != nil {
			return "", fmt.Errorf("user Coalesce: %v", err)
		}
		fmt.Fprintf(&b, "/-- `userEventCoalescer.Coalesce` as a program (actions: \"fresh\" = store a new entry\n`&latestUserEvents{LTime: <event>.LTime, Events: []Event{<event>}}` under the event's name;\n\"append\" = append the event to the entry's Events) -/\ndef userCoalesceProg : Prog := %s\n\n", p)
	}
	{
		en := newClEnv(ufl)
		ss, err := en.stmts(ufl.Body.List)
		if err != nil {
			return "", fmt.Errorf("user Flush: %v", err)
		}
		fmt.Fprintf(&b, "def userFlushStmts : List String := %s\n\n", clStrList(ss))
	}

	// ---------------------------------------------------------------- coalesce.go
	_, lf, err := parseFile(repo + "/serf/coalesce.go")
	if err != nil {
		return "", err
	}
	loop := findFunc(lf, "", "coalesceLoop")
	if loop == nil {
		return "", fmt.Errorf("coalesceLoop not found")
	}
	en := newClEnv(loop)
	var pre, ingest, flush []string
	var sel *ast.SelectStmt
	mode := "pre"
	for _, s := range loop.Body.List {
		if ls, ok := s.(*ast.LabeledStmt); ok {
			switch ls.Label.Name {
			case "INGEST":
				mode = "ingest"
			case "FLUSH":
				mode = "flush"
			default:
				return "", fmt.Errorf("coalesceLoop: unknown label %s", ls.Label.Name)
			}
			s = ls.Stmt
		}
		if fs, ok := s.(*ast.ForStmt); ok && mode == "ingest" {
			if fs.Init != nil || fs.Cond != nil || fs.Post != nil || len(fs.Body.List) != 1 {
				return "", fmt.Errorf("coalesceLoop: ingest loop shape")
			}
			ss, ok := fs.Body.List[0].(*ast.SelectStmt)
			if !ok || sel != nil {
				return "", fmt.Errorf("coalesceLoop: expected one select in the ingest loop")
			}
			sel = ss
			ingest = append(ingest, "for { select }")
			continue
		}
		t, err := en.stmt(s)
		if err != nil {
			return "", fmt.Errorf("coalesceLoop: %v", err)
		}
		switch mode {
		case "pre":
			pre = append(pre, t)
		case "ingest":
			ingest = append(ingest, t)
		case "flush":
			flush = append(flush, t)
		}
	}
	if sel == nil {
		return "", fmt.Errorf("coalesceLoop: select not found")
	}
	var cases []string
	evProg := ""
	for _, c := range sel.Body.List {
		cc := c.(*ast.CommClause)
		ce := en.fork()
		comm := "default"
		if cc.Comm != nil {
			comm, err = ce.stmt(cc.Comm)
			if err != nil {
				return "", fmt.Errorf("coalesceLoop: %v", err)
			}
		}
		if comm == "v3 := <-p0" {
			// the event case is logic: translate it (actions are its four primitive statements)
			rec := func(e *clEnv, l []ast.Stmt) (string, int) {
				t, err := e.stmt(l[0])
				if err != nil {
					return "", 0
				}
				switch t {
				case "p1 <- v3":
					return "forward", 1
				case "if v1 == nil { v1 = time.After(p3) }":
					return "armQuantumIfIdle", 1
				case "v0 = time.After(p4)":
					return "rearmQuiescent", 1
				case "p5.Coalesce(v3)":
					return "coalesce", 1
				}
				return "", 0
			}
			evProg, err = ce.fork().prog(cc.Body, rec)
			if err != nil {
				return "", fmt.Errorf("coalesceLoop event case: %v", err)
			}
			cases = append(cases, fmt.Sprintf("  (%q, [\"EVENT\"])", comm))
			continue
		}
		ss, err := ce.stmts(cc.Body)
		if err != nil {
			return "", fmt.Errorf("coalesceLoop: %v", err)
		}
		cases = append(cases, fmt.Sprintf("  (%q, %s)", comm, clStrList(ss)))
	}
	fmt.Fprintf(&b, "-- coalesceLoop: %s\n", clLegend(en))
	if evProg == "" {
		return "", fmt.Errorf("coalesceLoop: no case receiving from the input channel")
	}
	fmt.Fprintf(&b, "/-- the case `e := <-inCh` of the select as a program (actions: \"forward\" = `outCh <- e`;\n\"armQuantumIfIdle\" = `if quantum == nil { quantum = time.After(coalescePeriod) }`; \"rearmQuiescent\" =\n`quiescent = time.After(quiescentPeriod)`; \"coalesce\" = `c.Coalesce(e)`) -/\ndef loopEventProg : Prog := %s\n", evProg)
	fmt.Fprintf(&b, "def loopPrologue : List String := %s\n", clStrList(pre))
	fmt.Fprintf(&b, "def loopIngest : List String := %s\n", clStrList(ingest))
	fmt.Fprintf(&b, "def loopFlush : List String := %s\n", clStrList(flush))
	b.WriteString("/-- the cases of the select: (communication, statements) -/\ndef loopCases : List (String × List String) := [\n")
	b.WriteString(strings.Join(cases, ",\n"))
	b.WriteString("\n]\n\nend SerfModel.Gen.Coalescers\n")
	return b.String(), nil
}

func init() { addGen("Coalescers", genCoalescers) }
