package main

import (
	"fmt"
	"go/ast"
	"go/token"
	"strconv"
	"strings"
)

// Gen/RelayFilter.lean:
//  * the relay candidate filter — the func literal relayResponse hands to kRandomMembers — as a table
//    of atoms (a member is REJECTED when any atom holds), boolean locals of the closure inlined;
//  * the MemberStatus constants (iota block of serf.go) the atoms refer to;
//  * the shape of kRandomMembers' probe loop: probe budget factor, stop condition, filter before the
//    duplicate test, duplicate test on Name.
// Unsupported shapes are an error.

type rfAtom struct{ lean string }

func rfStatusConsts(repo string) (map[string]int, error) {
	_, f, err := parseFile(repo + "/serf/serf.go")
	if err != nil {
		return nil, err
	}
	for _, d := range f.Decls {
		gd, ok := d.(*ast.GenDecl)
		if !ok || gd.Tok != token.CONST {
			continue
		}
		out := map[string]int{}
		isBlock := false
		for i, sp := range gd.Specs {
			vs := sp.(*ast.ValueSpec)
			if i == 0 {
				id, ok := vs.Type.(*ast.Ident)
				if !ok || id.Name != "MemberStatus" || len(vs.Values) != 1 || exprString(vs.Values[0]) != "iota" {
					break
				}
				isBlock = true
			} else if vs.Type != nil || len(vs.Values) != 0 {
				return nil, fmt.Errorf("MemberStatus const block is not a plain iota block")
			}
			if len(vs.Names) != 1 {
				return nil, fmt.Errorf("MemberStatus const block is not a plain iota block")
			}
			out[vs.Names[0].Name] = i
		}
		if isBlock {
			return out, nil
		}
	}
	return nil, fmt.Errorf("MemberStatus const block not found")
}

// rfBool translates a boolean expression over the closure parameter m into a disjunction of atoms.
func rfBool(e ast.Expr, m, local string, locals map[string][]rfAtom, st map[string]int) ([]rfAtom, error) {
	switch x := e.(type) {
	case *ast.ParenExpr:
		return rfBool(x.X, m, local, locals, st)
	case *ast.Ident:
		if a, ok := locals[x.Name]; ok {
			return a, nil
		}
		return nil, fmt.Errorf("relay filter: unknown boolean %s", x.Name)
	case *ast.BinaryExpr:
		if x.Op == token.LOR {
			a, err := rfBool(x.X, m, local, locals, st)
			if err != nil {
				return nil, err
			}
			b, err := rfBool(x.Y, m, local, locals, st)
			if err != nil {
				return nil, err
			}
			return append(append([]rfAtom{}, a...), b...), nil
		}
		l, r := exprString(x.X), exprString(x.Y)
		switch {
		case l == m+".Status" && (x.Op == token.NEQ || x.Op == token.EQL):
			v, ok := st[r]
			if !ok {
				return nil, fmt.Errorf("relay filter: unknown status constant %s", r)
			}
			if x.Op == token.NEQ {
				return []rfAtom{{fmt.Sprintf(".statusNe %d", v)}}, nil
			}
			return []rfAtom{{fmt.Sprintf(".statusEq %d", v)}}, nil
		case l == m+".ProtocolMax" && x.Op == token.LSS:
			n, err := strconv.Atoi(r)
			if err != nil {
				return nil, fmt.Errorf("relay filter: protocol bound %s is not a literal", r)
			}
			return []rfAtom{{fmt.Sprintf(".protoMaxLt %d", n)}}, nil
		case l == m+".ProtocolMax" && x.Op == token.LEQ:
			n, err := strconv.Atoi(r)
			if err != nil {
				return nil, fmt.Errorf("relay filter: protocol bound %s is not a literal", r)
			}
			return []rfAtom{{fmt.Sprintf(".protoMaxLt %d", n+1)}}, nil
		case l == m+".Name" && r == local && x.Op == token.EQL:
			return []rfAtom{{".nameIsSelf"}}, nil
		}
	}
	return nil, fmt.Errorf("relay filter: unsupported condition %s", exprString(e))
}

func genRelayFilter(repo string) (string, error) {
	st, err := rfStatusConsts(repo)
	if err != nil {
		return "", err
	}
	_, f, err := parseFile(repo + "/serf/query.go")
	if err != nil {
		return "", err
	}
	fd := findFunc(f, "Serf", "relayResponse")
	if fd == nil {
		return "", fmt.Errorf("(Serf).relayResponse not found")
	}
	// localName := s.LocalMember().Name ; … kRandomMembers(int(relayFactor), members, func(m Member) bool {…})
	local := ""
	var lit *ast.FuncLit
	var kArg string
	ast.Inspect(fd.Body, func(n ast.Node) bool {
		switch x := n.(type) {
		case *ast.AssignStmt:
			if len(x.Lhs) == 1 && len(x.Rhs) == 1 && exprString(x.Rhs[0]) == "s.LocalMember().Name" {
				local = exprString(x.Lhs[0])
			}
		case *ast.CallExpr:
			if id, ok := x.Fun.(*ast.Ident); ok && id.Name == "kRandomMembers" && len(x.Args) == 3 {
				if fl, ok := x.Args[2].(*ast.FuncLit); ok {
					lit = fl
					kArg = exprString(x.Args[0])
					if exprString(x.Args[1]) != "members" {
						lit = nil
					}
				}
			}
		}
		return true
	})
	if lit == nil || local == "" {
		return "", fmt.Errorf("relayResponse: kRandomMembers(…, members, func literal) / localName := s.LocalMember().Name not found")
	}
	if kArg != "int(relayFactor)" {
		return "", fmt.Errorf("relayResponse: kRandomMembers is asked for %s members, not int(relayFactor)", kArg)
	}
	if len(lit.Type.Params.List) != 1 || len(lit.Type.Params.List[0].Names) != 1 {
		return "", fmt.Errorf("relay filter: unexpected parameters")
	}
	m := lit.Type.Params.List[0].Names[0].Name
	locals := map[string][]rfAtom{}
	var atoms []rfAtom
	for i, s := range lit.Body.List {
		switch x := s.(type) {
		case *ast.AssignStmt:
			if x.Tok != token.DEFINE || len(x.Lhs) != 1 || len(x.Rhs) != 1 {
				return "", fmt.Errorf("relay filter: unsupported statement %s", exprString(s))
			}
			a, err := rfBool(x.Rhs[0], m, local, locals, st)
			if err != nil {
				return "", err
			}
			locals[exprString(x.Lhs[0])] = a
		case *ast.ReturnStmt:
			if i != len(lit.Body.List)-1 || len(x.Results) != 1 {
				return "", fmt.Errorf("relay filter: unsupported return")
			}
			atoms, err = rfBool(x.Results[0], m, local, locals, st)
			if err != nil {
				return "", err
			}
		default:
			return "", fmt.Errorf("relay filter: unsupported statement %s", exprString(s))
		}
	}
	if atoms == nil {
		return "", fmt.Errorf("relay filter: no return")
	}

	// kRandomMembers' loop
	kf := findFunc(f, "", "kRandomMembers")
	if kf == nil {
		return "", fmt.Errorf("kRandomMembers not found")
	}
	var loop *ast.ForStmt
	nIsLen := false
	for _, s := range kf.Body.List {
		if a, ok := s.(*ast.AssignStmt); ok && len(a.Lhs) == 1 && exprString(a.Lhs[0]) == "n" && exprString(a.Rhs[0]) == "len(members)" {
			nIsLen = true
		}
		if l, ok := s.(*ast.LabeledStmt); ok {
			s = l.Stmt
		}
		if fs, ok := s.(*ast.ForStmt); ok {
			loop = fs
		}
	}
	if loop == nil || !nIsLen {
		return "", fmt.Errorf("kRandomMembers: n := len(members) / probe loop not found")
	}
	cond, ok := loop.Cond.(*ast.BinaryExpr)
	if !ok || cond.Op != token.LAND || exprString(loop.Init) != "i := 0" || exprString(loop.Post) != "i++" {
		return "", fmt.Errorf("kRandomMembers: unsupported loop header")
	}
	budget, ok := cond.X.(*ast.BinaryExpr)
	if !ok || budget.Op != token.LSS || exprString(budget.X) != "i" {
		return "", fmt.Errorf("kRandomMembers: unsupported probe budget %s", exprString(cond.X))
	}
	factor := 0
	if mul, ok := budget.Y.(*ast.BinaryExpr); ok && mul.Op == token.MUL && exprString(mul.Y) == "n" {
		factor, _ = strconv.Atoi(exprString(mul.X))
	} else if exprString(budget.Y) == "n" {
		factor = 1
	}
	if factor == 0 {
		return "", fmt.Errorf("kRandomMembers: unsupported probe budget %s", exprString(budget.Y))
	}
	stop := strings.Join(strings.Fields(exprString(cond.Y)), " ")
	// order inside the loop: pick, filter, duplicate test, append
	var order []string
	dupField := ""
	for _, s := range loop.Body.List {
		txt := strings.Join(strings.Fields(exprString(s)), " ")
		switch x := s.(type) {
		case *ast.AssignStmt:
			switch {
			case txt == "idx := rand.Intn(n)":
				order = append(order, "pick")
			case txt == "member := members[idx]":
				order = append(order, "read")
			case txt == "kMembers = append(kMembers, member)":
				order = append(order, "append")
			default:
				return "", fmt.Errorf("kRandomMembers: unsupported statement %s", txt)
			}
		case *ast.IfStmt:
			if strings.Join(strings.Fields(exprString(x.Cond)), " ") == "filterFunc != nil && filterFunc(member)" && strings.Contains(txt, "continue OUTER") {
				order = append(order, "filter")
			} else {
				return "", fmt.Errorf("kRandomMembers: unsupported test %s", txt)
			}
		case *ast.ForStmt:
			if exprString(x.Init) != "j := 0" || strings.Join(strings.Fields(exprString(x.Cond)), " ") != "j < len(kMembers)" || exprString(x.Post) != "j++" || len(x.Body.List) != 1 {
				return "", fmt.Errorf("kRandomMembers: unsupported duplicate loop header")
			}
			is, ok := x.Body.List[0].(*ast.IfStmt)
			if !ok {
				return "", fmt.Errorf("kRandomMembers: unsupported duplicate loop body")
			}
			c := strings.Join(strings.Fields(exprString(is.Cond)), " ")
			if !strings.HasPrefix(c, "member.") || !strings.Contains(c, " == kMembers[j].") || !strings.Contains(exprString(is.Body), "continue OUTER") {
				return "", fmt.Errorf("kRandomMembers: unsupported duplicate test %s", c)
			}
			dupField = strings.TrimPrefix(strings.Split(c, " ")[0], "member.")
			if !strings.HasSuffix(c, "kMembers[j]."+dupField) {
				return "", fmt.Errorf("kRandomMembers: duplicate test compares different fields: %s", c)
			}
			order = append(order, "dedup")
		default:
			return "", fmt.Errorf("kRandomMembers: unsupported statement %s", txt)
		}
	}

	var b strings.Builder
	b.WriteString("-- GENERATED by /verif/extract from serf/query.go (relayResponse filter, kRandomMembers) and serf/serf.go (MemberStatus) — do not edit.\n")
	b.WriteString("import SerfModel.Model.Relay\nnamespace SerfModel.Gen.RelayFilter\nopen SerfModel.Relay\n\n")
	names := []string{"StatusNone", "StatusAlive", "StatusLeaving", "StatusLeft", "StatusFailed"}
	b.WriteString("/-- MemberStatus constants (iota block of serf/serf.go) -/\ndef statusConsts : List (String × Nat) := [")
	for i, n := range names {
		v, ok := st[n]
		if !ok {
			return "", fmt.Errorf("MemberStatus constant %s missing", n)
		}
		if i > 0 {
			b.WriteString(", ")
		}
		fmt.Fprintf(&b, "(%q, %d)", n, v)
	}
	b.WriteString("]\n\n/-- the relay candidate filter of relayResponse: a member is rejected when ANY atom holds -/\ndef rejectAtoms : List FilterAtom := [")
	for i, a := range atoms {
		if i > 0 {
			b.WriteString(", ")
		}
		b.WriteString(a.lean)
	}
	b.WriteString("]\n\n")
	fmt.Fprintf(&b, "/-- kRandomMembers: `for i := 0; i < %d*n && %s; i++`, statements of the body in order -/\n", factor, stop)
	fmt.Fprintf(&b, "def selectShape : SelectShape := { probeFactor := %d, stopCond := %q, order := [", factor, stop)
	for i, o := range order {
		if i > 0 {
			b.WriteString(", ")
		}
		fmt.Fprintf(&b, "%q", o)
	}
	fmt.Fprintf(&b, "], dedupField := %q }\n\nend SerfModel.Gen.RelayFilter\n", dupField)
	return b.String(), nil
}

func init() { addGen("RelayFilter", genRelayFilter) }
