package main

import (
	"fmt"
	"go/ast"
	"go/token"
	"path/filepath"
	"regexp"
	"strings"
)

// CoordGuards: the decisive guards and statement orders of the coordinate client as data
// (SerfModel/Model/CoordGuards.lean): componentIsValid, IsValid, checkCoordinate, Client.Update,
// pingDelegate.NotifyPingComplete.  Unknown shapes are errors.

func cgText(n ast.Node) string { return strings.Join(strings.Fields(exprString(n)), " ") }

// cgStmtText prints a statement without comments (the node is printed alone, so only comments attached to
// declarations inside it could appear; those are removed line-wise)
func cgStmtText(n ast.Node) string {
	var lines []string
	for _, l := range strings.Split(exprString(n), "\n") {
		if i := strings.Index(l, "//"); i >= 0 {
			l = l[:i]
		}
		lines = append(lines, l)
	}
	return strings.Join(strings.Fields(strings.Join(lines, " ")), " ")
}

// componentIsValid body: a single return of a Boolean expression over the parameter
func cgCompExpr(e ast.Expr, f string) (string, error) {
	switch x := e.(type) {
	case *ast.ParenExpr:
		return cgCompExpr(x.X, f)
	case *ast.UnaryExpr:
		if x.Op != token.NOT {
			return "", fmt.Errorf("componentIsValid: operator %s", x.Op)
		}
		in, err := cgCompExpr(x.X, f)
		if err != nil {
			return "", err
		}
		return "(CompExpr.not " + in + ")", nil
	case *ast.BinaryExpr:
		op := ""
		switch x.Op {
		case token.LAND:
			op = "and"
		case token.LOR:
			op = "or"
		default:
			return "", fmt.Errorf("componentIsValid: operator %s (only !, &&, ||, math.IsInf, math.IsNaN are understood)", x.Op)
		}
		l, err := cgCompExpr(x.X, f)
		if err != nil {
			return "", err
		}
		r, err := cgCompExpr(x.Y, f)
		if err != nil {
			return "", err
		}
		return fmt.Sprintf("(CompExpr.%s %s %s)", op, l, r), nil
	case *ast.CallExpr:
		t := cgText(x)
		if t == "math.IsNaN("+f+")" {
			return "CompExpr.isNaN", nil
		}
		if m := regexp.MustCompile(`^math\.IsInf\(` + regexp.QuoteMeta(f) + `, (-?\d+)\)$`).FindStringSubmatch(t); m != nil {
			s := m[1]
			if strings.HasPrefix(s, "-") {
				s = "(" + s + ")"
			}
			return "(CompExpr.isInf " + s + ")", nil
		}
		return "", fmt.Errorf("componentIsValid: call %s", t)
	}
	return "", fmt.Errorf("componentIsValid: expression %T", e)
}

func cgSingleReturn(fd *ast.FuncDecl, what string) (ast.Expr, error) {
	if fd == nil {
		return nil, fmt.Errorf("%s not found", what)
	}
	if len(fd.Body.List) != 1 {
		return nil, fmt.Errorf("%s: expected a single return", what)
	}
	r, ok := fd.Body.List[0].(*ast.ReturnStmt)
	if !ok || len(r.Results) != 1 {
		return nil, fmt.Errorf("%s: expected a single return", what)
	}
	return r.Results[0], nil
}

func cgIsValid(f *ast.File) (string, error) {
	fd := findFunc(f, "Coordinate", "IsValid")
	if fd == nil {
		return "", fmt.Errorf("IsValid not found")
	}
	recv := fd.Recv.List[0].Names[0].Name
	body := fd.Body.List
	vecLoop := false
	if len(body) == 2 {
		want := "for i := range " + recv + ".Vec { if !componentIsValid(" + recv + ".Vec[i]) { return false } }"
		if cgText(body[0]) != want {
			return "", fmt.Errorf("IsValid: loop is not `%s`", want)
		}
		vecLoop = true
		body = body[1:]
	}
	if len(body) != 1 {
		return "", fmt.Errorf("IsValid: unexpected statements")
	}
	ret, ok := body[0].(*ast.ReturnStmt)
	if !ok || len(ret.Results) != 1 {
		return "", fmt.Errorf("IsValid: expected a return")
	}
	var fields []string
	var walk func(e ast.Expr) error
	walk = func(e ast.Expr) error {
		if b, ok := e.(*ast.BinaryExpr); ok && b.Op == token.LAND {
			if err := walk(b.X); err != nil {
				return err
			}
			return walk(b.Y)
		}
		m := regexp.MustCompile(`^componentIsValid\(` + recv + `\.(Error|Adjustment|Height)\)$`).FindStringSubmatch(cgText(e))
		if m == nil {
			return fmt.Errorf("IsValid: conjunct %s", cgText(e))
		}
		fields = append(fields, "CoordField."+strings.ToLower(m[1]))
		return nil
	}
	if err := walk(ret.Results[0]); err != nil {
		return "", err
	}
	return fmt.Sprintf("{ vecLoop := %v, fields := [%s] }", vecLoop, strings.Join(fields, ", ")), nil
}

func cgCheckCoordinate(f *ast.File) (string, error) {
	fd := findFunc(f, "Client", "checkCoordinate")
	if fd == nil {
		return "", fmt.Errorf("checkCoordinate not found")
	}
	recv := fd.Recv.List[0].Names[0].Name
	p := fd.Type.Params.List[0].Names[0].Name
	var steps []string
	for i, st := range fd.Body.List {
		t := cgText(st)
		switch {
		case strings.HasPrefix(t, "if !"+recv+".coord.IsCompatibleWith("+p+") { return fmt.Errorf("):
			steps = append(steps, "CheckStep.compatible")
		case strings.HasPrefix(t, "if !"+p+".IsValid() { return fmt.Errorf("):
			steps = append(steps, "CheckStep.valid")
		case t == "return nil" && i == len(fd.Body.List)-1:
		default:
			return "", fmt.Errorf("checkCoordinate: statement %q", t)
		}
	}
	return "[" + strings.Join(steps, ", ") + "]", nil
}

func cgUpdate(f *ast.File) (steps string, guard string, err error) {
	fd := findFunc(f, "Client", "Update")
	if fd == nil {
		return "", "", fmt.Errorf("Update not found")
	}
	recv := fd.Recv.List[0].Names[0].Name
	var out []string
	maxRTT := ""
	for _, st := range fd.Body.List {
		t := cgText(st)
		switch {
		case t == recv+".mutex.Lock()":
			out = append(out, "lock")
		case t == "defer "+recv+".mutex.Unlock()":
			out = append(out, "deferUnlock")
		case t == "if err := "+recv+".checkCoordinate(other); err != nil { return nil, err }":
			out = append(out, "checkCoordinateOrReturn")
		case strings.HasPrefix(t, "const maxRTT = "):
			ds, ok := st.(*ast.DeclStmt)
			if !ok {
				return "", "", fmt.Errorf("Update: maxRTT declaration")
			}
			gd, ok := ds.Decl.(*ast.GenDecl)
			if !ok || len(gd.Specs) != 1 {
				return "", "", fmt.Errorf("Update: maxRTT declaration")
			}
			vs, ok := gd.Specs[0].(*ast.ValueSpec)
			if !ok || len(vs.Values) != 1 {
				return "", "", fmt.Errorf("Update: maxRTT declaration")
			}
			maxRTT = cgText(vs.Values[0])
		case strings.HasPrefix(t, "if rtt "):
			is, ok := st.(*ast.IfStmt)
			if !ok || is.Init != nil || is.Else != nil {
				return "", "", fmt.Errorf("Update: rtt guard shape")
			}
			if cgText(is.Cond) == "rtt == 0" {
				if !strings.Contains(t, "metrics.") || strings.Contains(t, "return") {
					return "", "", fmt.Errorf("Update: zero-rtt branch is not the metric")
				}
				out = append(out, "zeroRttMetric")
				continue
			}
			or, ok := is.Cond.(*ast.BinaryExpr)
			if !ok || or.Op != token.LOR {
				return "", "", fmt.Errorf("Update: rtt guard is not a disjunction")
			}
			lo, ok1 := or.X.(*ast.BinaryExpr)
			hi, ok2 := or.Y.(*ast.BinaryExpr)
			if !ok1 || !ok2 || cgText(lo.X) != "rtt" || cgText(hi.X) != "rtt" || cgText(lo.Y) != "0" || cgText(hi.Y) != "maxRTT" {
				return "", "", fmt.Errorf("Update: rtt guard operands")
			}
			var loStrict, hiStrict bool
			switch lo.Op {
			case token.LSS:
				loStrict = true
			case token.LEQ:
			default:
				return "", "", fmt.Errorf("Update: rtt lower comparison %s", lo.Op)
			}
			switch hi.Op {
			case token.GTR:
				hiStrict = true
			case token.GEQ:
			default:
				return "", "", fmt.Errorf("Update: rtt upper comparison %s", hi.Op)
			}
			if len(is.Body.List) != 1 || !strings.HasPrefix(cgText(is.Body.List[0]), "return nil, fmt.Errorf(") {
				return "", "", fmt.Errorf("Update: rtt guard does not return an error")
			}
			m := regexp.MustCompile(`^(\d+) \* time\.(Second|Millisecond)$`).FindStringSubmatch(maxRTT)
			if m == nil {
				return "", "", fmt.Errorf("Update: maxRTT = %q", maxRTT)
			}
			unit := "000000000"
			if m[2] == "Millisecond" {
				unit = "000000"
			}
			guard = fmt.Sprintf("{ lo := 0, loStrict := %v, hi := %s%s, hiStrict := %v }", loStrict, m[1], unit, hiStrict)
			out = append(out, "rttRangeOrReturn")
		case t == "rttSeconds := "+recv+".latencyFilter(node, rtt.Seconds())":
			out = append(out, "latencyFilter")
		case t == recv+".updateVivaldi(other, rttSeconds)":
			out = append(out, "updateVivaldi")
		case t == recv+".updateAdjustment(other, rttSeconds)":
			out = append(out, "updateAdjustment")
		case t == recv+".updateGravity()":
			out = append(out, "updateGravity")
		case t == "if !"+recv+".coord.IsValid() { "+recv+".stats.Resets++ "+recv+".coord = NewCoordinate("+recv+".config) }":
			out = append(out, "resetIfInvalid")
		case t == "return "+recv+".coord.Clone(), nil":
			out = append(out, "returnClone")
		default:
			return "", "", fmt.Errorf("Update: statement %q", t)
		}
	}
	if guard == "" {
		return "", "", fmt.Errorf("Update: no rtt guard")
	}
	for i := range out {
		out[i] = "UpdateStep." + out[i]
	}
	return "[" + strings.Join(out, ", ") + "]", guard, nil
}

func cgPing(repo string) (string, error) {
	_, f, err := parseFile(filepath.Join(repo, "serf", "ping_delegate.go"))
	if err != nil {
		return "", err
	}
	fd := findFunc(f, "pingDelegate", "NotifyPingComplete")
	if fd == nil {
		return "", fmt.Errorf("NotifyPingComplete not found")
	}
	var out []string
	for _, st := range fd.Body.List {
		t := cgText(st)
		isReturnIf := func() bool {
			is, ok := st.(*ast.IfStmt)
			if !ok || is.Else != nil || len(is.Body.List) == 0 {
				return false
			}
			_, ok = is.Body.List[len(is.Body.List)-1].(*ast.ReturnStmt)
			return ok
		}
		switch {
		case t == "if len(payload) == 0 { return }":
			out = append(out, "emptyReturn")
		case t == "version := payload[0]":
		case strings.HasPrefix(t, "if version != PingVersion {") && isReturnIf():
			out = append(out, "versionReturn")
		case t == "r := bytes.NewReader(payload[1:])", t == "dec := codec.NewDecoder(r, &codec.MsgpackHandle{})", t == "var coord coordinate.Coordinate":
		case strings.HasPrefix(t, "if err := dec.Decode(&coord); err != nil {") && isReturnIf():
			out = append(out, "decodeReturn")
		case t == "before := p.serf.coordClient.GetCoordinate()":
			out = append(out, "before")
		case t == "after, err := p.serf.coordClient.Update(other.Name, &coord, rtt)":
			out = append(out, "update")
		case strings.HasPrefix(t, "if err != nil {") && isReturnIf():
			out = append(out, "rejectedReturn")
		case strings.HasPrefix(t, "d := float32(before.DistanceTo(after)"):
		case strings.HasPrefix(t, "metrics.AddSampleWithLabels("):
			out = append(out, "metric")
		case t == "p.serf.coordCacheLock.Lock()":
			out = append(out, "cacheLock")
		case t == "p.serf.coordCache[other.Name] = &coord":
			out = append(out, "cachePeer")
		case t == "p.serf.coordCache[p.serf.config.NodeName] = p.serf.coordClient.GetCoordinate()":
			out = append(out, "cacheSelf")
		case t == "p.serf.coordCacheLock.Unlock()":
			out = append(out, "cacheUnlock")
		default:
			return "", fmt.Errorf("NotifyPingComplete: statement %q", t)
		}
	}
	for i := range out {
		out[i] = "PingStep." + out[i]
	}
	return "[" + strings.Join(out, ", ") + "]", nil
}

func init() {
	addGen("CoordGuards", func(repo string) (string, error) {
		_, cf, err := parseFile(filepath.Join(repo, "coordinate", "coordinate.go"))
		if err != nil {
			return "", err
		}
		_, cl, err := parseFile(filepath.Join(repo, "coordinate", "client.go"))
		if err != nil {
			return "", err
		}
		civ := findFunc(cf, "", "componentIsValid")
		ret, err := cgSingleReturn(civ, "componentIsValid")
		if err != nil {
			return "", err
		}
		comp, err := cgCompExpr(ret, civ.Type.Params.List[0].Names[0].Name)
		if err != nil {
			return "", err
		}
		valid, err := cgIsValid(cf)
		if err != nil {
			return "", err
		}
		check, err := cgCheckCoordinate(cl)
		if err != nil {
			return "", err
		}
		steps, guard, err := cgUpdate(cl)
		if err != nil {
			return "", err
		}
		ping, err := cgPing(repo)
		if err != nil {
			return "", err
		}
		// the arithmetic bodies the model transcribes by hand, pinned statement by statement (comments and layout
		// do not matter, any change of an expression does)
		type pin struct {
			file *ast.File
			recv string
			name string
		}
		var pinned []string
		for _, pn := range []pin{{cl, "Client", "latencyFilter"}, {cl, "Client", "updateVivaldi"}, {cl, "Client", "updateAdjustment"},
			{cl, "Client", "updateGravity"}, {cf, "Coordinate", "ApplyForce"}, {cf, "", "unitVectorAt"}, {cf, "", "NewCoordinate"}} {
			fd := findFunc(pn.file, pn.recv, pn.name)
			if fd == nil {
				return "", fmt.Errorf("%s not found", pn.name)
			}
			var sts []string
			for _, st := range fd.Body.List {
				sts = append(sts, fmt.Sprintf("%q", cgStmtText(st)))
			}
			pinned = append(pinned, fmt.Sprintf("  (%q, [\n    %s])", pn.name, strings.Join(sts, ",\n    ")))
		}
		var sb strings.Builder
		sb.WriteString("-- GENERATED by /verif/extract (coordguards.go) from coordinate/coordinate.go, coordinate/client.go and\n")
		sb.WriteString("-- serf/ping_delegate.go — do not edit.\n")
		sb.WriteString("import SerfModel.Model.CoordGuards\nnamespace SerfModel.Gen.CoordGuards\nopen SerfModel.Coord\n\n")
		fmt.Fprintf(&sb, "/-- componentIsValid (coordinate.go) -/\ndef componentIsValid : CompExpr := %s\n\n", comp)
		fmt.Fprintf(&sb, "/-- Coordinate.IsValid (coordinate.go) -/\ndef isValid : ValidShape := %s\n\n", valid)
		fmt.Fprintf(&sb, "/-- Client.checkCoordinate (client.go) -/\ndef checkCoordinate : List CheckStep := %s\n\n", check)
		fmt.Fprintf(&sb, "/-- the round-trip-time guard of Client.Update (client.go), in nanoseconds -/\ndef rttGuard : RttGuard := %s\n\n", guard)
		fmt.Fprintf(&sb, "/-- Client.Update (client.go), statements in source order -/\ndef update : List UpdateStep := %s\n\n", steps)
		fmt.Fprintf(&sb, "/-- pingDelegate.NotifyPingComplete (serf/ping_delegate.go), statements in source order -/\ndef notifyPingComplete : List PingStep := %s\n\n", ping)
		fmt.Fprintf(&sb, "/-- the statements (comments stripped, whitespace normalised) of the arithmetic functions the model transcribes -/\ndef pinned : List (String × List String) := [\n%s]\n\n", strings.Join(pinned, ",\n"))
		sb.WriteString("end SerfModel.Gen.CoordGuards\n")
		return sb.String(), nil
	})
}
