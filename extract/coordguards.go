package main

import (
	"fmt"
	"go/ast"
	"go/token"
	"path/filepath"
	"regexp"
	"strings"
)

// CoordGuards: the decisive guards and statement orders of the coordinate client as data
// (SerfModel/Model/CoordGuards.lean): componentIsValid, IsValid, checkCoordinate, Client.Update,
// pingDelegate.NotifyPingComplete.  Unknown shapes are errors.

func cgText(n ast.Node) string { return strings.Join(strings.Fields(exprString(n)), " ") }

// cgStmtText prints a statement without comments (the node is printed alone, so only comments attached to
// declarations inside it could appear; those are removed line-wise)
func cgStmtText(n ast.Node) string {
	var lines []string
	for _, l := range strings.Split(exprString(n), "\n") {
		if i := strings.Index(l, "//"); i >= 0 {
			l = l[:i]
		}
		lines = append(lines, l)
	}
	return strings.Join(strings.Fields(strings.Join(lines, " ")), " ")
}

// componentIsValid body: a single return of a Boolean expression over the parameter
func cgCompExpr(e ast.Expr, f string) (string, error) {
	switch x := e.(type) {
	case *ast.ParenExpr:
		return cgCompExpr(x.X, f)
	case *ast.UnaryExpr:
		if x.Op != token.NOT {
			return "", fmt.Errorf("componentIsValid: operator %s", x.Op)
		}
		in, err := cgCompExpr(x.X, f)
		if err != nil {
			return "", err
		}
		return "(CompExpr.not " + in + ")", nil
	case *ast.BinaryExpr:
		op := ""
		switch x.Op {
		case token.LAND:
			op = "and"
		case token.LOR:
			op = "or"
		default:
			return "", fmt.Errorf("componentIsValid: operator %s (only !, &&, ||, math.IsInf, math.IsNaN are understood)", x.Op)
		}
		l, err := cgCompExpr(x.X, f)
		if err != nil {
			return "", err
		}
		r, err := cgCompExpr(x.Y, f)
		if err != nil {
			return "", err
		}
		return fmt.Sprintf("(CompExpr.%s %s %s)", op, l, r), nil
	case *ast.CallExpr:
		t := cgText(x)
		if t == "math.IsNaN("+f+")" {
			return "CompExpr.isNaN", nil
		}
		if m := regexp.MustCompile(`^math\.IsInf\(` + regexp.QuoteMeta(f) + `, (-?\d+)\)$`).FindStringSubmatch(t); m != nil {
			s := m[1]
			if strings.HasPrefix(s, "-") {
				s = "(" + s + ")"
			}
			return "(CompExpr.isInf " + s + ")", nil
		}
		return "", fmt.Errorf("componentIsValid: call %s", t)
	}
	return "", fmt.Errorf("componentIsValid: expression %T", e)
}

func cgSingleReturn(fd *ast.FuncDecl, what string) (ast.Expr, error) {
	if fd == nil {
		return nil, fmt.Errorf("%s not found", what)
	}
	if len(fd.Body.List) != 1 {
		return nil, fmt.Errorf("%s: expected a single return", what)
	}
	r, ok := fd.Body.List[0].(*ast.ReturnStmt)
	if !ok || len(r.Results) != 1 {
		return nil, fmt.Errorf("%s: expected a single return", what)
	}
	return r.Results[0], nil
}

func cgIsValid(f *ast.File, consts map[string]*ast.BasicLit) (string, error) {
	fd := findFunc(f, "Coordinate", "IsValid")
	if fd == nil {
		return "", fmt.Errorf("IsValid not found")
	}
	sts, _, err := canonFunc(fd, consts, canonOpts{})
	if err != nil {
		return "", err
	}
	vecLoop := false
	if len(sts) == 2 {
		// canonical: index-only range loops are value loops; receiver v0, element v1
		want := "for _, v1 := range v0.Vec { if !componentIsValid(v1) { return false } }"
		if sts[0] != want {
			return "", fmt.Errorf("IsValid: loop is not (canonically) `%s` but `%s`", want, sts[0])
		}
		vecLoop = true
		sts = sts[1:]
	}
	if len(sts) != 1 {
		return "", fmt.Errorf("IsValid: unexpected statements")
	}
	ret, ok := fd.Body.List[len(fd.Body.List)-1].(*ast.ReturnStmt)
	if !ok || len(ret.Results) != 1 {
		return "", fmt.Errorf("IsValid: expected a return")
	}
	var fields []string
	var walk func(e ast.Expr) error
	walk = func(e ast.Expr) error {
		if p, ok := e.(*ast.ParenExpr); ok {
			return walk(p.X)
		}
		if b, ok := e.(*ast.BinaryExpr); ok && b.Op == token.LAND {
			if err := walk(b.X); err != nil {
				return err
			}
			return walk(b.Y)
		}
		m := regexp.MustCompile(`^componentIsValid\(v0\.(Error|Adjustment|Height)\)$`).FindStringSubmatch(cgText(e))
		if m == nil {
			return fmt.Errorf("IsValid: conjunct %s", cgText(e))
		}
		fields = append(fields, "CoordField."+strings.ToLower(m[1]))
		return nil
	}
	if err := walk(ret.Results[0]); err != nil {
		return "", err
	}
	return fmt.Sprintf("{ vecLoop := %v, fields := [%s] }", vecLoop, strings.Join(fields, ", ")), nil
}

func cgCheckCoordinate(f *ast.File, consts map[string]*ast.BasicLit) (string, error) {
	fd := findFunc(f, "Client", "checkCoordinate")
	if fd == nil {
		return "", fmt.Errorf("checkCoordinate not found")
	}
	sts, _, err := canonFunc(fd, consts, canonOpts{})
	if err != nil {
		return "", err
	}
	var steps []string
	for i, t := range sts {
		switch {
		case strings.HasPrefix(t, "if !v0.coord.IsCompatibleWith(v1) { return fmt.Errorf("), strings.HasPrefix(t, "if !v1.IsCompatibleWith(v0.coord) { return fmt.Errorf("):
			steps = append(steps, "CheckStep.compatible")
		case strings.HasPrefix(t, "if !v1.IsValid() { return fmt.Errorf("):
			steps = append(steps, "CheckStep.valid")
		case t == "return nil" && i == len(sts)-1:
		default:
			return "", fmt.Errorf("checkCoordinate: statement %q", t)
		}
	}
	return "[" + strings.Join(steps, ", ") + "]", nil
}

// durationNs evaluates `<n> * time.<Unit>` (possibly parenthesised) to nanoseconds.
func durationNs(e ast.Expr) (string, bool) {
	t := strings.Trim(cgText(e), "()")
	m := regexp.MustCompile(`^(\d+) \* time\.(Second|Millisecond|Microsecond|Nanosecond)$`).FindStringSubmatch(t)
	if m == nil {
		m2 := regexp.MustCompile(`^time\.(Second|Millisecond|Microsecond|Nanosecond) \* (\d+)$`).FindStringSubmatch(t)
		if m2 == nil {
			if t == "0" {
				return "0", true
			}
			return "", false
		}
		m = []string{"", m2[2], m2[1]}
	}
	unit := map[string]string{"Second": "000000000", "Millisecond": "000000", "Microsecond": "000", "Nanosecond": ""}[m[2]]
	if m[1] == "0" {
		return "0", true
	}
	return m[1] + unit, true
}

func cgUpdate(f *ast.File, consts map[string]*ast.BasicLit) (steps string, guard string, err error) {
	fd := findFunc(f, "Client", "Update")
	if fd == nil {
		return "", "", fmt.Errorf("Update not found")
	}
	recv := fd.Recv.List[0].Names[0].Name
	// the lock discipline, before the mutex statements are stripped: Lock first, and released on every path
	if len(fd.Body.List) == 0 || cgText(fd.Body.List[0]) != recv+".mutex.Lock()" {
		return "", "", fmt.Errorf("Update: does not start by taking the mutex")
	}
	deferred, unlocks, returns := false, 0, 0
	ast.Inspect(fd.Body, func(n ast.Node) bool {
		switch x := n.(type) {
		case *ast.DeferStmt:
			if cgText(x.Call) == recv+".mutex.Unlock()" {
				deferred = true
			}
		case *ast.ExprStmt:
			if cgText(x.X) == recv+".mutex.Unlock()" {
				unlocks++
			}
		case *ast.ReturnStmt:
			returns++
		}
		return true
	})
	_, _ = unlocks, returns
	if !deferred {
		// NOT equivalent to the deferred form: Update can panic (LatencyFilterSize = 0 indexes an empty slice), and only a
		// deferred Unlock releases the mutex then; with explicit unlocks the client deadlocks on the next call
		return "", "", fmt.Errorf("Update: the mutex is not released by a deferred Unlock (a panic inside Update would leave it held)")
	}
	sts, args, err := canonFunc(fd, consts, canonOpts{stripMutex: true})
	if err != nil {
		return "", "", err
	}
	if len(args) != 4 {
		return "", "", fmt.Errorf("Update: expected (node, other, rtt)")
	}
	// canonical names: v0 receiver, v1 node, v2 other, v3 rtt
	out := []string{"lock", "deferUnlock"}
	loc := `v\d+`
	re := func(p string) *regexp.Regexp { return regexp.MustCompile("^" + p + "$") }
	rttVar, cloneVar := "", ""
	for k, t := range sts {
		st := fd.Body.List[k]
		switch {
		case re(`if (` + loc + `) := v0\.checkCoordinate\(v2\); (` + loc + `) != nil \{ return nil, (` + loc + `) \}`).MatchString(t):
			out = append(out, "checkCoordinateOrReturn")
		case strings.HasPrefix(t, "if v3 ") || strings.HasPrefix(t, "if 0 ") || strings.HasPrefix(t, "if ("):
			is, ok := st.(*ast.IfStmt)
			if !ok || is.Init != nil || is.Else != nil {
				return "", "", fmt.Errorf("Update: rtt guard shape")
			}
			if c := cgText(is.Cond); c == "v3 == 0" || c == "0 == v3" {
				if !strings.Contains(t, "metrics.") || strings.Contains(t, "return") {
					return "", "", fmt.Errorf("Update: zero-rtt branch is not the metric")
				}
				out = append(out, "zeroRttMetric")
				continue
			}
			or, ok := is.Cond.(*ast.BinaryExpr)
			if !ok || or.Op != token.LOR {
				return "", "", fmt.Errorf("Update: rtt guard is not a disjunction")
			}
			lo, hi, loStrict, hiStrict := "", "", false, false
			for _, d := range []ast.Expr{or.X, or.Y} {
				if p, ok := d.(*ast.ParenExpr); ok {
					d = p.X
				}
				c, ok := d.(*ast.BinaryExpr)
				if !ok || (c.Op != token.LSS && c.Op != token.LEQ) {
					return "", "", fmt.Errorf("Update: rtt guard comparison %s", cgText(d))
				}
				switch {
				case cgText(c.X) == "v3": // rtt < bound: lower bound
					b, ok := durationNs(c.Y)
					if !ok || lo != "" {
						return "", "", fmt.Errorf("Update: rtt lower bound %s", cgText(c.Y))
					}
					lo, loStrict = b, c.Op == token.LSS
				case cgText(c.Y) == "v3": // bound < rtt: upper bound
					b, ok := durationNs(c.X)
					if !ok || hi != "" {
						return "", "", fmt.Errorf("Update: rtt upper bound %s", cgText(c.X))
					}
					hi, hiStrict = b, c.Op == token.LSS
				default:
					return "", "", fmt.Errorf("Update: rtt guard operands %s", cgText(d))
				}
			}
			if lo == "" || hi == "" {
				return "", "", fmt.Errorf("Update: rtt guard needs a lower and an upper bound")
			}
			if len(is.Body.List) != 1 || !strings.HasPrefix(cgText(is.Body.List[0]), "return nil, fmt.Errorf(") {
				return "", "", fmt.Errorf("Update: rtt guard does not return an error")
			}
			guard = fmt.Sprintf("{ lo := %s, loStrict := %v, hi := %s, hiStrict := %v }", lo, loStrict, hi, hiStrict)
			out = append(out, "rttRangeOrReturn")
		case re(`(` + loc + `) := v0\.latencyFilter\(v1, v3\.Seconds\(\)\)`).MatchString(t):
			rttVar = re(`(` + loc + `) := .*`).FindStringSubmatch(t)[1]
			out = append(out, "latencyFilter")
		case rttVar != "" && t == "v0.updateVivaldi(v2, "+rttVar+")":
			out = append(out, "updateVivaldi")
		case rttVar != "" && t == "v0.updateAdjustment(v2, "+rttVar+")":
			out = append(out, "updateAdjustment")
		case t == "v0.updateGravity()":
			out = append(out, "updateGravity")
		case t == "if !v0.coord.IsValid() { v0.stats.Resets = v0.stats.Resets + 1 v0.coord = NewCoordinate(v0.config) }",
			t == "if !v0.coord.IsValid() { v0.coord = NewCoordinate(v0.config) v0.stats.Resets = v0.stats.Resets + 1 }":
			out = append(out, "resetIfInvalid")
		case t == "return v0.coord.Clone(), nil":
			out = append(out, "returnClone")
		case re(`(` + loc + `) := v0\.coord\.Clone\(\)`).MatchString(t):
			// the clone taken into a temporary (needed when the mutex is released explicitly before the return)
			cloneVar = re(`(` + loc + `) := .*`).FindStringSubmatch(t)[1]
		case cloneVar != "" && t == "return "+cloneVar+", nil":
			out = append(out, "returnClone")
		default:
			return "", "", fmt.Errorf("Update: statement %q", t)
		}
	}
	if guard == "" {
		return "", "", fmt.Errorf("Update: no rtt guard")
	}
	for i := range out {
		out[i] = "UpdateStep." + out[i]
	}
	return "[" + strings.Join(out, ", ") + "]", guard, nil
}

func cgPing(repo string) (string, error) {
	_, f, err := parseFile(filepath.Join(repo, "serf", "ping_delegate.go"))
	if err != nil {
		return "", err
	}
	fd := findFunc(f, "pingDelegate", "NotifyPingComplete")
	if fd == nil {
		return "", fmt.Errorf("NotifyPingComplete not found")
	}
	saved := canonDir
	defer func() { canonDir = saved }()
	consts, err := pkgLiteralConsts(filepath.Join(repo, "serf"))
	if err != nil {
		return "", err
	}
	pv, ok := consts["PingVersion"]
	if !ok {
		return "", fmt.Errorf("PingVersion is not a literal constant")
	}
	sts, args, err := canonFunc(fd, map[string]*ast.BasicLit{"PingVersion": pv}, canonOpts{})
	if err != nil {
		return "", err
	}
	if len(args) != 4 {
		return "", fmt.Errorf("NotifyPingComplete: expected (other, rtt, payload)")
	}
	// canonical names: v0 receiver, v1 other, v2 rtt, v3 payload
	loc := `v\d+`
	re := func(p string) *regexp.Regexp { return regexp.MustCompile("^" + p + "$") }
	coordVar := ""
	var out []string
	for k, t := range sts {
		st := fd.Body.List[k]
		isReturnIf := func() bool {
			is, ok := st.(*ast.IfStmt)
			if !ok || is.Else != nil || len(is.Body.List) == 0 {
				return false
			}
			_, ok = is.Body.List[len(is.Body.List)-1].(*ast.ReturnStmt)
			return ok
		}
		switch {
		case t == "if len(v3) == 0 { return }":
			out = append(out, "emptyReturn")
		case re(loc + ` := v3\[0\]`).MatchString(t):
		case regexp.MustCompile(`^if (`+loc+` != `+pv.Value+`|`+pv.Value+` != `+loc+`) \{`).MatchString(t) && isReturnIf():
			out = append(out, "versionReturn")
		case re(loc + ` := bytes\.NewReader\(v3\[1:\]\)`).MatchString(t), re(loc + ` := codec\.NewDecoder\(` + loc + `, &codec\.MsgpackHandle\{\}\)`).MatchString(t):
		case re(`var (` + loc + `) coordinate\.Coordinate`).MatchString(t):
			coordVar = re(`var (` + loc + `) coordinate\.Coordinate`).FindStringSubmatch(t)[1]
		case coordVar != "" && regexp.MustCompile(`^if `+loc+` := `+loc+`\.Decode\(&`+coordVar+`\); `+loc+` != nil \{`).MatchString(t) && isReturnIf():
			out = append(out, "decodeReturn")
		case re(loc + ` := v0\.serf\.coordClient\.GetCoordinate\(\)`).MatchString(t):
			out = append(out, "before")
		case coordVar != "" && re(loc+`, `+loc+` := v0\.serf\.coordClient\.Update\(v1\.Name, &`+coordVar+`, v2\)`).MatchString(t):
			out = append(out, "update")
		case regexp.MustCompile(`^if `+loc+` != nil \{`).MatchString(t) && isReturnIf():
			out = append(out, "rejectedReturn")
		case regexp.MustCompile(`^` + loc + ` := float32\(` + loc + `\.DistanceTo\(` + loc + `\)`).MatchString(t):
		case strings.HasPrefix(t, "metrics.AddSampleWithLabels("):
			out = append(out, "metric")
		case t == "v0.serf.coordCacheLock.Lock()":
			out = append(out, "cacheLock")
		case coordVar != "" && t == "v0.serf.coordCache[v1.Name] = &"+coordVar:
			out = append(out, "cachePeer")
		case t == "v0.serf.coordCache[v0.serf.config.NodeName] = v0.serf.coordClient.GetCoordinate()":
			out = append(out, "cacheSelf")
		case t == "v0.serf.coordCacheLock.Unlock()":
			out = append(out, "cacheUnlock")
		default:
			return "", fmt.Errorf("NotifyPingComplete: statement %q", t)
		}
	}
	for i := range out {
		out[i] = "PingStep." + out[i]
	}
	return "[" + strings.Join(out, ", ") + "]", nil
}

func init() {
	addGen("CoordGuards", func(repo string) (string, error) {
		_, cf, err := parseFile(filepath.Join(repo, "coordinate", "coordinate.go"))
		if err != nil {
			return "", err
		}
		_, cl, err := parseFile(filepath.Join(repo, "coordinate", "client.go"))
		if err != nil {
			return "", err
		}
		consts, err := pkgLiteralConsts(filepath.Join(repo, "coordinate"))
		if err != nil {
			return "", err
		}
		civ := findFunc(cf, "", "componentIsValid")
		if civ == nil {
			return "", fmt.Errorf("componentIsValid not found")
		}
		if _, _, err := canonFunc(civ, consts, canonOpts{}); err != nil {
			return "", err
		}
		ret, err := cgSingleReturn(civ, "componentIsValid")
		if err != nil {
			return "", err
		}
		comp, err := cgCompExpr(ret, "v0")
		if err != nil {
			return "", err
		}
		valid, err := cgIsValid(cf, consts)
		if err != nil {
			return "", err
		}
		check, err := cgCheckCoordinate(cl, consts)
		if err != nil {
			return "", err
		}
		steps, guard, err := cgUpdate(cl, consts)
		if err != nil {
			return "", err
		}
		ping, err := cgPing(repo)
		if err != nil {
			return "", err
		}
		// the arithmetic bodies the model transcribes by hand, pinned statement by statement (comments and layout
		// do not matter, any change of an expression does)
		type pin struct {
			file *ast.File
			recv string
			name string
		}
		var pinned []string
		for _, pn := range []pin{{cl, "Client", "latencyFilter"}, {cl, "Client", "updateVivaldi"}, {cl, "Client", "updateAdjustment"},
			{cl, "Client", "updateGravity"}, {cf, "Coordinate", "ApplyForce"}, {cf, "", "unitVectorAt"}, {cf, "", "NewCoordinate"}} {
			fd := findFunc(pn.file, pn.recv, pn.name)
			if fd == nil {
				return "", fmt.Errorf("%s not found", pn.name)
			}
			cs, _, err := canonFunc(fd, consts, canonOpts{})
			if err != nil {
				return "", err
			}
			var sts []string
			for _, st := range cs {
				sts = append(sts, fmt.Sprintf("%q", st))
			}
			pinned = append(pinned, fmt.Sprintf("  (%q, [\n    %s])", pn.name, strings.Join(sts, ",\n    ")))
		}
		var sb strings.Builder
		sb.WriteString("-- GENERATED by /verif/extract (coordguards.go) from coordinate/coordinate.go, coordinate/client.go and\n")
		sb.WriteString("-- serf/ping_delegate.go — do not edit.\n")
		sb.WriteString("import SerfModel.Model.CoordGuards\nnamespace SerfModel.Gen.CoordGuards\nopen SerfModel.Coord\n\n")
		fmt.Fprintf(&sb, "/-- componentIsValid (coordinate.go) -/\ndef componentIsValid : CompExpr := %s\n\n", comp)
		fmt.Fprintf(&sb, "/-- Coordinate.IsValid (coordinate.go) -/\ndef isValid : ValidShape := %s\n\n", valid)
		fmt.Fprintf(&sb, "/-- Client.checkCoordinate (client.go) -/\ndef checkCoordinate : List CheckStep := %s\n\n", check)
		fmt.Fprintf(&sb, "/-- the round-trip-time guard of Client.Update (client.go), in nanoseconds -/\ndef rttGuard : RttGuard := %s\n\n", guard)
		fmt.Fprintf(&sb, "/-- Client.Update (client.go), statements in source order -/\ndef update : List UpdateStep := %s\n\n", steps)
		fmt.Fprintf(&sb, "/-- pingDelegate.NotifyPingComplete (serf/ping_delegate.go), statements in source order -/\ndef notifyPingComplete : List PingStep := %s\n\n", ping)
		fmt.Fprintf(&sb, "/-- the statements of the arithmetic functions the model transcribes, in CANONICAL form (extract/canon.go: locals renamed v0, v1, …, constants resolved, literals normalised, index-only range loops as value loops, comparisons oriented as < / <=, op= spelled out, comments dropped) -/\ndef pinned : List (String × List String) := [\n%s]\n\n", strings.Join(pinned, ",\n"))
		sb.WriteString("end SerfModel.Gen.CoordGuards\n")
		return sb.String(), nil
	})
}
