"""Per-property configuration of ./check (which Lean targets hold the obligations, which
regenerated Gen files the property depends on, whether there is a harness plug-in)."""

PROPS = {
    "C19": {
        "gen": ["Lamport"],
        "lean_targets": ["SerfProofs.Props.C19"],
        "theorems": [("SerfProofs/Props/C19.lean", "C19_"), ("SerfProofs/Lemmas/Lamport.lean", "gen_")],
        "assumptions": [
            "sync/atomic Load/Add/CompareAndSwap on uint64 are single atomic actions; only sequentially consistent interleavings",
            "NoOverflow: no increment at 2^64-1 and no Witness(2^64-1) (the excluded input is the recorded finding witness-max)",
        ],
    },
}
