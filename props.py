"""Per-property configuration of ./check, loaded from props.d/Cxx.json:
  gen          regenerated Gen files the property's theorems depend on
  lean_targets lake targets holding the obligations (default SerfProofs.Props.Cxx)
  theorems     [[lean file, theorem-name prefix], …] whose axioms are audited (default Props/Cxx.lean, "Cxx_")
  harness      false when there is no correspondence plug-in (obligations only)
  assumptions, trusted, rule   copied into the evidence
  manifest     {text, note, technique, design_ref} for MANIFEST.json (see ./mkall)
"""
import glob, json, os

PROPS = {}
for _p in sorted(glob.glob(os.path.join(os.path.dirname(os.path.abspath(__file__)), "props.d", "C*.json"))):
    _c = json.load(open(_p))
    _c["theorems"] = [tuple(t) for t in _c.get("theorems", [])] or None
    if _c["theorems"] is None:
        del _c["theorems"]
    PROPS[os.path.basename(_p)[:-5]] = _c
